import EAO.Lemmas.ScaleBuild
import EAO.Properties.C16
/-!
# C16 per builder — "all capacities times `k`" commutes with the LP builders

`EAO.C16.scaled_fixed` identifies a scaled asset at a fixed scale `s` with the finished base problem whose right-hand
sides and capacity bounds are multiplied by `s/norm` (`RescaledBaseFeasible`).  Here that finished problem is shown to
be what the BUILDER returns for the asset whose capacity PARAMETERS are multiplied by `s/norm`:

* `scaleProblemCaps k a` (`EAO/Lemmas/ScaleBuild.lean`) is the problem "`a` with all capacities times `k`"; its relaxed
  feasible set is `RescaledBaseFeasible a k`, its costs and mapping are those of `a` (`caps_problem_is_rescaled_base`);
* for every LP builder of `EAO/Model/Contract.lean` and `EAO/Model/Storage.lean` and `k > 0`
  `build (capsTimes k p) = (build p).map (scaleProblemCaps k)` — equal as results: the same error, or problems equal in
  every field (`simpleContract_caps`, `contract_caps`, `multi_caps`, `transport_caps`, `extTransport_caps`, and the
  `_keys` versions for capacities given as keys into the price data); for the
  storage in LP form the equation holds for EVERY `k` (`storage_caps`), with the constructor guards for `k > 0`
  (`mkStorage_caps`) and for `k ≥ 0` when the original passes them (`mkStorage_caps_nonneg`);
* the cost vector is untouched in every case: capacities do not enter the costs; the storage's `cost_store` enters the
  cost vector of the dispatch variables only — the code's objective has NO constant (the cost of keeping the start level
  and the inflow, which would scale with `k`, is not part of `c` in either problem);
* `k = 0` is different for contracts and transports: the decision between one and two variables per step, the sign of
  the costs and the constructor checks look at the SIGNS of the capacities, and at `k = 0` every sign test succeeds.  The
  equation is false there (kernel-checked witnesses (a)–(d) in `EAO.C16B.Ex` below); what is true: both problems force
  every variable to zero and have value zero (`caps_zero_scaled_side`, `caps_zero_builder_side_*`);
* joined with `scaled_fixed`: a ScaledAsset at fixed scale `s > 0` over builder X is builder X with capacities times
  `s/norm`, less `s · fix_costs · duration` (`scaled_simpleContract`, `scaled_contract`, `scaled_multi` and their `_keys`
  forms, `scaled_transport`, `scaled_extTransport`, and `scaled_storage` for `s ≥ 0`).

Capacities of a contract given as a KEY into the price data: `ParamValue.scale` leaves a key alone, the price data have
to be rescaled for exactly those keys — `simpleContract_caps_keys`, `contract_caps_keys`, `multi_caps_keys` take a second
price table related to the first by `CapsPrices`; the versions without `_keys` are the special case "no capacity is a
key, same price data".

Every hypothesis is shown necessary by a kernel-checked witness in `EAO.C16B.Ex`: `k > 0` (contracts, transports), the
capacity series multiplied in the price data, `g.Ok`, and the LP form of the storage — with `no_simult_in_out` or
`max_store_duration` the capacities are COEFFICIENTS of rows, which neither `scaleProblemCaps` nor the scaled asset
multiplies (the storage instance of the known finding F-16c).
-/
namespace EAO.C16B
open EAO EAO.Scaled EAO.ScaleBuild EAO.C16 EAO.Storage

/-! ## the scaled finished problem -/

/-- **`scaleProblemCaps` is the rescaled base of `scaled_fixed`.**  For a problem with one pair of bounds per
    variable: a point satisfies bounds and rows of `scaleProblemCaps k a` iff it is `RescaledBaseFeasible a k`; costs,
    mapping, number of variables, name and nodes are those of `a`, the rows are the rows of `a` with the right-hand
    side times `k` (same coefficients, same kinds). -/
theorem caps_problem_is_rescaled_base (k : Rat) (a : AssetProblem) (hl : a.l.length = a.n) (hu : a.u.length = a.n)
    (x : Vec) :
    ((scaleProblemCaps k a).FeasibleRelaxed x ↔ RescaledBaseFeasible a k x) ∧
    (scaleProblemCaps k a).c = a.c ∧ (scaleProblemCaps k a).mapping = a.mapping ∧
    (scaleProblemCaps k a).n = a.n ∧ (scaleProblemCaps k a).name = a.name ∧ (scaleProblemCaps k a).nodes = a.nodes ∧
    (scaleProblemCaps k a).rows = a.rows.map (scaleRhs k) := by
  refine ⟨?_, rfl, rfl, rfl, rfl, rfl, rfl⟩
  have key : ∀ j, j < a.n →
      (((scaleProblemCaps k a).l.getD j 0 ≤ x j ∧ x j ≤ (scaleProblemCaps k a).u.getD j 0) ↔
       (if (dispVars a.mapping).contains j then a.l.getD j 0 * k ≤ x j ∧ x j ≤ a.u.getD j 0 * k
        else a.l.getD j 0 ≤ x j ∧ x j ≤ a.u.getD j 0)) := by
    intro j hj
    rw [scaleCaps_l, scaleCaps_u, mapAt_getD _ _ _ _ (by omega), mapAt_getD _ _ _ _ (by omega)]
    by_cases hc : (dispVars a.mapping).contains j = true
    · simp only [hc, if_true]
    · simp only [hc, Bool.false_eq_true, if_false]
  unfold AssetProblem.FeasibleRelaxed RescaledBaseFeasible InBounds
  simp only [scaleCaps_l_length, scaleCaps_rows, List.forall_mem_map, hl]
  exact ⟨fun ⟨hb, hr⟩ => ⟨fun j hj => (key j hj).mp (hb j hj), hr⟩,
         fun ⟨hb, hr⟩ => ⟨fun j hj => (key j hj).mpr (hb j hj), hr⟩⟩

/-- **C16 (scaled asset at a fixed scale, as a problem).**  `scaled_fixed` with the rescaled base written as the
    problem `scaleProblemCaps (s/norm) base`: same feasible points, value less `s · fix_costs · Σdt`. -/
theorem scaled_is_caps (sp : ScaledP) (base : AssetProblem) (dtSum : Rat) (x : Vec) (s : Rat)
    (hne : 0 < base.n) (hl : base.l.length = base.n) (hu : base.u.length = base.n)
    (hdisp : ∀ d ∈ dispVars base.mapping, d < base.n)
    (hnorm : 0 < sp.normScale) (h0 : 0 ≤ s) (hmin : sp.minScale ≤ s) (hmax : s ≤ sp.maxScale)
    (hxs : x base.n = s) :
    ((buildScaled sp base dtSum).FeasibleRelaxed x ↔
      (scaleProblemCaps (s / sp.normScale) base).FeasibleRelaxed x) ∧
    - costAt (buildScaled sp base dtSum).c 0 x
      = - costAt (scaleProblemCaps (s / sp.normScale) base).c 0 x - s * sp.fixCosts * dtSum := by
  obtain ⟨hf, hv⟩ := scaled_fixed sp base dtSum x s hne hl hu hdisp hnorm h0 hmin hmax hxs
  exact ⟨hf.trans (caps_problem_is_rescaled_base _ base hl hu x).1.symm, hv⟩

/-! ## the builders, `k > 0` -/

/-- **SimpleContract, capacities in any form.**  `min_cap`, `max_cap` times `k > 0` — scalars, arrays and interval data
    in the parameters (`capsTimes`), series referred to by a key in the price data (`CapsPrices`: exactly the series used
    as capacities are multiplied by `k`, the price and extra-cost series are the same): the builder returns the same
    error, or the problem with all capacities times `k` — same costs (the choice between one and two variables per step
    and the sign of the extra costs are decided by the signs of the capacities), same mapping, bounds times `k`. -/
theorem simpleContract_caps_keys {k : Rat} (hk : 0 < k) (p : ContractP) (g : Grid) (hg : g.Ok)
    (prices prices' : Prices) (hp : CapsPrices k p prices prices') (fullT : Nat) :
    buildSimpleContract (p.capsTimes k) g prices' fullT
      = (buildSimpleContract p g prices fullT).map (scaleProblemCaps k) := by
  rw [simple_caps' hk p g prices prices' fullT (capsData_of_prices k p g prices prices' fullT hp)]
  exact map_scaleAll_eq k _ (fun P h => ⟨(simpleContract_wf hg h).l_len, (simpleContract_wf hg h).u_len,
    simple_fullCap hg h⟩)

/-- **SimpleContract** with capacities not given as keys: the same price data on both sides. -/
theorem simpleContract_caps {k : Rat} (hk : 0 < k) (p : ContractP) (hmin : p.minCap.isKey = false)
    (hmax : p.maxCap.isKey = false) (g : Grid) (hg : g.Ok) (prices : Prices) (fullT : Nat) :
    buildSimpleContract (p.capsTimes k) g prices fullT
      = (buildSimpleContract p g prices fullT).map (scaleProblemCaps k) :=
  simpleContract_caps_keys hk p g hg prices prices (capsPrices_self k p hmin hmax prices) fullT

/-- **Contract.**  Capacities and the volumes of `min_take`, `max_take` times `k > 0`: the take rows keep their
    coefficients, their right-hand sides are multiplied by `k`. -/
theorem contract_caps_keys {k : Rat} (hk : 0 < k) (p : ContractP) (g : Grid) (hg : g.Ok)
    (prices prices' : Prices) (hp : CapsPrices k p prices prices') (fullT u : Nat) :
    buildContract (p.capsTimes k) g prices' fullT u
      = (buildContract p g prices fullT u).map (scaleProblemCaps k) := by
  rw [contract_caps' hk p g prices prices' fullT u (capsData_of_prices k p g prices prices' fullT hp)]
  exact map_scaleAll_eq k _ (fun P h => ⟨(contract_wf' hg h).l_len, (contract_wf' hg h).u_len,
    contract_fullCap hg h⟩)

theorem contract_caps {k : Rat} (hk : 0 < k) (p : ContractP) (hmin : p.minCap.isKey = false)
    (hmax : p.maxCap.isKey = false) (g : Grid) (hg : g.Ok) (prices : Prices) (fullT u : Nat) :
    buildContract (p.capsTimes k) g prices fullT u
      = (buildContract p g prices fullT u).map (scaleProblemCaps k) :=
  contract_caps_keys hk p g hg prices prices (capsPrices_self k p hmin hmax prices) fullT u

/-- **MultiCommodityContract** (the factors per node are not capacities). -/
theorem multi_caps_keys {k : Rat} (hk : 0 < k) (p : ContractP) (factors : List Rat) (g : Grid) (hg : g.Ok)
    (prices prices' : Prices) (hp : CapsPrices k p prices prices') (fullT u : Nat) :
    buildMulti (p.capsTimes k) factors g prices' fullT u
      = (buildMulti p factors g prices fullT u).map (scaleProblemCaps k) := by
  rw [multi_caps' hk p factors g prices prices' fullT u (capsData_of_prices k p g prices prices' fullT hp)]
  exact map_scaleAll_eq k _ (fun P h => ⟨(multi_wf' hg h).l_len, (multi_wf' hg h).u_len, multi_fullCap hg h⟩)

theorem multi_caps {k : Rat} (hk : 0 < k) (p : ContractP) (factors : List Rat) (hmin : p.minCap.isKey = false)
    (hmax : p.maxCap.isKey = false) (g : Grid) (hg : g.Ok) (prices : Prices) (fullT u : Nat) :
    buildMulti (p.capsTimes k) factors g prices fullT u
      = (buildMulti p factors g prices fullT u).map (scaleProblemCaps k) :=
  multi_caps_keys hk p factors g hg prices prices (capsPrices_self k p hmin hmax prices) fullT u

/-- **Transport.**  `min_cap`, `max_cap` times `k > 0` (efficiency and costs untouched). -/
theorem transport_caps {k : Rat} (hk : 0 < k) (p : TransportP) (g : Grid) (hg : g.Ok) (prices : Prices)
    (fullT : Nat) :
    buildTransport (p.capsTimes k) g prices fullT = (buildTransport p g prices fullT).map (scaleProblemCaps k) := by
  rw [transport_caps' hk p]
  exact map_scaleAll_eq k _ (fun P h => ⟨(transport_wf' hg h).l_len, (transport_wf' hg h).u_len,
    transport_fullCap hg h⟩)

/-- **ExtendedTransport.**  Capacities and take volumes times `k > 0`. -/
theorem extTransport_caps {k : Rat} (hk : 0 < k) (p : TransportP) (g : Grid) (hg : g.Ok) (prices : Prices)
    (fullT u : Nat) :
    buildExtTransport (p.capsTimes k) g prices fullT u
      = (buildExtTransport p g prices fullT u).map (scaleProblemCaps k) := by
  rw [extTransport_caps' hk p]
  exact map_scaleAll_eq k _ (fun P h => ⟨(extTransport_wf' hg h).l_len, (extTransport_wf' hg h).u_len,
    extTransport_fullCap hg h⟩)

/-- **Storage in LP form** (no booleans: `no_simult_in_out` not effective, no `max_store_duration`; blocks, two nodes,
    efficiency, costs incl. `cost_store`, inflow all allowed).  `size`, `start_level`, `end_level`, `inflow`, `cap_in`,
    `cap_out` times ANY `k`: the same error, or the problem with the bounds of the dispatch variables and every
    right-hand side of the level rows times `k`; the cost vector (incl. the `cost_store` tail sums) is unchanged.
    No hypothesis on the grid. -/
theorem storage_caps (k : Rat) (p : StorageP) (hns : hasNS p = false) (hh : p.maxStoreDuration = none) (g : Grid)
    (fullT : Nat) (prices : Prices) :
    buildStorage (p.capsTimes k) g fullT prices = (buildStorage p g fullT prices).map (scaleProblemCaps k) := by
  rw [storage_caps' k p g hns hh]
  exact map_scaleAll_eq k _ (fun P h => storage_fullCap p g hns hh h)

/-- with the constructor guards (`start_level ≤ size`, `cap_in, cap_out ≥ 0`): for `k > 0` they do not change … -/
theorem mkStorage_caps {k : Rat} (hk : 0 < k) (p : StorageP) (hns : hasNS p = false)
    (hh : p.maxStoreDuration = none) (g : Grid) (fullT : Nat) (prices : Prices) :
    mkStorage (p.capsTimes k) g fullT prices = (mkStorage p g fullT prices).map (scaleProblemCaps k) := by
  unfold mkStorage
  rw [guards_caps k p hk, storage_caps k p hns hh]
  split <;> rfl

/-- … and for `k ≥ 0` (so also `k = 0`) a storage that passes the guards still passes them -/
theorem mkStorage_caps_nonneg {k : Rat} (hk : 0 ≤ k) (p : StorageP) (hgd : p.guards = true) (hns : hasNS p = false)
    (hh : p.maxStoreDuration = none) (g : Grid) (fullT : Nat) (prices : Prices) :
    mkStorage (p.capsTimes k) g fullT prices = (mkStorage p g fullT prices).map (scaleProblemCaps k) := by
  unfold mkStorage
  rw [guards_caps_of_nonneg k p hk hgd, hgd, storage_caps k p hns hh]
  rfl

/-! ## `k = 0` -/

/-- scaled side at `k = 0`: a problem all of whose variables are capacity variables, with all capacities times 0, has
    only points that vanish on its variables, and their value is 0 -/
theorem caps_zero_scaled_side (a : AssetProblem) (hf : FullCap a) (x : Vec)
    (hx : RescaledBaseFeasible a 0 x) : (∀ j, j < a.n → x j = 0) ∧ - costAt a.c 0 x = 0 := by
  have hz : ∀ j, j < a.n → x j = 0 := by
    intro j hj
    have := hx.1 j hj
    rw [if_pos (by simpa using hf j hj)] at this
    grind
  refine ⟨hz, ?_⟩
  rw [costAt_zero a.c 0 x (fun j hj => by rw [Nat.zero_add]; exact hz j hj)]
  rfl

/-- builder side at `k = 0`, generic: all bounds zero -/
theorem caps_zero_of_zeroBox {P : AssetProblem} (hz : ZeroBox P) (hl : P.l.length = P.n) (x : Vec)
    (hx : P.FeasibleRelaxed x) : (∀ j, j < P.n → x j = 0) ∧ - costAt P.c 0 x = 0 := by
  have h0 : ∀ j, j < P.n → x j = 0 := fun j hj => zeroBox_point hz hx.1 j (by omega)
  refine ⟨h0, ?_⟩
  rw [costAt_zero P.c 0 x (fun j hj => by rw [Nat.zero_add]; exact h0 j hj)]
  rfl

/-- a simple contract / contract / multi-commodity contract with all capacities times 0: whatever the builder returns
    (it is the one-variable form, whatever the original was) has only the zero point, of value 0 -/
theorem caps_zero_builder_side_simpleContract (p : ContractP) (hmin : p.minCap.isKey = false)
    (hmax : p.maxCap.isKey = false) (g : Grid) (hg : g.Ok) (prices : Prices) (fullT : Nat) (P : AssetProblem)
    (h : buildSimpleContract (p.capsTimes 0) g prices fullT = .ok P) (x : Vec) (hx : P.FeasibleRelaxed x) :
    (∀ j, j < P.n → x j = 0) ∧ - costAt P.c 0 x = 0 :=
  caps_zero_of_zeroBox (simple_zeroBox hmin hmax h) (simpleContract_wf hg h).l_len x hx

theorem caps_zero_builder_side_contract (p : ContractP) (hmin : p.minCap.isKey = false)
    (hmax : p.maxCap.isKey = false) (g : Grid) (hg : g.Ok) (prices : Prices) (fullT u : Nat) (P : AssetProblem)
    (h : buildContract (p.capsTimes 0) g prices fullT u = .ok P) (x : Vec) (hx : P.FeasibleRelaxed x) :
    (∀ j, j < P.n → x j = 0) ∧ - costAt P.c 0 x = 0 :=
  caps_zero_of_zeroBox (contract_zeroBox hmin hmax h) (contract_wf' hg h).l_len x hx

theorem caps_zero_builder_side_multi (p : ContractP) (factors : List Rat) (hmin : p.minCap.isKey = false)
    (hmax : p.maxCap.isKey = false) (g : Grid) (hg : g.Ok) (prices : Prices) (fullT u : Nat) (P : AssetProblem)
    (h : buildMulti (p.capsTimes 0) factors g prices fullT u = .ok P) (x : Vec) (hx : P.FeasibleRelaxed x) :
    (∀ j, j < P.n → x j = 0) ∧ - costAt P.c 0 x = 0 :=
  caps_zero_of_zeroBox (multi_zeroBox hmin hmax h) (multi_wf' hg h).l_len x hx

theorem caps_zero_builder_side_transport (p : TransportP) (g : Grid) (hg : g.Ok) (prices : Prices) (fullT : Nat)
    (P : AssetProblem) (h : buildTransport (p.capsTimes 0) g prices fullT = .ok P) (x : Vec)
    (hx : P.FeasibleRelaxed x) : (∀ j, j < P.n → x j = 0) ∧ - costAt P.c 0 x = 0 :=
  caps_zero_of_zeroBox (transport_zeroBox h) (transport_wf' hg h).l_len x hx

theorem caps_zero_builder_side_extTransport (p : TransportP) (g : Grid) (hg : g.Ok) (prices : Prices)
    (fullT u : Nat) (P : AssetProblem) (h : buildExtTransport (p.capsTimes 0) g prices fullT u = .ok P) (x : Vec)
    (hx : P.FeasibleRelaxed x) : (∀ j, j < P.n → x j = 0) ∧ - costAt P.c 0 x = 0 :=
  caps_zero_of_zeroBox (extTransport_zeroBox h) (extTransport_wf' hg h).l_len x hx

/-! ## joined with `scaled_fixed`: a scaled asset over builder X at fixed scale -/

/-- **ScaledAsset over a SimpleContract at scale `s > 0`.**  Let `base` be what the contract's builder returns on a
    grid with steps.  Then the builder succeeds for the contract with capacities times `s/norm` (price data `prices'`
    with the capacity series times `s/norm`, `CapsPrices`), and a point `(x, s)` is feasible for the scaled problem iff
    `x` is feasible for THAT contract's problem; the value is that contract's value less `s · fix_costs · Σdt`. -/
theorem scaled_simpleContract_keys (sp : ScaledP) (p : ContractP) (g : Grid) (hg : g.Ok) (hT : g.T ≠ 0)
    (prices prices' : Prices) (fullT : Nat)
    (base : AssetProblem) (hb : buildSimpleContract p g prices fullT = .ok base) (x : Vec) (s : Rat)
    (hp : CapsPrices (s / sp.normScale) p prices prices')
    (hnorm : 0 < sp.normScale) (hs : 0 < s) (hlo : sp.minScale ≤ s) (hhi : s ≤ sp.maxScale) (hxs : x base.n = s) :
    ∃ base', buildSimpleContract (p.capsTimes (s / sp.normScale)) g prices' fullT = .ok base' ∧
      ((buildScaled sp base (activeDuration g)).FeasibleRelaxed x ↔ base'.FeasibleRelaxed x) ∧
      - costAt (buildScaled sp base (activeDuration g)).c 0 x
        = - costAt base'.c 0 x - s * sp.fixCosts * activeDuration g := by
  obtain ⟨h1, h2, h3, h4⟩ := builtWf_hyps (simpleContract_wf hg hb) hT
  refine ⟨scaleProblemCaps (s / sp.normScale) base, ?_,
    scaled_is_caps sp base _ x s h1 h2 h3 h4 hnorm (Rat.le_of_lt hs) hlo hhi hxs⟩
  rw [simpleContract_caps_keys (div_pos' hs hnorm) p g hg prices prices' hp, hb]; rfl

/-- … capacities not given as keys: the same price data -/
theorem scaled_simpleContract (sp : ScaledP) (p : ContractP) (hmin : p.minCap.isKey = false)
    (hmax : p.maxCap.isKey = false) (g : Grid) (hg : g.Ok) (hT : g.T ≠ 0) (prices : Prices) (fullT : Nat)
    (base : AssetProblem) (hb : buildSimpleContract p g prices fullT = .ok base) (x : Vec) (s : Rat)
    (hnorm : 0 < sp.normScale) (hs : 0 < s) (hlo : sp.minScale ≤ s) (hhi : s ≤ sp.maxScale) (hxs : x base.n = s) :
    ∃ base', buildSimpleContract (p.capsTimes (s / sp.normScale)) g prices fullT = .ok base' ∧
      ((buildScaled sp base (activeDuration g)).FeasibleRelaxed x ↔ base'.FeasibleRelaxed x) ∧
      - costAt (buildScaled sp base (activeDuration g)).c 0 x
        = - costAt base'.c 0 x - s * sp.fixCosts * activeDuration g :=
  scaled_simpleContract_keys sp p g hg hT prices prices fullT base hb x s (capsPrices_self _ p hmin hmax prices)
    hnorm hs hlo hhi hxs

/-- **ScaledAsset over a Contract** (take periods) at scale `s > 0`: capacities AND take volumes times `s/norm`. -/
theorem scaled_contract_keys (sp : ScaledP) (p : ContractP) (g : Grid) (hg : g.Ok) (hT : g.T ≠ 0)
    (prices prices' : Prices) (fullT u : Nat)
    (base : AssetProblem) (hb : buildContract p g prices fullT u = .ok base) (x : Vec) (s : Rat)
    (hp : CapsPrices (s / sp.normScale) p prices prices')
    (hnorm : 0 < sp.normScale) (hs : 0 < s) (hlo : sp.minScale ≤ s) (hhi : s ≤ sp.maxScale) (hxs : x base.n = s) :
    ∃ base', buildContract (p.capsTimes (s / sp.normScale)) g prices' fullT u = .ok base' ∧
      ((buildScaled sp base (activeDuration g)).FeasibleRelaxed x ↔ base'.FeasibleRelaxed x) ∧
      - costAt (buildScaled sp base (activeDuration g)).c 0 x
        = - costAt base'.c 0 x - s * sp.fixCosts * activeDuration g := by
  obtain ⟨h1, h2, h3, h4⟩ := builtWf_hyps (contract_wf' hg hb) hT
  refine ⟨scaleProblemCaps (s / sp.normScale) base, ?_,
    scaled_is_caps sp base _ x s h1 h2 h3 h4 hnorm (Rat.le_of_lt hs) hlo hhi hxs⟩
  rw [contract_caps_keys (div_pos' hs hnorm) p g hg prices prices' hp, hb]; rfl

theorem scaled_contract (sp : ScaledP) (p : ContractP) (hmin : p.minCap.isKey = false)
    (hmax : p.maxCap.isKey = false) (g : Grid) (hg : g.Ok) (hT : g.T ≠ 0) (prices : Prices) (fullT u : Nat)
    (base : AssetProblem) (hb : buildContract p g prices fullT u = .ok base) (x : Vec) (s : Rat)
    (hnorm : 0 < sp.normScale) (hs : 0 < s) (hlo : sp.minScale ≤ s) (hhi : s ≤ sp.maxScale) (hxs : x base.n = s) :
    ∃ base', buildContract (p.capsTimes (s / sp.normScale)) g prices fullT u = .ok base' ∧
      ((buildScaled sp base (activeDuration g)).FeasibleRelaxed x ↔ base'.FeasibleRelaxed x) ∧
      - costAt (buildScaled sp base (activeDuration g)).c 0 x
        = - costAt base'.c 0 x - s * sp.fixCosts * activeDuration g :=
  scaled_contract_keys sp p g hg hT prices prices fullT u base hb x s (capsPrices_self _ p hmin hmax prices)
    hnorm hs hlo hhi hxs

/-- **ScaledAsset over a MultiCommodityContract** at scale `s > 0`. -/
theorem scaled_multi_keys (sp : ScaledP) (p : ContractP) (factors : List Rat) (g : Grid) (hg : g.Ok) (hT : g.T ≠ 0)
    (prices prices' : Prices) (fullT u : Nat)
    (base : AssetProblem) (hb : buildMulti p factors g prices fullT u = .ok base) (x : Vec) (s : Rat)
    (hp : CapsPrices (s / sp.normScale) p prices prices')
    (hnorm : 0 < sp.normScale) (hs : 0 < s) (hlo : sp.minScale ≤ s) (hhi : s ≤ sp.maxScale) (hxs : x base.n = s) :
    ∃ base', buildMulti (p.capsTimes (s / sp.normScale)) factors g prices' fullT u = .ok base' ∧
      ((buildScaled sp base (activeDuration g)).FeasibleRelaxed x ↔ base'.FeasibleRelaxed x) ∧
      - costAt (buildScaled sp base (activeDuration g)).c 0 x
        = - costAt base'.c 0 x - s * sp.fixCosts * activeDuration g := by
  obtain ⟨h1, h2, h3, h4⟩ := builtWf_hyps (multi_wf' hg hb) hT
  refine ⟨scaleProblemCaps (s / sp.normScale) base, ?_,
    scaled_is_caps sp base _ x s h1 h2 h3 h4 hnorm (Rat.le_of_lt hs) hlo hhi hxs⟩
  rw [multi_caps_keys (div_pos' hs hnorm) p factors g hg prices prices' hp, hb]; rfl

theorem scaled_multi (sp : ScaledP) (p : ContractP) (factors : List Rat) (hmin : p.minCap.isKey = false)
    (hmax : p.maxCap.isKey = false) (g : Grid) (hg : g.Ok) (hT : g.T ≠ 0) (prices : Prices) (fullT u : Nat)
    (base : AssetProblem) (hb : buildMulti p factors g prices fullT u = .ok base) (x : Vec) (s : Rat)
    (hnorm : 0 < sp.normScale) (hs : 0 < s) (hlo : sp.minScale ≤ s) (hhi : s ≤ sp.maxScale) (hxs : x base.n = s) :
    ∃ base', buildMulti (p.capsTimes (s / sp.normScale)) factors g prices fullT u = .ok base' ∧
      ((buildScaled sp base (activeDuration g)).FeasibleRelaxed x ↔ base'.FeasibleRelaxed x) ∧
      - costAt (buildScaled sp base (activeDuration g)).c 0 x
        = - costAt base'.c 0 x - s * sp.fixCosts * activeDuration g :=
  scaled_multi_keys sp p factors g hg hT prices prices fullT u base hb x s (capsPrices_self _ p hmin hmax prices)
    hnorm hs hlo hhi hxs

/-- **ScaledAsset over a Transport** at scale `s > 0`. -/
theorem scaled_transport (sp : ScaledP) (p : TransportP) (g : Grid) (hg : g.Ok) (hT : g.T ≠ 0) (prices : Prices)
    (fullT : Nat) (base : AssetProblem) (hb : buildTransport p g prices fullT = .ok base) (x : Vec) (s : Rat)
    (hnorm : 0 < sp.normScale) (hs : 0 < s) (hlo : sp.minScale ≤ s) (hhi : s ≤ sp.maxScale) (hxs : x base.n = s) :
    ∃ base', buildTransport (p.capsTimes (s / sp.normScale)) g prices fullT = .ok base' ∧
      ((buildScaled sp base (activeDuration g)).FeasibleRelaxed x ↔ base'.FeasibleRelaxed x) ∧
      - costAt (buildScaled sp base (activeDuration g)).c 0 x
        = - costAt base'.c 0 x - s * sp.fixCosts * activeDuration g := by
  obtain ⟨h1, h2, h3, h4⟩ := builtWf_hyps (transport_wf' hg hb) hT
  refine ⟨scaleProblemCaps (s / sp.normScale) base, ?_,
    scaled_is_caps sp base _ x s h1 h2 h3 h4 hnorm (Rat.le_of_lt hs) hlo hhi hxs⟩
  rw [transport_caps (div_pos' hs hnorm) p g hg, hb]; rfl

/-- **ScaledAsset over an ExtendedTransport** at scale `s > 0`. -/
theorem scaled_extTransport (sp : ScaledP) (p : TransportP) (g : Grid) (hg : g.Ok) (hT : g.T ≠ 0)
    (prices : Prices) (fullT u : Nat) (base : AssetProblem)
    (hb : buildExtTransport p g prices fullT u = .ok base) (x : Vec) (s : Rat)
    (hnorm : 0 < sp.normScale) (hs : 0 < s) (hlo : sp.minScale ≤ s) (hhi : s ≤ sp.maxScale) (hxs : x base.n = s) :
    ∃ base', buildExtTransport (p.capsTimes (s / sp.normScale)) g prices fullT u = .ok base' ∧
      ((buildScaled sp base (activeDuration g)).FeasibleRelaxed x ↔ base'.FeasibleRelaxed x) ∧
      - costAt (buildScaled sp base (activeDuration g)).c 0 x
        = - costAt base'.c 0 x - s * sp.fixCosts * activeDuration g := by
  obtain ⟨h1, h2, h3, h4⟩ := builtWf_hyps (extTransport_wf' hg hb) hT
  refine ⟨scaleProblemCaps (s / sp.normScale) base, ?_,
    scaled_is_caps sp base _ x s h1 h2 h3 h4 hnorm (Rat.le_of_lt hs) hlo hhi hxs⟩
  rw [extTransport_caps (div_pos' hs hnorm) p g hg, hb]; rfl

/-- **ScaledAsset over a Storage in LP form** at scale `s ≥ 0` (scale 0 included): the storage with size, levels,
    inflow, `cap_in`, `cap_out` times `s/norm`, less `s · fix_costs · Σdt`. -/
theorem scaled_storage (sp : ScaledP) (p : StorageP) (hns : hasNS p = false) (hh : p.maxStoreDuration = none)
    (g : Grid) (hg : g.Ok) (hT : g.T ≠ 0) (prices : Prices) (fullT : Nat) (base : AssetProblem)
    (hb : buildStorage p g fullT prices = .ok base) (x : Vec) (s : Rat)
    (hnorm : 0 < sp.normScale) (hs : 0 ≤ s) (hlo : sp.minScale ≤ s) (hhi : s ≤ sp.maxScale) (hxs : x base.n = s) :
    ∃ base', buildStorage (p.capsTimes (s / sp.normScale)) g fullT prices = .ok base' ∧
      ((buildScaled sp base (activeDuration g)).FeasibleRelaxed x ↔ base'.FeasibleRelaxed x) ∧
      - costAt (buildScaled sp base (activeDuration g)).c 0 x
        = - costAt base'.c 0 x - s * sp.fixCosts * activeDuration g := by
  obtain ⟨h2, h3, _⟩ := storage_fullCap p g hns hh hb
  obtain ⟨hm, hn⟩ := storage_map_lt p g hb
  have hdt : g.dt.length ≠ 0 := by rw [hg.2.1]; exact hT
  have h1 : 0 < base.n := by have := hn hdt; omega
  refine ⟨scaleProblemCaps (s / sp.normScale) base, ?_,
    scaled_is_caps sp base _ x s h1 h2 h3 (dispVars_lt base hm) hnorm hs hlo hhi hxs⟩
  rw [storage_caps _ p hns hh, hb]; rfl

end EAO.C16B

/-! ### non-vacuity and witnesses (evaluated by the kernel) -/
namespace EAO.C16B.Ex
open EAO EAO.Scaled EAO.ScaleBuild EAO.C16 EAO.C16B EAO.Storage

/-- unequal steps: 1 h and 3 h, discounting -/
def g2 : Grid := { pts := [0, 3600], idx := [0, 1], dt := [1, 3], Dt := [1, 4], df := [1, 1/2] }

/-- buys and sells (two variables per step), extra costs, a price series, a maximum take in the first hour and a
    minimum take over 8 h of which 4 h lie in the grid -/
def p : ContractP :=
  { name := "c", nodes := ["n"], price := some "pr", extraCosts := .scalar 1, minCap := .scalar (-2),
    maxCap := .array [3, 2], minTake := [(0, 28800, 4)], maxTake := [(0, 3600, 5)] }
def prices : Prices := [("pr", [10, 20])]

example : g2.Ok ∧ g2.T ≠ 0 ∧ p.minCap.isKey = false ∧ p.maxCap.isKey = false ∧ (0 : Rat) < 1/2 := by decide +kernel

-- instance of `contract_caps`, and both sides are real problems: bounds and take volumes halved, costs unchanged
example : buildContract (p.capsTimes (1/2)) g2 prices 2 3600
    = (buildContract p g2 prices 2 3600).map (scaleProblemCaps (1/2)) :=
  contract_caps (by decide +kernel) p (by decide) (by decide) g2 (by decide +kernel) prices 2 3600
example : (match buildContract p g2 prices 2 3600 with
    | .ok P => P.n == 4 && P.l == [-2, -6, 0, 0] && P.u == [0, 0, 3, 6] && P.rows.map (·.rhs) == [5, 2] &&
               P.c == [9, 19/2, 11, 21/2]
    | .error _ => false) = true := by decide +kernel
example : (match buildContract (p.capsTimes (1/2)) g2 prices 2 3600 with
    | .ok P => P.n == 4 && P.l == [-1, -3, 0, 0] && P.u == [0, 0, 3/2, 3] && P.rows.map (·.rhs) == [5/2, 1] &&
               P.c == [9, 19/2, 11, 21/2]
    | .error _ => false) = true := by decide +kernel

/-- the contract's problem as a term -/
def base : AssetProblem := match buildContract p g2 prices 2 3600 with | .ok P => P | .error _ => default
theorem base_ok : buildContract p g2 prices 2 3600 = .ok base := by
  unfold base
  cases h : buildContract p g2 prices 2 3600 with
  | ok P => rfl
  | error e =>
    have : (buildContract p g2 prices 2 3600).isOk = true := by decide +kernel
    rw [h] at this; cases this

/-- scale 1 of norm 2 (range [0, 2], fixed costs 3 per unit of scale and time) -/
def sp : ScaledP := { name := "s", node0 := "n", minScale := 0, maxScale := 2, normScale := 2, fixCosts := 3 }
def x : Vec := fun j => if j = 2 then 1 else if j = 3 then 1 else if j = 4 then 1 else 0

-- the hypotheses of `scaled_contract` hold, the point is feasible for the scaled problem …
example : x base.n = 1 ∧ (0 : Rat) < sp.normScale ∧ sp.minScale ≤ 1 ∧ (1 : Rat) ≤ sp.maxScale ∧
    (buildScaled sp base (activeDuration g2)).FeasibleRelaxed x ∧
    - costAt (buildScaled sp base (activeDuration g2)).c 0 x = -67/2 := by decide +kernel
-- … and for the contract with capacities times 1/2, whose value is 12 higher (fixed costs 1 · 3 · 4 h)
example : (match buildContract (p.capsTimes (1 / 2)) g2 prices 2 3600 with
    | .ok P => decide (P.FeasibleRelaxed x) && decide (- costAt P.c 0 x = -43/2)
    | .error _ => false) = true := by decide +kernel
example := scaled_contract sp p (by decide) (by decide) g2 (by decide +kernel) (by decide +kernel) prices 2 3600 base
  base_ok x 1 (by decide +kernel) (by decide +kernel) (by decide +kernel) (by decide +kernel) (by decide +kernel)


/-! #### simple contract, multi-commodity contract -/

example : buildSimpleContract (p.capsTimes 3) g2 prices 2 = (buildSimpleContract p g2 prices 2).map (scaleProblemCaps 3) :=
  simpleContract_caps (by decide +kernel) p (by decide) (by decide) g2 (by decide +kernel) prices 2
example : (match buildSimpleContract (p.capsTimes 3) g2 prices 2 with
    | .ok P => P.l == [-6, -18, 0, 0] && P.u == [0, 0, 9, 18] && P.rows.isEmpty
    | .error _ => false) = true := by decide +kernel

/-- two commodities with factors 1 and −1/2 -/
def pm : ContractP := { p with nodes := ["n", "m"] }
example : buildMulti (pm.capsTimes 3) [1, -1/2] g2 prices 2 3600
    = (buildMulti pm [1, -1/2] g2 prices 2 3600).map (scaleProblemCaps 3) :=
  multi_caps (by decide +kernel) pm [1, -1/2] (by decide) (by decide) g2 (by decide +kernel) prices 2 3600
example : (match buildMulti (pm.capsTimes 3) [1, -1/2] g2 prices 2 3600 with
    | .ok P => P.u == [0, 0, 9, 18] && P.rows.map (·.rhs) == [15, 6] && P.mapping.length == 8
    | .error _ => false) = true := by decide +kernel

/-! #### transports -/

/-- flows a → b only, costs on the flow, a maximum take in the first hour and a minimum over both steps -/
def pt : TransportP :=
  { name := "t", nodes := ["a", "b"], costsConst := 1, costsKey := none, minCap := 0, maxCap := 4,
    efficiency := 9/10, minTake := [(0, 7200, 2)], maxTake := [(0, 3600, 3)] }

example : buildExtTransport (pt.capsTimes (1/4)) g2 [] 2 3600
    = (buildExtTransport pt g2 [] 2 3600).map (scaleProblemCaps (1/4)) :=
  extTransport_caps (by decide +kernel) pt g2 (by decide +kernel) [] 2 3600
example : buildTransport (pt.capsTimes (1/4)) g2 [] 2 = (buildTransport pt g2 [] 2).map (scaleProblemCaps (1/4)) :=
  transport_caps (by decide +kernel) pt g2 (by decide +kernel) [] 2
example : (match buildExtTransport pt g2 [] 2 3600 with
    | .ok P => P.u == [4, 12] && P.c == [1, 1/2] && P.rows.map (·.rhs) == [-3, -4]
    | .error _ => false) = true := by decide +kernel
example : (match buildExtTransport (pt.capsTimes (1/4)) g2 [] 2 3600 with
    | .ok P => P.u == [1, 3] && P.c == [1, 1/2] && P.rows.map (·.rhs) == [-3/4, -1]
    | .error _ => false) = true := by decide +kernel

/-! #### storage -/

/-- the storage's window covers steps 2…5 of a horizon of 8 steps of 1/4 day -/
def gs : Grid := { pts := [43200, 64800, 86400, 108000], idx := [2, 3, 4, 5], dt := [1/4, 1/4, 1/4, 1/4],
                   Dt := [3/4, 1, 5/4, 3/2], df := [1, 1, 1, 1/2] }

/-- LP form with everything else switched on: two nodes, efficiency, costs of discharging and of storing, inflow,
    blocks -/
def ps : StorageP :=
  { name := "s", nodes := ["a", "b"], size := 4, capIn := 8, capOut := 6, startLevel := 1, endLevel := 2,
    costIn := 0, costOut := 1/8, costStore := 6, effIn := 1/2, inflow := 1, price := none,
    noSimult := false, maxStoreDuration := none, blocks := some [0, 2] }

example : hasNS ps = false ∧ ps.maxStoreDuration = none ∧ ps.guards = true ∧ gs.Ok ∧ gs.T ≠ 0 := by decide +kernel

example : buildStorage (ps.capsTimes 3) gs 8 [] = (buildStorage ps gs 8 []).map (scaleProblemCaps 3) :=
  storage_caps 3 ps (by decide +kernel) (by decide +kernel) gs 8 []
example : mkStorage (ps.capsTimes 0) gs 8 [] = (mkStorage ps gs 8 []).map (scaleProblemCaps 0) :=
  mkStorage_caps_nonneg (by decide +kernel) ps (by decide +kernel) (by decide +kernel) (by decide +kernel) gs 8 []
example : (match buildStorage ps gs 8 [] with
    | .ok P => P.n == 8 && P.l == [-2, -2, -2, -2, 0, 0, 0, 0] && P.u == [0, 0, 0, 0, 3/2, 3/2, 3/2, 3/2] &&
               P.rows.map (·.rhs) == [11/4, 1/2, 7/4, -1/2, -5/4, 1/2, -9/4, -1/2] && P.c.take 2 == [-21/8, -15/8]
    | .error _ => false) = true := by decide +kernel
example : (match buildStorage (ps.capsTimes 3) gs 8 [] with
    | .ok P => P.n == 8 && P.l == [-6, -6, -6, -6, 0, 0, 0, 0] && P.u == [0, 0, 0, 0, 9/2, 9/2, 9/2, 9/2] &&
               P.rows.map (·.rhs) == [33/4, 3/2, 21/4, -3/2, -15/4, 3/2, -27/4, -3/2] && P.c.take 2 == [-21/8, -15/8]
    | .error _ => false) = true := by decide +kernel

/-! #### `k = 0`: the equation fails for contracts and transports -/

/-- number of variables, cost vector and bounds of a result (`none`: an error) -/
def shape (r : Except BuildError AssetProblem) : Option (Nat × List Rat × List Rat × List Rat) :=
  match r with
  | .ok P => some (P.n, P.c, P.l, P.u)
  | .error _ => none

-- (a) a contract that buys and sells with extra costs has two variables per step; with all capacities 0 the builder
--     returns ONE variable per step
example : shape (buildSimpleContract (p.capsTimes 0) g2 prices 2) = some (2, [10, 10], [0, 0], [0, 0]) ∧
    shape ((buildSimpleContract p g2 prices 2).map (scaleProblemCaps 0))
      = some (4, [9, 19/2, 11, 21/2], [0, 0, 0, 0], [0, 0, 0, 0]) := by decide +kernel

/-- (b) a contract that only buys: one variable per step, price less extra costs -/
def pBuy : ContractP := { p with minCap := .scalar (-2), maxCap := .scalar 0, minTake := [], maxTake := [] }
-- with capacities 0 both sign tests succeed, the extra costs are subtracted AND added: a different cost vector
example : shape (buildSimpleContract (pBuy.capsTimes 0) g2 prices 2) = some (2, [10, 10], [0, 0], [0, 0]) ∧
    shape ((buildSimpleContract pBuy g2 prices 2).map (scaleProblemCaps 0)) = some (2, [9, 19/2], [0, 0], [0, 0]) := by
  decide +kernel

/-- (c) `min_cap > max_cap` is refused by the constructor — but not after multiplication by 0 -/
def pBad : ContractP := { pBuy with minCap := .scalar 3, maxCap := .scalar 2 }
example : shape (buildSimpleContract pBad g2 prices 2) = none ∧
    shape (buildSimpleContract (pBad.capsTimes 0) g2 prices 2) = some (2, [10, 10], [0, 0], [0, 0]) := by
  decide +kernel

-- (d) transport: with capacities 0 "all capacities ≤ 0" holds and the costs change sign
example : shape (buildTransport (pt.capsTimes 0) g2 [] 2) = some (2, [-1, -1/2], [0, 0], [0, 0]) ∧
    shape ((buildTransport pt g2 [] 2).map (scaleProblemCaps 0)) = some (2, [1, 1/2], [0, 0], [0, 0]) := by
  decide +kernel

-- what is true at `k = 0` (instances of `caps_zero_builder_side_simpleContract`, `caps_zero_scaled_side`): the zero
-- point is feasible for both, of value 0
example : (match buildSimpleContract (p.capsTimes 0) g2 prices 2 with
    | .ok P => decide (P.FeasibleRelaxed (fun _ => 0)) && decide (- costAt P.c 0 (fun _ => 0) = 0)
    | .error _ => false) = true := by decide +kernel

/-! #### the hypotheses are needed -/

/-- a capacity given as a key into the price data is not touched by `capsTimes` … -/
def pKey : ContractP := { pBuy with minCap := .key "cap", maxCap := .scalar 0 }
def pricesKey : Prices := [("pr", [10, 20]), ("cap", [-2, -1])]
example : pKey.minCap.isKey = true ∧
    shape (buildSimpleContract (pKey.capsTimes 3) g2 pricesKey 2) = some (2, [9, 19/2], [-2, -3], [0, 0]) ∧
    shape ((buildSimpleContract pKey g2 pricesKey 2).map (scaleProblemCaps 3)) = some (2, [9, 19/2], [-6, -9], [0, 0]) := by
  decide +kernel

/-- … the series has to be multiplied in the price data (instance of `simpleContract_caps_keys`) -/
def pricesKey3 : Prices := [("pr", [10, 20]), ("cap", [-6, -3])]
theorem capsPrices_ex : CapsPrices 3 pKey pricesKey pricesKey3 := by
  constructor
  · rintro key (h | h)
    · have h' : ParamValue.key "cap" = ParamValue.key key := h
      injection h' with h'
      subst h'
      decide +kernel
    · have h' : ParamValue.scalar 0 = ParamValue.key key := h
      cases h'
  · rintro key (h | h)
    · have h' : some "pr" = some key := h
      injection h' with h'
      subst h'
      decide +kernel
    · have h' : ParamValue.scalar 1 = ParamValue.key key := h
      cases h'
example : buildSimpleContract (pKey.capsTimes 3) g2 pricesKey3 2
    = (buildSimpleContract pKey g2 pricesKey 2).map (scaleProblemCaps 3) :=
  simpleContract_caps_keys (by decide +kernel) pKey g2 (by decide +kernel) pricesKey pricesKey3 capsPrices_ex 2
example : shape (buildSimpleContract (pKey.capsTimes 3) g2 pricesKey3 2) = some (2, [9, 19/2], [-6, -9], [0, 0]) := by
  decide +kernel

/-- a malformed grid (`I` shorter than the point list; no constructor of the model or the code makes one): bounds
    without a variable are scaled by the builder but are not capacity variables of the finished problem -/
def gBad : Grid := { pts := [0, 3600], idx := [0], dt := [1, 3], Dt := [1, 4], df := [1, 1/2] }
example : ¬ gBad.Ok ∧
    shape (buildSimpleContract (pBuy.capsTimes 3) gBad prices 2) = some (1, [9], [-6, -18], [0, 0]) ∧
    shape ((buildSimpleContract pBuy gBad prices 2).map (scaleProblemCaps 3)) = some (1, [9], [-6, -6], [0, 0]) := by
  decide +kernel

/-- storage with `no_simult_in_out`: the capacities are COEFFICIENTS of the exclusivity rows (the builder multiplies them,
    the rescaled finished problem — and the scaled asset, known finding F-16c — does not) -/
def psNS : StorageP := { ps with noSimult := true, blocks := none }
def coeffsOf (r : Except BuildError AssetProblem) : List (List (Nat × Rat)) :=
  match r with
  | .ok P => P.rows.map (·.coeffs)
  | .error _ => []
example : hasNS psNS = true ∧
    ((coeffsOf (buildStorage (psNS.capsTimes 3) gs 8 [])).getD 8 [] = [(0, 1), (8, -6)]) ∧
    ((coeffsOf ((buildStorage psNS gs 8 []).map (scaleProblemCaps 3))).getD 8 [] = [(0, 1), (8, -2)]) := by
  decide +kernel

/-- storage with `max_store_duration`: the level limit is a coefficient of the indicator in the "full" rows -/
def psHold : StorageP := { ps with maxStoreDuration := some (1/2), blocks := none }
example : ((coeffsOf (buildStorage (psHold.capsTimes 3) gs 8 [])).getD 0 [] = [(0, -1/2), (4, -1), (8, -12)]) ∧
    ((coeffsOf ((buildStorage psHold gs 8 []).map (scaleProblemCaps 3))).getD 0 [] = [(0, -1/2), (4, -1), (8, -4)]) := by
  decide +kernel

end EAO.C16B.Ex
