import EAO.Lemmas.ScaleBuild
import EAO.Properties.C16
/-!
# C16 per builder — "all capacities times `k`" commutes with the LP builders

`EAO.C16.scaled_fixed` identifies a scaled asset at a fixed scale `s` with the finished base problem whose right-hand
sides and capacity bounds are multiplied by `s/norm` (`RescaledBaseFeasible`).  Here that finished problem is shown to
be what the BUILDER returns for the asset whose capacity PARAMETERS are multiplied by `s/norm`:

* `scaleProblemCaps k a` (`EAO/Lemmas/ScaleBuild.lean`) is the problem "`a` with all capacities times `k`"; its relaxed
  feasible set is `RescaledBaseFeasible a k`, its costs and mapping are those of `a` (`caps_problem_is_rescaled_base`);
* for every LP builder of `EAO/Model/Contract.lean` and `EAO/Model/Storage.lean` and `k > 0`
  `build (capsTimes k p) = (build p).map (scaleProblemCaps k)` — equal as results: the same error, or problems equal in
  every field (`simpleContract_caps`, `contract_caps`, `multi_caps`, `transport_caps`, `extTransport_caps`); for the
  storage in LP form the equation holds for EVERY `k` (`storage_caps`), with the constructor guards for `k > 0`
  (`mkStorage_caps`) and for `k ≥ 0` when the original passes them (`mkStorage_caps_nonneg`);
* the cost vector is untouched in every case: capacities do not enter the costs; the storage's `cost_store` enters the
  cost vector of the dispatch variables only — the code's objective has NO constant (the cost of keeping the start level
  and the inflow, which would scale with `k`, is not part of `c` in either problem);
* `k = 0` is different for contracts and transports: the decision between one and two variables per step, the sign of
  the costs and the constructor checks look at the SIGNS of the capacities, and at `k = 0` every sign test succeeds.  The
  equation is false there (`caps_zero_*` witnesses); what is true: both problems force every variable to zero and have
  value zero (`caps_zero_scaled_side`, `caps_zero_builder_side_*`);
* joined with `scaled_fixed`: a ScaledAsset at fixed scale `s > 0` over builder X is builder X with capacities times
  `s/norm`, less `s · fix_costs · duration` (`scaled_simpleContract`, `scaled_contract`, `scaled_multi`,
  `scaled_transport`, `scaled_extTransport`, and `scaled_storage` for `s ≥ 0`).

Capacities given as a KEY into the price data are excluded for contracts (`ParamValue.scale` leaves a key alone: the
price data would have to be rescaled for exactly those keys), as in `EAO.C12.unit_change`.
-/
namespace EAO.C16B
open EAO EAO.Scaled EAO.ScaleBuild EAO.C16 EAO.Storage

/-! ## the scaled finished problem -/

/-- **`scaleProblemCaps` is the rescaled base of `scaled_fixed`.**  For a problem with one pair of bounds per
    variable: a point satisfies bounds and rows of `scaleProblemCaps k a` iff it is `RescaledBaseFeasible a k`; costs,
    mapping, number of variables, name and nodes are those of `a`, the rows are the rows of `a` with the right-hand
    side times `k` (same coefficients, same kinds). -/
theorem caps_problem_is_rescaled_base (k : Rat) (a : AssetProblem) (hl : a.l.length = a.n) (hu : a.u.length = a.n)
    (x : Vec) :
    ((scaleProblemCaps k a).FeasibleRelaxed x ↔ RescaledBaseFeasible a k x) ∧
    (scaleProblemCaps k a).c = a.c ∧ (scaleProblemCaps k a).mapping = a.mapping ∧
    (scaleProblemCaps k a).n = a.n ∧ (scaleProblemCaps k a).name = a.name ∧ (scaleProblemCaps k a).nodes = a.nodes ∧
    (scaleProblemCaps k a).rows = a.rows.map (scaleRhs k) := by
  refine ⟨?_, rfl, rfl, rfl, rfl, rfl, rfl⟩
  have key : ∀ j, j < a.n →
      (((scaleProblemCaps k a).l.getD j 0 ≤ x j ∧ x j ≤ (scaleProblemCaps k a).u.getD j 0) ↔
       (if (dispVars a.mapping).contains j then a.l.getD j 0 * k ≤ x j ∧ x j ≤ a.u.getD j 0 * k
        else a.l.getD j 0 ≤ x j ∧ x j ≤ a.u.getD j 0)) := by
    intro j hj
    rw [scaleCaps_l, scaleCaps_u, mapAt_getD _ _ _ _ (by omega), mapAt_getD _ _ _ _ (by omega)]
    by_cases hc : (dispVars a.mapping).contains j = true
    · simp only [hc, if_true]
    · simp only [hc, Bool.false_eq_true, if_false]
  unfold AssetProblem.FeasibleRelaxed RescaledBaseFeasible InBounds
  simp only [scaleCaps_l_length, scaleCaps_rows, List.forall_mem_map, hl]
  exact ⟨fun ⟨hb, hr⟩ => ⟨fun j hj => (key j hj).mp (hb j hj), hr⟩,
         fun ⟨hb, hr⟩ => ⟨fun j hj => (key j hj).mpr (hb j hj), hr⟩⟩

/-- **C16 (scaled asset at a fixed scale, as a problem).**  `scaled_fixed` with the rescaled base written as the
    problem `scaleProblemCaps (s/norm) base`: same feasible points, value less `s · fix_costs · Σdt`. -/
theorem scaled_is_caps (sp : ScaledP) (base : AssetProblem) (dtSum : Rat) (x : Vec) (s : Rat)
    (hne : 0 < base.n) (hl : base.l.length = base.n) (hu : base.u.length = base.n)
    (hdisp : ∀ d ∈ dispVars base.mapping, d < base.n)
    (hnorm : 0 < sp.normScale) (h0 : 0 ≤ s) (hmin : sp.minScale ≤ s) (hmax : s ≤ sp.maxScale)
    (hxs : x base.n = s) :
    ((buildScaled sp base dtSum).FeasibleRelaxed x ↔
      (scaleProblemCaps (s / sp.normScale) base).FeasibleRelaxed x) ∧
    - costAt (buildScaled sp base dtSum).c 0 x
      = - costAt (scaleProblemCaps (s / sp.normScale) base).c 0 x - s * sp.fixCosts * dtSum := by
  obtain ⟨hf, hv⟩ := scaled_fixed sp base dtSum x s hne hl hu hdisp hnorm h0 hmin hmax hxs
  exact ⟨hf.trans (caps_problem_is_rescaled_base _ base hl hu x).1.symm, hv⟩

/-! ## the builders, `k > 0` -/

/-- **SimpleContract.**  `min_cap`, `max_cap` (scalar, array or interval data) times `k > 0`: the builder returns the
    same error, or the problem with all capacities times `k` — same costs (the choice between one and two variables per step and the sign of
    the extra costs are decided by the signs of the capacities), same mapping, bounds times `k`. -/
theorem simpleContract_caps {k : Rat} (hk : 0 < k) (p : ContractP) (hmin : p.minCap.isKey = false)
    (hmax : p.maxCap.isKey = false) (g : Grid) (hg : g.Ok) (prices : Prices) (fullT : Nat) :
    buildSimpleContract (p.capsTimes k) g prices fullT
      = (buildSimpleContract p g prices fullT).map (scaleProblemCaps k) := by
  rw [simple_caps' hk p hmin hmax]
  exact map_scaleAll_eq k _ (fun P h => ⟨(simpleContract_wf hg h).l_len, (simpleContract_wf hg h).u_len,
    simple_fullCap hg h⟩)

/-- **Contract.**  Capacities and the volumes of `min_take`, `max_take` times `k > 0`: the take rows keep their
    coefficients, their right-hand sides are multiplied by `k`. -/
theorem contract_caps {k : Rat} (hk : 0 < k) (p : ContractP) (hmin : p.minCap.isKey = false)
    (hmax : p.maxCap.isKey = false) (g : Grid) (hg : g.Ok) (prices : Prices) (fullT u : Nat) :
    buildContract (p.capsTimes k) g prices fullT u
      = (buildContract p g prices fullT u).map (scaleProblemCaps k) := by
  rw [contract_caps' hk p hmin hmax]
  exact map_scaleAll_eq k _ (fun P h => ⟨(contract_wf' hg h).l_len, (contract_wf' hg h).u_len,
    contract_fullCap hg h⟩)

/-- **MultiCommodityContract** (the factors per node are not capacities). -/
theorem multi_caps {k : Rat} (hk : 0 < k) (p : ContractP) (factors : List Rat) (hmin : p.minCap.isKey = false)
    (hmax : p.maxCap.isKey = false) (g : Grid) (hg : g.Ok) (prices : Prices) (fullT u : Nat) :
    buildMulti (p.capsTimes k) factors g prices fullT u
      = (buildMulti p factors g prices fullT u).map (scaleProblemCaps k) := by
  rw [multi_caps' hk p factors hmin hmax]
  exact map_scaleAll_eq k _ (fun P h => ⟨(multi_wf' hg h).l_len, (multi_wf' hg h).u_len, multi_fullCap hg h⟩)

/-- **Transport.**  `min_cap`, `max_cap` times `k > 0` (efficiency and costs untouched). -/
theorem transport_caps {k : Rat} (hk : 0 < k) (p : TransportP) (g : Grid) (hg : g.Ok) (prices : Prices)
    (fullT : Nat) :
    buildTransport (p.capsTimes k) g prices fullT = (buildTransport p g prices fullT).map (scaleProblemCaps k) := by
  rw [transport_caps' hk p]
  exact map_scaleAll_eq k _ (fun P h => ⟨(transport_wf' hg h).l_len, (transport_wf' hg h).u_len,
    transport_fullCap hg h⟩)

/-- **ExtendedTransport.**  Capacities and take volumes times `k > 0`. -/
theorem extTransport_caps {k : Rat} (hk : 0 < k) (p : TransportP) (g : Grid) (hg : g.Ok) (prices : Prices)
    (fullT u : Nat) :
    buildExtTransport (p.capsTimes k) g prices fullT u
      = (buildExtTransport p g prices fullT u).map (scaleProblemCaps k) := by
  rw [extTransport_caps' hk p]
  exact map_scaleAll_eq k _ (fun P h => ⟨(extTransport_wf' hg h).l_len, (extTransport_wf' hg h).u_len,
    extTransport_fullCap hg h⟩)

/-- **Storage in LP form** (no booleans: `no_simult_in_out` not effective, no `max_store_duration`; blocks, two nodes,
    efficiency, costs incl. `cost_store`, inflow all allowed).  `size`, `start_level`, `end_level`, `inflow`, `cap_in`,
    `cap_out` times ANY `k`: the same error, or the problem with the bounds of the dispatch variables and every
    right-hand side of the level rows times `k`; the cost vector (incl. the `cost_store` tail sums) is unchanged.
    No hypothesis on the grid. -/
theorem storage_caps (k : Rat) (p : StorageP) (hns : hasNS p = false) (hh : p.maxStoreDuration = none) (g : Grid)
    (fullT : Nat) (prices : Prices) :
    buildStorage (p.capsTimes k) g fullT prices = (buildStorage p g fullT prices).map (scaleProblemCaps k) := by
  rw [storage_caps' k p g hns hh]
  exact map_scaleAll_eq k _ (fun P h => storage_fullCap p g hns hh h)

/-- with the constructor guards (`start_level ≤ size`, `cap_in, cap_out ≥ 0`): for `k > 0` they do not change … -/
theorem mkStorage_caps {k : Rat} (hk : 0 < k) (p : StorageP) (hns : hasNS p = false)
    (hh : p.maxStoreDuration = none) (g : Grid) (fullT : Nat) (prices : Prices) :
    mkStorage (p.capsTimes k) g fullT prices = (mkStorage p g fullT prices).map (scaleProblemCaps k) := by
  unfold mkStorage
  rw [guards_caps k p hk, storage_caps k p hns hh]
  split <;> rfl

/-- … and for `k ≥ 0` (so also `k = 0`) a storage that passes the guards still passes them -/
theorem mkStorage_caps_nonneg {k : Rat} (hk : 0 ≤ k) (p : StorageP) (hgd : p.guards = true) (hns : hasNS p = false)
    (hh : p.maxStoreDuration = none) (g : Grid) (fullT : Nat) (prices : Prices) :
    mkStorage (p.capsTimes k) g fullT prices = (mkStorage p g fullT prices).map (scaleProblemCaps k) := by
  unfold mkStorage
  rw [guards_caps_of_nonneg k p hk hgd, hgd, storage_caps k p hns hh]
  rfl

/-! ## `k = 0` -/

/-- scaled side at `k = 0`: a problem all of whose variables are capacity variables, with all capacities times 0, has
    only points that vanish on its variables, and their value is 0 -/
theorem caps_zero_scaled_side (a : AssetProblem) (hf : FullCap a) (x : Vec)
    (hx : RescaledBaseFeasible a 0 x) : (∀ j, j < a.n → x j = 0) ∧ - costAt a.c 0 x = 0 := by
  have hz : ∀ j, j < a.n → x j = 0 := by
    intro j hj
    have := hx.1 j hj
    rw [if_pos (by simpa using hf j hj)] at this
    grind
  refine ⟨hz, ?_⟩
  rw [costAt_zero a.c 0 x (fun j hj => by rw [Nat.zero_add]; exact hz j hj)]
  rfl

/-- builder side at `k = 0`, generic: all bounds zero -/
theorem caps_zero_of_zeroBox {P : AssetProblem} (hz : ZeroBox P) (hl : P.l.length = P.n) (x : Vec)
    (hx : P.FeasibleRelaxed x) : (∀ j, j < P.n → x j = 0) ∧ - costAt P.c 0 x = 0 := by
  have h0 : ∀ j, j < P.n → x j = 0 := fun j hj => zeroBox_point hz hx.1 j (by omega)
  refine ⟨h0, ?_⟩
  rw [costAt_zero P.c 0 x (fun j hj => by rw [Nat.zero_add]; exact h0 j hj)]
  rfl

/-- a simple contract / contract / multi-commodity contract with all capacities times 0: whatever the builder returns
    (it is the one-variable form, whatever the original was) has only the zero point, of value 0 -/
theorem caps_zero_builder_side_simpleContract (p : ContractP) (hmin : p.minCap.isKey = false)
    (hmax : p.maxCap.isKey = false) (g : Grid) (hg : g.Ok) (prices : Prices) (fullT : Nat) (P : AssetProblem)
    (h : buildSimpleContract (p.capsTimes 0) g prices fullT = .ok P) (x : Vec) (hx : P.FeasibleRelaxed x) :
    (∀ j, j < P.n → x j = 0) ∧ - costAt P.c 0 x = 0 :=
  caps_zero_of_zeroBox (simple_zeroBox hmin hmax h) (simpleContract_wf hg h).l_len x hx

theorem caps_zero_builder_side_contract (p : ContractP) (hmin : p.minCap.isKey = false)
    (hmax : p.maxCap.isKey = false) (g : Grid) (hg : g.Ok) (prices : Prices) (fullT u : Nat) (P : AssetProblem)
    (h : buildContract (p.capsTimes 0) g prices fullT u = .ok P) (x : Vec) (hx : P.FeasibleRelaxed x) :
    (∀ j, j < P.n → x j = 0) ∧ - costAt P.c 0 x = 0 :=
  caps_zero_of_zeroBox (contract_zeroBox hmin hmax h) (contract_wf' hg h).l_len x hx

theorem caps_zero_builder_side_multi (p : ContractP) (factors : List Rat) (hmin : p.minCap.isKey = false)
    (hmax : p.maxCap.isKey = false) (g : Grid) (hg : g.Ok) (prices : Prices) (fullT u : Nat) (P : AssetProblem)
    (h : buildMulti (p.capsTimes 0) factors g prices fullT u = .ok P) (x : Vec) (hx : P.FeasibleRelaxed x) :
    (∀ j, j < P.n → x j = 0) ∧ - costAt P.c 0 x = 0 :=
  caps_zero_of_zeroBox (multi_zeroBox hmin hmax h) (multi_wf' hg h).l_len x hx

theorem caps_zero_builder_side_transport (p : TransportP) (g : Grid) (hg : g.Ok) (prices : Prices) (fullT : Nat)
    (P : AssetProblem) (h : buildTransport (p.capsTimes 0) g prices fullT = .ok P) (x : Vec)
    (hx : P.FeasibleRelaxed x) : (∀ j, j < P.n → x j = 0) ∧ - costAt P.c 0 x = 0 :=
  caps_zero_of_zeroBox (transport_zeroBox h) (transport_wf' hg h).l_len x hx

theorem caps_zero_builder_side_extTransport (p : TransportP) (g : Grid) (hg : g.Ok) (prices : Prices)
    (fullT u : Nat) (P : AssetProblem) (h : buildExtTransport (p.capsTimes 0) g prices fullT u = .ok P) (x : Vec)
    (hx : P.FeasibleRelaxed x) : (∀ j, j < P.n → x j = 0) ∧ - costAt P.c 0 x = 0 :=
  caps_zero_of_zeroBox (extTransport_zeroBox h) (extTransport_wf' hg h).l_len x hx

/-! ## joined with `scaled_fixed`: a scaled asset over builder X at fixed scale -/

/-- **ScaledAsset over a SimpleContract at scale `s > 0`.**  Let `base` be what the contract's builder returns on a
    grid with steps.  Then the builder succeeds for the contract with capacities times `s/norm`, and a point `(x, s)`
    is feasible for the scaled problem iff `x` is feasible for THAT contract's problem; the value is that contract's
    value less `s · fix_costs · Σdt`. -/
theorem scaled_simpleContract (sp : ScaledP) (p : ContractP) (hmin : p.minCap.isKey = false)
    (hmax : p.maxCap.isKey = false) (g : Grid) (hg : g.Ok) (hT : g.T ≠ 0) (prices : Prices) (fullT : Nat)
    (base : AssetProblem) (hb : buildSimpleContract p g prices fullT = .ok base) (x : Vec) (s : Rat)
    (hnorm : 0 < sp.normScale) (hs : 0 < s) (hlo : sp.minScale ≤ s) (hhi : s ≤ sp.maxScale) (hxs : x base.n = s) :
    ∃ base', buildSimpleContract (p.capsTimes (s / sp.normScale)) g prices fullT = .ok base' ∧
      ((buildScaled sp base (activeDuration g)).FeasibleRelaxed x ↔ base'.FeasibleRelaxed x) ∧
      - costAt (buildScaled sp base (activeDuration g)).c 0 x
        = - costAt base'.c 0 x - s * sp.fixCosts * activeDuration g := by
  obtain ⟨h1, h2, h3, h4⟩ := builtWf_hyps (simpleContract_wf hg hb) hT
  refine ⟨scaleProblemCaps (s / sp.normScale) base, ?_,
    scaled_is_caps sp base _ x s h1 h2 h3 h4 hnorm (Rat.le_of_lt hs) hlo hhi hxs⟩
  rw [simpleContract_caps (div_pos' hs hnorm) p hmin hmax g hg, hb]; rfl

/-- **ScaledAsset over a Contract** (take periods) at scale `s > 0`: capacities AND take volumes times `s/norm`. -/
theorem scaled_contract (sp : ScaledP) (p : ContractP) (hmin : p.minCap.isKey = false)
    (hmax : p.maxCap.isKey = false) (g : Grid) (hg : g.Ok) (hT : g.T ≠ 0) (prices : Prices) (fullT u : Nat)
    (base : AssetProblem) (hb : buildContract p g prices fullT u = .ok base) (x : Vec) (s : Rat)
    (hnorm : 0 < sp.normScale) (hs : 0 < s) (hlo : sp.minScale ≤ s) (hhi : s ≤ sp.maxScale) (hxs : x base.n = s) :
    ∃ base', buildContract (p.capsTimes (s / sp.normScale)) g prices fullT u = .ok base' ∧
      ((buildScaled sp base (activeDuration g)).FeasibleRelaxed x ↔ base'.FeasibleRelaxed x) ∧
      - costAt (buildScaled sp base (activeDuration g)).c 0 x
        = - costAt base'.c 0 x - s * sp.fixCosts * activeDuration g := by
  obtain ⟨h1, h2, h3, h4⟩ := builtWf_hyps (contract_wf' hg hb) hT
  refine ⟨scaleProblemCaps (s / sp.normScale) base, ?_,
    scaled_is_caps sp base _ x s h1 h2 h3 h4 hnorm (Rat.le_of_lt hs) hlo hhi hxs⟩
  rw [contract_caps (div_pos' hs hnorm) p hmin hmax g hg, hb]; rfl

/-- **ScaledAsset over a MultiCommodityContract** at scale `s > 0`. -/
theorem scaled_multi (sp : ScaledP) (p : ContractP) (factors : List Rat) (hmin : p.minCap.isKey = false)
    (hmax : p.maxCap.isKey = false) (g : Grid) (hg : g.Ok) (hT : g.T ≠ 0) (prices : Prices) (fullT u : Nat)
    (base : AssetProblem) (hb : buildMulti p factors g prices fullT u = .ok base) (x : Vec) (s : Rat)
    (hnorm : 0 < sp.normScale) (hs : 0 < s) (hlo : sp.minScale ≤ s) (hhi : s ≤ sp.maxScale) (hxs : x base.n = s) :
    ∃ base', buildMulti (p.capsTimes (s / sp.normScale)) factors g prices fullT u = .ok base' ∧
      ((buildScaled sp base (activeDuration g)).FeasibleRelaxed x ↔ base'.FeasibleRelaxed x) ∧
      - costAt (buildScaled sp base (activeDuration g)).c 0 x
        = - costAt base'.c 0 x - s * sp.fixCosts * activeDuration g := by
  obtain ⟨h1, h2, h3, h4⟩ := builtWf_hyps (multi_wf' hg hb) hT
  refine ⟨scaleProblemCaps (s / sp.normScale) base, ?_,
    scaled_is_caps sp base _ x s h1 h2 h3 h4 hnorm (Rat.le_of_lt hs) hlo hhi hxs⟩
  rw [multi_caps (div_pos' hs hnorm) p factors hmin hmax g hg, hb]; rfl

/-- **ScaledAsset over a Transport** at scale `s > 0`. -/
theorem scaled_transport (sp : ScaledP) (p : TransportP) (g : Grid) (hg : g.Ok) (hT : g.T ≠ 0) (prices : Prices)
    (fullT : Nat) (base : AssetProblem) (hb : buildTransport p g prices fullT = .ok base) (x : Vec) (s : Rat)
    (hnorm : 0 < sp.normScale) (hs : 0 < s) (hlo : sp.minScale ≤ s) (hhi : s ≤ sp.maxScale) (hxs : x base.n = s) :
    ∃ base', buildTransport (p.capsTimes (s / sp.normScale)) g prices fullT = .ok base' ∧
      ((buildScaled sp base (activeDuration g)).FeasibleRelaxed x ↔ base'.FeasibleRelaxed x) ∧
      - costAt (buildScaled sp base (activeDuration g)).c 0 x
        = - costAt base'.c 0 x - s * sp.fixCosts * activeDuration g := by
  obtain ⟨h1, h2, h3, h4⟩ := builtWf_hyps (transport_wf' hg hb) hT
  refine ⟨scaleProblemCaps (s / sp.normScale) base, ?_,
    scaled_is_caps sp base _ x s h1 h2 h3 h4 hnorm (Rat.le_of_lt hs) hlo hhi hxs⟩
  rw [transport_caps (div_pos' hs hnorm) p g hg, hb]; rfl

/-- **ScaledAsset over an ExtendedTransport** at scale `s > 0`. -/
theorem scaled_extTransport (sp : ScaledP) (p : TransportP) (g : Grid) (hg : g.Ok) (hT : g.T ≠ 0)
    (prices : Prices) (fullT u : Nat) (base : AssetProblem)
    (hb : buildExtTransport p g prices fullT u = .ok base) (x : Vec) (s : Rat)
    (hnorm : 0 < sp.normScale) (hs : 0 < s) (hlo : sp.minScale ≤ s) (hhi : s ≤ sp.maxScale) (hxs : x base.n = s) :
    ∃ base', buildExtTransport (p.capsTimes (s / sp.normScale)) g prices fullT u = .ok base' ∧
      ((buildScaled sp base (activeDuration g)).FeasibleRelaxed x ↔ base'.FeasibleRelaxed x) ∧
      - costAt (buildScaled sp base (activeDuration g)).c 0 x
        = - costAt base'.c 0 x - s * sp.fixCosts * activeDuration g := by
  obtain ⟨h1, h2, h3, h4⟩ := builtWf_hyps (extTransport_wf' hg hb) hT
  refine ⟨scaleProblemCaps (s / sp.normScale) base, ?_,
    scaled_is_caps sp base _ x s h1 h2 h3 h4 hnorm (Rat.le_of_lt hs) hlo hhi hxs⟩
  rw [extTransport_caps (div_pos' hs hnorm) p g hg, hb]; rfl

/-- **ScaledAsset over a Storage in LP form** at scale `s ≥ 0` (scale 0 included): the storage with size, levels,
    inflow, `cap_in`, `cap_out` times `s/norm`, less `s · fix_costs · Σdt`. -/
theorem scaled_storage (sp : ScaledP) (p : StorageP) (hns : hasNS p = false) (hh : p.maxStoreDuration = none)
    (g : Grid) (hg : g.Ok) (hT : g.T ≠ 0) (prices : Prices) (fullT : Nat) (base : AssetProblem)
    (hb : buildStorage p g fullT prices = .ok base) (x : Vec) (s : Rat)
    (hnorm : 0 < sp.normScale) (hs : 0 ≤ s) (hlo : sp.minScale ≤ s) (hhi : s ≤ sp.maxScale) (hxs : x base.n = s) :
    ∃ base', buildStorage (p.capsTimes (s / sp.normScale)) g fullT prices = .ok base' ∧
      ((buildScaled sp base (activeDuration g)).FeasibleRelaxed x ↔ base'.FeasibleRelaxed x) ∧
      - costAt (buildScaled sp base (activeDuration g)).c 0 x
        = - costAt base'.c 0 x - s * sp.fixCosts * activeDuration g := by
  obtain ⟨h2, h3, _⟩ := storage_fullCap p g hns hh hb
  obtain ⟨hm, hn⟩ := storage_map_lt p g hb
  have hdt : g.dt.length ≠ 0 := by rw [hg.2.1]; exact hT
  have h1 : 0 < base.n := by have := hn hdt; omega
  refine ⟨scaleProblemCaps (s / sp.normScale) base, ?_,
    scaled_is_caps sp base _ x s h1 h2 h3 (dispVars_lt base hm) hnorm hs hlo hhi hxs⟩
  rw [storage_caps _ p hns hh, hb]; rfl

end EAO.C16B
