import EAO.Driver.Codec
import EAO.Driver.Contract
import EAO.Driver.Split
import EAO.Driver.SplitBuild
import EAO.Driver.Storage
import EAO.Model.SplitStorage
/-!
# EAO.Driver.SplitStorage — line-protocol handler for the split set-up of portfolios with storages (not part of the model)

op (rationals "p/q", instants integer seconds):

* `split_storage`  `{grid: ref, cuts: [instant], prices: {key: [r]}, unitSec, skip: [s],
                     assets: [ {kind: "storage", params: as for op `storage` of `EAO.Driver.Storage`, start, stop: instant,
                                df: [r] (the asset's discount factors on the full grid)}
                             | {kind: "simple_contract" | "contract" | "multi" | "transport" | "ext_transport", …
                                as for op `split_build` of `EAO.Driver.SplitBuild`} ]}` →
  `{hyps: bool (`splitHypsS`), level: bool (`levelHypsS`),
    unsplit: {problem} | {error} (`setupPortfolioS`), split: {intervals: [problem]} | {error} (`setupSplitS`),
    restart: {problem} | {error} (`setupRestart`), steps: [[i]] (original steps per pair of cuts),
    and when all three set-ups succeed:
    perm: [i] (`splitPerm U Is`, `U` the unsplit problem), witness_restart: bool (`splitWitness R ps perm`, `R` the
    restart problem), reason: str (`splitReason R ps perm`, empty when the witness is true),
    restart_same_vars: bool (`R` and `U` have the same costs, bounds and mapping)}`.
-/
open Lean EAO
namespace EAO.Driver

def getSpecS (j : Json) : Except String SpecS := do
  let kind ← field j "kind" Json.getStr?
  if kind == "storage" then
    pure (SpecS.storage (← field j "params" getStorageP) (← field j "start" getInt) (← field j "stop" getInt)
      (← field j "df" getRats))
  else
    pure (SpecS.builder (← getAssetSpec j))

def handleSplitStorage (op : String) (j : Json) : Option (Except String Json) :=
  let known := ["split_storage"]
  if !known.contains op then none else some <| do
  match op with
  | "split_storage" => do
    let ref ← field j "grid" getGrid
    let cuts ← field j "cuts" getInts
    let prices ← field j "prices" getPrices
    let unitSec ← field j "unitSec" Json.getNat?
    let skip := (← fieldOpt j "skip" getStrs).getD []
    let specs ← field j "assets" (getList getSpecS)
    let U := setupPortfolioS specs ref prices unitSec skip
    let S := setupSplitS specs ref cuts prices unitSec skip
    let R := setupRestart specs ref cuts prices unitSec skip
    let Is := (splitPairs cuts).map (intervalSteps ref)
    let base := [("hyps", Json.bool (splitHypsS specs ref cuts prices)), ("level", Json.bool (levelHypsS specs)),
                 ("unsplit", jBuildProblem U),
                 ("split", match S with
                   | .ok ps => Json.mkObj [("intervals", jList jProblem ps)]
                   | .error e => Json.mkObj [("error", Json.str e.toString)]),
                 ("restart", jBuildProblem R),
                 ("steps", jList (jList jNat) Is)]
    match U, S, R with
    | .ok u, .ok ps, .ok r =>
      let perm := splitPerm u Is
      let w := splitWitness r ps perm
      let reason := if w then "" else
        let s := splitReason r ps perm
        if s.isEmpty then "witness false but no mismatch found by the diagnosis (report this)" else s
      let same := decide (r.c = u.c) && decide (r.l = u.l) && decide (r.u = u.u) && decide (r.mapping = u.mapping)
      pure (Json.mkObj (base ++ [("perm", jList jNat perm), ("witness_restart", Json.bool w), ("reason", Json.str reason),
                                 ("restart_same_vars", Json.bool same)]))
    | _, _, _ => pure (Json.mkObj base)
  | _ => throw s!"unknown op {op}"

end EAO.Driver
