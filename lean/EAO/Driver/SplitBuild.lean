import EAO.Driver.Codec
import EAO.Driver.Contract
import EAO.Driver.Split
import EAO.Model.SplitBuild
/-!
# EAO.Driver.SplitBuild — line-protocol handler for the split set-up of builder portfolios (not part of the model)

ops (rationals "p/q", instants integer seconds):

* `interval_grid`  `{grid: ref, a, b}` → `{grid: Grid.interval ref a b, steps: intervalSteps ref (a, b)}`
  — `Timegrid(a, b, freq, ref_timegrid = ref)` with `I` re-based, and `tmp_I`.
* `split_build`  `{grid: ref, cuts: [instant], prices: {key: [r]}, unitSec, skip: [s],
                   assets: [{kind: "simple_contract" | "contract" | "multi" | "transport" | "ext_transport",
                             params: as for the ops of `EAO.Driver.Contract`, factors: [r] (multi),
                             start, stop: instant, df: [r] (the asset's discount factors on the full grid)}]}` →
  `{unsplit: {problem} | {error}, split: {intervals: [problem]} | {error}, steps: [[i]] (original steps per pair of
    cuts), perm: [i] (`splitPerm`, present when both set-ups succeed), witness: bool, reason: str,
    hyps: bool (`splitHyps`, the decidable hypotheses of `EAO.C14B.split_witness_builders`)}`.
-/
open Lean EAO
namespace EAO.Driver

def getAssetSpec (j : Json) : Except String AssetSpec := do
  let kind ← field j "kind" Json.getStr?
  let spec ← match kind with
    | "simple_contract" => do pure (BuilderSpec.simple (← field j "params" getContractP))
    | "contract" => do pure (BuilderSpec.contract (← field j "params" getContractP))
    | "multi" => do pure (BuilderSpec.multi (← field j "params" getContractP) (← field j "factors" getRats))
    | "transport" => do pure (BuilderSpec.transport (← field j "params" getTransportP))
    | "ext_transport" => do pure (BuilderSpec.extTransport (← field j "params" getTransportP))
    | s => throw s!"unknown asset kind {s}"
  pure { spec := spec, start := ← field j "start" getInt, stop := ← field j "stop" getInt, df := ← field j "df" getRats }

def jBuildProblem (r : Except BuildError Problem) : Json :=
  match r with
  | .ok P => Json.mkObj [("problem", jProblem P)]
  | .error e => Json.mkObj [("error", Json.str e.toString)]

def handleSplitBuild (op : String) (j : Json) : Option (Except String Json) :=
  let known := ["interval_grid", "split_build"]
  if !known.contains op then none else some <| do
  match op with
  | "interval_grid" => do
    let ref ← field j "grid" getGrid
    let a ← field j "a" getInt
    let b ← field j "b" getInt
    pure (Json.mkObj [("grid", jGrid (ref.interval a b)), ("steps", jList jNat (intervalSteps ref (a, b)))])
  | "split_build" => do
    let ref ← field j "grid" getGrid
    let cuts ← field j "cuts" getInts
    let prices ← field j "prices" getPrices
    let unitSec ← field j "unitSec" Json.getNat?
    let skip := (← fieldOpt j "skip" getStrs).getD []
    let specs ← field j "assets" (getList getAssetSpec)
    let U := setupPortfolio specs ref prices unitSec skip
    let S := setupSplit specs ref cuts prices unitSec skip
    let Is := (splitPairs cuts).map (intervalSteps ref)
    let base := [("hyps", Json.bool (splitHyps specs ref cuts prices)), ("unsplit", jBuildProblem U),
                 ("split", match S with
                   | .ok ps => Json.mkObj [("intervals", jList jProblem ps)]
                   | .error e => Json.mkObj [("error", Json.str e.toString)]),
                 ("steps", jList (jList jNat) Is)]
    match U, S with
    | .ok u, .ok ps =>
      let perm := splitPerm u Is
      let w := splitWitness u ps perm
      let reason := if w then "" else splitReason u ps perm
      pure (Json.mkObj (base ++ [("perm", jList jNat perm), ("witness", Json.bool w), ("reason", Json.str reason)]))
    | _, _ => pure (Json.mkObj base)
  | _ => throw s!"unknown op {op}"

end EAO.Driver
