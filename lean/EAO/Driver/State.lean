import EAO.Driver.Codec
import EAO.Model.State
/-!
# EAO.Driver.State — line-protocol handler that RUNS the state model of C10 (`EAO.Model.State`)

op `state_run`:
  request  {"op":"state_run",
            "version": {"rederive": bool, "scaledOwnGrid": bool}        (optional; default = `current`)
            "assets": [ {"kind":"plain","p":P} | {"kind":"scaled","p":P,"base":P} | {"kind":"structured","p":P,"inner":[P..]} ],
                        P = {"start": int|null, "stop": int|null, "freq": nat|null, "wacc": "p/q"}
            "grids": n                    (grid objects 0..n-1 are reported)
            "ops": [ [call, ...], ... ]   (one group per operation of the real code; the state is reported after each group)
                        call = {"call":"setTimegrid","a":i,"g":k} | {"call":"setTimegridSub","a":i,"i":j,"g":k} | {"call":"setup","a":i,"g":k|null}
                             | {"call":"setupSub","a":i,"i":j,"g":k|null} | {"call":"setupPortfolio","g":k|null}
                             | {"call":"setupSplit","g":k,"tmp":[k1,..]} | {"call":"dcf","a":i} | {"call":"fillLevel","a":i}
                             | {"call":"makeSlp","g":k,"t":int} }
  response {"steps": [ {"results": [R..], "pure": [R..], "pf": k|null,
                        "assets": [{"grid":k|null, "sub":[{"grid":k|null,"start":int|null,"stop":int|null}..]}..],
                        "grids": [{"restricted":[start|null, stop|null, freq|null]|null, "disc":"p/q"|null}..]} .. ]}
            R = {"ok":[{"grid":k,"restricted":..,"disc":..}..]} | {"err":"noGrid"};  "results" is `(setupSt v env s call).2`,
            "pure" is `setupPure env (ownPtrs s) call` for the state BEFORE the call (theorem `setup_pure`: equal for `current`).
Nothing but (de)serialisation happens here; every value comes from `setupSt` / `setupPure`.
-/
open Lean EAO EAO.Driver EAO.State
namespace EAO.Driver.St

def getOptInt (j : Json) : Except String (Option Int) := if j.isNull then pure none else do pure (some (← j.getInt?))
def getOptNat (j : Json) : Except String (Option Nat) := if j.isNull then pure none else do pure (some (← j.getNat?))

def fieldOptNat (j : Json) (k : String) : Except String (Option Nat) :=
  match j.getObjVal? k with
  | .ok v => getOptNat v
  | .error _ => pure none

def getStParams (j : Json) : Except String Params := do
  pure { start := ← field j "start" getOptInt, stop := ← field j "stop" getOptInt,
         freq := ← field j "freq" getOptNat, wacc := ← field j "wacc" getRat }

def getStAsset (j : Json) : Except String State.Asset := do
  match (← field j "kind" Json.getStr?) with
  | "plain" => pure (.plain (← field j "p" getStParams))
  | "scaled" => pure (.scaled (← field j "p" getStParams) (← field j "base" getStParams))
  | "structured" => pure (.structured (← field j "p" getStParams) (← field j "inner" (getList getStParams)))
  | s => throw s!"bad asset kind {s}"

def getStCall (j : Json) : Except String Call := do
  match (← field j "call" Json.getStr?) with
  | "setTimegrid" => pure (.setTimegrid (← field j "a" Json.getNat?) (← field j "g" Json.getNat?))
  | "setTimegridSub" => pure (.setTimegridSub (← field j "a" Json.getNat?) (← field j "i" Json.getNat?) (← field j "g" Json.getNat?))
  | "setup" => pure (.setup (← field j "a" Json.getNat?) (← fieldOptNat j "g"))
  | "setupSub" => pure (.setupSub (← field j "a" Json.getNat?) (← field j "i" Json.getNat?) (← fieldOptNat j "g"))
  | "setupPortfolio" => pure (.setupPortfolio (← fieldOptNat j "g"))
  | "setupSplit" => pure (.setupSplit (← field j "g" Json.getNat?) (← field j "tmp" getNats))
  | "dcf" => pure (.dcf (← field j "a" Json.getNat?))
  | "fillLevel" => pure (.fillLevel (← field j "a" Json.getNat?))
  | "makeSlp" => pure (.makeSlp (← field j "g" Json.getNat?) (← field j "t" Json.getInt?))
  | s => throw s!"bad call {s}"

def jOpt {α} (f : α → Json) : Option α → Json | none => Json.null | some a => f a

def jSlot (sl : Slot) : Json := Json.arr #[jOpt jInt sl.1, jOpt jInt sl.2.1, jOpt jNat sl.2.2]

def jUsed (u : Used) : Json :=
  Json.mkObj [("grid", jNat u.grid), ("restricted", jOpt jSlot u.restricted), ("disc", jOpt jRat u.disc)]

def jResult : State.Result → Json
  | .ok us => Json.mkObj [("ok", jList jUsed us)]
  | .error .noGrid => Json.mkObj [("err", Json.str "noGrid")]

def jState (env : Env) (nGrids : Nat) (s : PyState) : List (String × Json) :=
  [("pf", jOpt jNat s.pf),
   ("assets", jList (fun a =>
      let st := s.assets a
      Json.mkObj [("grid", jOpt jNat st.grid),
        ("sub", jList (fun (b : SubSt) => Json.mkObj [("grid", jOpt jNat b.grid), ("start", jOpt jInt b.start), ("stop", jOpt jInt b.stop)]) st.sub)])
      (List.range env.length)),
   ("grids", jList (fun g => Json.mkObj [("restricted", jOpt jSlot (s.grids g).restricted), ("disc", jOpt jRat (s.grids g).disc)])
      (List.range nGrids))]

/-- one group: run the calls in order, collect `setupSt` results and the `setupPure` predictions -/
def runGroup (v : Version) (env : Env) : PyState → List Call → PyState × List State.Result × List State.Result
  | s, [] => (s, [], [])
  | s, c :: cs =>
    let r := setupSt v env s c
    let p := setupPure env (ownPtrs s) c
    let rest := runGroup v env r.1 cs
    (rest.1, r.2 :: rest.2.1, p :: rest.2.2)

def runGroups (v : Version) (env : Env) (nGrids : Nat) : PyState → List (List Call) → List Json
  | _, [] => []
  | s, g :: gs =>
    let r := runGroup v env s g
    Json.mkObj ([("results", jList jResult r.2.1), ("pure", jList jResult r.2.2)] ++ jState env nGrids r.1) :: runGroups v env nGrids r.1 gs

end EAO.Driver.St

namespace EAO.Driver
open EAO.Driver.St

def handleState (op : String) (j : Json) : Option (Except String Json) :=
  if op != "state_run" then none else some <| do
    let env ← field j "assets" (getList getStAsset)
    let nGrids ← field j "grids" Json.getNat?
    let ops ← field j "ops" (getList (getList getStCall))
    let v : Version ← match j.getObjVal? "version" with
      | .ok vj => do
        pure { rederive := ← field vj "rederive" Json.getBool?, scaledOwnGrid := ← field vj "scaledOwnGrid" Json.getBool? }
      | .error _ => pure current
    pure (Json.mkObj [("steps", Json.arr (runGroups v env nGrids (init env) ops).toArray)])

end EAO.Driver
