import EAO.Driver.Codec
import EAO.Model.State
/-!
# EAO.Driver.State — line-protocol handler that RUNS the state model of C10 (`EAO.Model.State`)

op `state_run`:
  request  {"op":"state_run",
            "version": {"rederive": bool, "scaledOwnGrid": bool}        (optional; default = `current`)
            "assets": [ TREE.. ],   TREE = {"kind":"plain","p":P} | {"kind":"scaled","p":P,"base":TREE}
                                         | {"kind":"structured","p":P,"inner":[TREE..]} | {"kind":"linked","p":P,"inner":[TREE..]}
                        P = {"start": int|null, "stop": int|null, "freq": nat|null, "wacc": "p/q"}
                        (a TREE without "kind" is read as P of a plain asset: the flat format of the first version)
            "grids": n                    (grid objects 0..n-1 are reported)
            "ops": [ [call, ...], ... ]   (one group per operation of the real code; the state is reported after each group)
                        call = {"call":"setTimegrid","ad":[a,i,..],"g":k} | {"call":"setup","ad":[a,i,..],"g":k|null}
                               (address: a = number of the asset in the portfolio, then the numbers of the wrapped assets down the tree;
                                instead of "ad": "a":a for a top-level asset; "setTimegridSub" / "setupSub" with "a", "i" = address [a,i])
                             | {"call":"setupPortfolio","g":k|null}
                             | {"call":"setupSplit","g":k,"tmp":[k1,..]} | {"call":"dcf","a":i} | {"call":"fillLevel","a":i}
                             | {"call":"makeSlp","g":k,"t":int} }
  response {"steps": [ {"results": [R..], "pure": [R..], "pf": k|null,
                        "assets": [OBJ..],   OBJ = {"grid":k|null, "start":int|null, "stop":int|null, "sub":[OBJ..]}   (the tree of the asset)
                        "grids": [{"restricted":[start|null, stop|null, freq|null]|null, "disc":"p/q"|null}..]} .. ]}
            R = {"ok":[{"grid":k,"restricted":..,"disc":..}..]} | {"err":"noGrid"};  "results" is `(setupSt v env s call).2`,
            "pure" is `setupPure env (ownPtrs s) call` for the state BEFORE the call (theorem `setup_pure`: equal for `current`).
Nothing but (de)serialisation happens here; every value comes from `setupSt` / `setupPure`.
-/
open Lean EAO EAO.Driver EAO.State
namespace EAO.Driver.St

def getOptInt (j : Json) : Except String (Option Int) := if j.isNull then pure none else do pure (some (← j.getInt?))
def getOptNat (j : Json) : Except String (Option Nat) := if j.isNull then pure none else do pure (some (← j.getNat?))

def fieldOptNat (j : Json) (k : String) : Except String (Option Nat) :=
  match j.getObjVal? k with
  | .ok v => getOptNat v
  | .error _ => pure none

def getStParams (j : Json) : Except String Params := do
  pure { start := ← field j "start" getOptInt, stop := ← field j "stop" getOptInt,
         freq := ← field j "freq" getOptNat, wacc := ← field j "wacc" getRat }

partial def getStAsset (j : Json) : Except String State.Asset := do
  match j.getObjVal? "kind" with
  | .error _ => pure (.plain (← getStParams j))
  | .ok k =>
    match (← k.getStr?) with
    | "plain" => pure (.plain (← field j "p" getStParams))
    | "scaled" => pure (.scaled (← field j "p" getStParams) (← field j "base" getStAsset))
    | "structured" => pure (.structured (← field j "p" getStParams) false (← field j "inner" (getList getStAsset)))
    | "linked" => pure (.structured (← field j "p" getStParams) true (← field j "inner" (getList getStAsset)))
    | s => throw s!"bad asset kind {s}"

/-- address of a call: "ad", or "a" (top-level), or "a" and "i" (the `Sub` calls of the flat format) -/
def getAddr (j : Json) (sub : Bool) : Except String Addr := do
  match j.getObjVal? "ad" with
  | .ok v => getNats v
  | .error _ =>
    let a ← field j "a" Json.getNat?
    if sub then pure [a, ← field j "i" Json.getNat?] else pure [a]

def getStCall (j : Json) : Except String Call := do
  match (← field j "call" Json.getStr?) with
  | "setTimegrid" => pure (.setTimegrid (← getAddr j false) (← field j "g" Json.getNat?))
  | "setTimegridSub" => pure (.setTimegrid (← getAddr j true) (← field j "g" Json.getNat?))
  | "setup" => pure (.setup (← getAddr j false) (← fieldOptNat j "g"))
  | "setupSub" => pure (.setup (← getAddr j true) (← fieldOptNat j "g"))
  | "setupPortfolio" => pure (.setupPortfolio (← fieldOptNat j "g"))
  | "setupSplit" => pure (.setupSplit (← field j "g" Json.getNat?) (← field j "tmp" getNats))
  | "dcf" => pure (.dcf (← field j "a" Json.getNat?))
  | "fillLevel" => pure (.fillLevel (← field j "a" Json.getNat?))
  | "makeSlp" => pure (.makeSlp (← field j "g" Json.getNat?) (← field j "t" Json.getInt?))
  | s => throw s!"bad call {s}"

def jOpt {α} (f : α → Json) : Option α → Json | none => Json.null | some a => f a

def jSlot (sl : Slot) : Json := Json.arr #[jOpt jInt sl.1, jOpt jInt sl.2.1, jOpt jNat sl.2.2]

def jUsed (u : Used) : Json :=
  Json.mkObj [("grid", jNat u.grid), ("restricted", jOpt jSlot u.restricted), ("disc", jOpt jRat u.disc)]

def jResult : State.Result → Json
  | .ok us => Json.mkObj [("ok", jList jUsed us)]
  | .error .noGrid => Json.mkObj [("err", Json.str "noGrid")]

/-- the attributes of every object of the tree `x` living at address `ad` -/
partial def jObj (O : Objs) (x : State.Asset) (ad : Addr) : Json :=
  let o := O ad
  Json.mkObj [("grid", jOpt jNat o.grid), ("start", jOpt jInt o.start), ("stop", jOpt jInt o.stop),
    ("sub", Json.arr ((List.range x.subs.length).zip x.subs |>.map fun ic => jObj O ic.2 (ad ++ [ic.1])).toArray)]

def jState (env : Env) (nGrids : Nat) (s : PyState) : List (String × Json) :=
  [("pf", jOpt jNat s.pf),
   ("assets", jList (fun a => jObj s.objs (env.asset a) [a]) (List.range env.length)),
   ("grids", jList (fun g => Json.mkObj [("restricted", jOpt jSlot (s.grids g).restricted), ("disc", jOpt jRat (s.grids g).disc)])
      (List.range nGrids))]

/-- one group: run the calls in order, collect `setupSt` results and the `setupPure` predictions -/
def runGroup (v : Version) (env : Env) : PyState → List Call → PyState × List State.Result × List State.Result
  | s, [] => (s, [], [])
  | s, c :: cs =>
    let r := setupSt v env s c
    let p := setupPure env (ownPtrs s) c
    let rest := runGroup v env r.1 cs
    (rest.1, r.2 :: rest.2.1, p :: rest.2.2)

def runGroups (v : Version) (env : Env) (nGrids : Nat) : PyState → List (List Call) → List Json
  | _, [] => []
  | s, g :: gs =>
    let r := runGroup v env s g
    Json.mkObj ([("results", jList jResult r.2.1), ("pure", jList jResult r.2.2)] ++ jState env nGrids r.1) :: runGroups v env nGrids r.1 gs

end EAO.Driver.St

namespace EAO.Driver
open EAO.Driver.St

def handleState (op : String) (j : Json) : Option (Except String Json) :=
  if op != "state_run" then none else some <| do
    let env ← field j "assets" (getList getStAsset)
    let nGrids ← field j "grids" Json.getNat?
    let ops ← field j "ops" (getList (getList getStCall))
    let v : Version ← match j.getObjVal? "version" with
      | .ok vj => do
        pure { rederive := ← field vj "rederive" Json.getBool?, scaledOwnGrid := ← field vj "scaledOwnGrid" Json.getBool? }
      | .error _ => pure current
    pure (Json.mkObj [("steps", Json.arr (runGroups v env nGrids (init env) ops).toArray)])

end EAO.Driver
