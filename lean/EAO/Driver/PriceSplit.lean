import EAO.Driver.Codec
import EAO.Model.PriceSplit
/-!
# EAO.Driver.PriceSplit — line-protocol handler for the price table of a split optimisation

op (rationals "p/q", problems as `harness/impl.py: problem_json` writes them, nodal records already re-labelled):

* `split_prices`  `{intervals: [P1, P2, …], ys: [[r, …], …] (optional), dualNs: [[r, …], …] (optional)}` →
    `{nodal: [[step, node], …]`          — `EAO.splitNodal` (`SplitOptimProblem.map_nodal_restr`)
    ` nodal_last: [bool, …]`             — `EAO.nodalLast` per interval
    ` prices: [[step, node, r], …]`      — `EAO.splitPrices` of the given `dualNs` (only with `dualNs`)
    ` read:   [[step, node, r], …]`      — `EAO.readSplitPrices` of the given `ys` (only with `ys`)
    ` ub: r, ubs: [r, …], signok: bool, signoks: [bool, …]` (only with `ys`) — the exact Lagrangian bound of
      `blockSum` at the stacked multipliers, the interval bounds, sign-correctness of the stack / of the parts
    ` rows: [i, …]`                      — `EAO.splitNodalRow` of every price-table entry, in table order
    `}`
-/
open Lean EAO
namespace EAO.Driver

def jPriceEntry (p : (Nat × String) × Rat) : Json := Json.arr #[jNat p.1.1, Json.str p.1.2, jRat p.2]

def signOKb (rows : List Row) (y : List Rat) : Bool :=
  decide (y.length = rows.length) && (rows.zip y).all fun q => decide (q.1.SignOK q.2)

def handlePriceSplit (op : String) (j : Json) : Option (Except String Json) :=
  if op != "split_prices" then none else some <| do
    let ps ← field j "intervals" (getList getProblem)
    let ys ← fieldOpt j "ys" (getList getRats)
    let ds ← fieldOpt j "dualNs" (getList getRats)
    let rowIdx := (List.range ps.length).flatMap fun i =>
      (List.range (ps.getD i default).nodal.length).map fun k => splitNodalRow ps i k
    let base := [("nodal", jList (fun (p : Nat × String) => Json.arr #[jNat p.1, Json.str p.2]) (splitNodal ps)),
      ("nodal_last", jList Json.bool (ps.map nodalLast)), ("rows", jList jNat rowIdx)]
    let withD := match ds with
      | none => []
      | some d => [("prices", jList jPriceEntry (splitPrices ps d))]
    let withY := match ys with
      | none => []
      | some y =>
        let B := blockSum ps
        [("read", jList jPriceEntry (readSplitPrices ps y)),
         ("ub", jRat (lagrangianUB B y.flatten)),
         ("ubs", jRats ((ps.zip y).map fun q => lagrangianUB q.1 q.2)),
         ("signok", Json.bool (signOKb B.rows y.flatten)),
         ("signoks", jList Json.bool ((ps.zip y).map fun q => signOKb q.1.rows q.2))]
    pure (Json.mkObj (base ++ withD ++ withY))

end EAO.Driver
