import Lean.Data.Json
import EAO.Model.Basic
import EAO.Model.Translate
import EAO.Model.Grid
import EAO.Model.Param
/-!
# EAO.Driver.Codec — JSON (de)serialisation for the line protocol (not part of the model)

Rationals travel as strings `"p/q"` (or `"p"`), names as strings, indices as numbers.
Ill-formed requests are rejected (`Except`), never defaulted.
-/
open Lean
namespace EAO.Driver

def parseRat (s : String) : Except String Rat :=
  match s.splitOn "/" with
  | [p] => match p.toInt? with
    | some n => pure (n : Rat)
    | none => throw s!"bad rational {s}"
  | [p, q] => match p.toInt?, q.toNat? with
    | some n, some d => if d = 0 then throw s!"zero denominator {s}" else pure (mkRat n d)
    | _, _ => throw s!"bad rational {s}"
  | _ => throw s!"bad rational {s}"

def ratToString (r : Rat) : String :=
  if r.den = 1 then toString r.num else s!"{r.num}/{r.den}"

def jRat (r : Rat) : Json := Json.str (ratToString r)

def getRat (j : Json) : Except String Rat := do
  match j with
  | .str s => parseRat s
  | .num _ => do
    let i ← j.getInt?
    pure (i : Rat)
  | _ => throw "rational expected"

def getList {α} (f : Json → Except String α) (j : Json) : Except String (List α) := do
  let a ← j.getArr?
  a.toList.mapM f

def field {α} (j : Json) (k : String) (f : Json → Except String α) : Except String α := do
  let v ← j.getObjVal? k
  match f v with
  | .ok a => pure a
  | .error e => throw s!"{k}: {e}"

def fieldOpt {α} (j : Json) (k : String) (f : Json → Except String α) : Except String (Option α) :=
  match j.getObjVal? k with
  | .ok v => if v.isNull then pure none else (do let a ← f v; pure (some a))
  | .error _ => pure none

def getRats (j : Json) : Except String (List Rat) := getList getRat j
def getNats (j : Json) : Except String (List Nat) := getList Json.getNat? j
def getStrs (j : Json) : Except String (List String) := getList Json.getStr? j

def getKind (j : Json) : Except String RowKind := do
  match (← j.getStr?) with
  | "U" => pure .U | "L" => pure .L | "S" => pure .S | "N" => pure .N
  | s => throw s!"bad row kind {s}"

def kindStr : RowKind → String | .U => "U" | .L => "L" | .S => "S" | .N => "N"

def getCoeff (j : Json) : Except String (Nat × Rat) := do
  let a ← j.getArr?
  if h : a.size = 2 then do
    let i ← a[0].getNat?
    let v ← getRat a[1]
    pure (i, v)
  else throw "coefficient pair expected"

def getRow (j : Json) : Except String Row := do
  pure { coeffs := ← field j "coeffs" (getList getCoeff), rhs := ← field j "rhs" getRat, kind := ← field j "kind" getKind }

def getVarKind (j : Json) : Except String VarKind := do
  match (← j.getStr?) with
  | "d" => pure .d | "i" => pure .i | s => pure (.other s)

def varKindStr : VarKind → String | .d => "d" | .i => "i" | .other s => s

def getMapRow (j : Json) : Except String MapRow := do
  pure { var := ← field j "var" Json.getNat?, asset := ← field j "asset" Json.getStr?,
         node := ← fieldOpt j "node" Json.getStr?, kind := ← field j "kind" getVarKind,
         step := ← field j "step" Json.getNat?, factor := ← field j "factor" getRat,
         isBool := ← field j "bool" Json.getBool?, varName := ← field j "var_name" Json.getStr? }

def getAsset (j : Json) : Except String AssetProblem := do
  pure { name := ← field j "name" Json.getStr?, nodes := ← field j "nodes" getStrs,
         c := ← field j "c" getRats, l := ← field j "l" getRats, u := ← field j "u" getRats,
         rows := ← field j "rows" (getList getRow), mapping := ← field j "mapping" (getList getMapRow) }

def getNodalPair (j : Json) : Except String (Nat × String) := do
  let a ← j.getArr?
  if h : a.size = 2 then do
    pure (← a[0].getNat?, ← a[1].getStr?)
  else throw "nodal pair expected"

def getProblem (j : Json) : Except String Problem := do
  pure { c := ← field j "c" getRats, l := ← field j "l" getRats, u := ← field j "u" getRats,
         rows := ← field j "rows" (getList getRow), mapping := ← field j "mapping" (getList getMapRow),
         nodal := (← fieldOpt j "nodal" (getList getNodalPair)).getD [] }

def jList {α} (f : α → Json) (l : List α) : Json := Json.arr (l.map f).toArray
def jRats (l : List Rat) : Json := jList jRat l
def jNat (n : Nat) : Json := Json.num (JsonNumber.fromNat n)

def jRow (r : Row) : Json :=
  Json.mkObj [("coeffs", jList (fun p => Json.arr #[jNat p.1, jRat p.2]) r.coeffs), ("rhs", jRat r.rhs), ("kind", Json.str (kindStr r.kind))]

def jMapRow (m : MapRow) : Json :=
  Json.mkObj [("var", jNat m.var), ("asset", Json.str m.asset),
    ("node", match m.node with | some n => Json.str n | none => Json.null),
    ("kind", Json.str (varKindStr m.kind)), ("step", jNat m.step), ("factor", jRat m.factor),
    ("bool", Json.bool m.isBool), ("var_name", Json.str m.varName)]

def jProblem (P : Problem) : Json :=
  Json.mkObj [("c", jRats P.c), ("l", jRats P.l), ("u", jRats P.u), ("rows", jList jRow P.rows),
    ("mapping", jList jMapRow P.mapping),
    ("nodal", jList (fun p => Json.arr #[jNat p.1, Json.str p.2]) P.nodal)]

def jAsset (P : AssetProblem) : Json :=
  Json.mkObj [("name", Json.str P.name), ("nodes", jList Json.str P.nodes), ("c", jRats P.c), ("l", jRats P.l), ("u", jRats P.u), ("rows", jList jRow P.rows),
    ("mapping", jList jMapRow P.mapping)]

/-! grid, parameters, prices -/
def getInt (j : Json) : Except String Int := j.getInt?
def getInts (j : Json) : Except String (List Int) := getList getInt j

/-- restricted (or full) grid as data: {pts, idx, dt, Dt, df} -/
def getGrid (j : Json) : Except String Grid := do
  pure { pts := ← field j "pts" getInts, idx := ← field j "idx" getNats, dt := ← field j "dt" getRats,
         Dt := ← field j "Dt" getRats, df := ← field j "df" getRats }

def jInt (i : Int) : Json := Json.num (JsonNumber.fromInt i)
def jGrid (g : Grid) : Json :=
  Json.mkObj [("pts", jList jInt g.pts), ("idx", jList jNat g.idx), ("dt", jRats g.dt), ("Dt", jRats g.Dt), ("df", jRats g.df)]

def getInterval (j : Json) : Except String Interval := do
  pure { start := ← field j "start" getInt, stop := ← fieldOpt j "stop" getInt, value := ← field j "value" getRat }

/-- {"scalar": r} | {"array": [r]} | {"key": s} | {"intervals": [{start, stop|null, value}]} -/
def getParam (j : Json) : Except String ParamValue := do
  match j.getObjVal? "scalar" with
  | .ok v => pure (.scalar (← getRat v))
  | .error _ => match j.getObjVal? "array" with
    | .ok v => pure (.array (← getRats v))
    | .error _ => match j.getObjVal? "key" with
      | .ok v => pure (.key (← v.getStr?))
      | .error _ => match j.getObjVal? "intervals" with
        | .ok v => pure (.intervals (← getList getInterval v))
        | .error _ => throw "parameter: scalar | array | key | intervals expected"

/-- {"name": [r, …], …} -/
def getPrices (j : Json) : Except String Prices := do
  let o ← j.getObj?
  o.toList.mapM fun (k, v) => do pure (k, ← getRats v)

def jOptRats (l : List (Option Rat)) : Json := jList (fun o => match o with | some r => jRat r | none => Json.null) l

def jBuild (r : Except BuildError AssetProblem) : Json :=
  match r with
  | .ok a => Json.mkObj [("problem", jAsset a)]
  | .error e => Json.mkObj [("error", Json.str e.toString)]

end EAO.Driver
