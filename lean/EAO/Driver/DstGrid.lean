import EAO.Driver.Codec
import EAO.Model.DstGrid
/-!
# EAO.Driver.DstGrid — line-protocol handler for daily grids in zones with daylight saving (not part of the model)

The zone is `{"base": o, "trans": [[instant, offset], …]}` (seconds; instants increasing).

* `day_grid`      `{zone, start | startWall, stop | stopWall, ambiguousFirst?, kdays, unitSec, df?}` (start / stop: instants, integer
                  seconds UTC = the constructor called with zone-aware datetimes; startWall / stopWall: wall times =
                  the constructor called with naive datetimes, localised first (`Zone.localizeNaive`): start, then end;
                  `ambiguousFirst` (default true): a repeated wall time is read as the EARLIER instant)
                  → `{pts, idx, dt, Dt, df, all, start, stop, walls, offsets, calendarOK, spreadOK, endOK, wallLE}`
                  | `{"err": "assert" | "NonExistentTimeError" | "AmbiguousTimeError"}`
                  (`all` = all points including the closing one, `walls` = their wall times, `offsets` = the
                  UTC offset at every point, `spreadOK` = the hypothesis of the theorems: offsets differ by
                  less than `kdays` days; `endOK`, `wallLE`: the other two decidable hypotheses, `EAO.endOK` and
                  wall(start) ≤ wall(stop))
* `tz_localize`   `{zone, wall}` → `{"instant": u}` | `{"err": "NonExistentTimeError" | "AmbiguousTimeError"}`
* `tz_wall`       `{zone, instant}` → `{"wall": w, "offset": o}`
-/
open Lean EAO
namespace EAO.Driver

def getTransition (j : Json) : Except String (Int × Int) := do
  let a ← j.getArr?
  if h : a.size = 2 then do
    pure (← a[0].getInt?, ← a[1].getInt?)
  else throw "transition [instant, offset] expected"

def getZone (j : Json) : Except String Zone := do
  let base ← field j "base" getInt
  let trans ← field j "trans" (getList getTransition)
  if !(decide (trans.map (·.1) |>.Pairwise (· < ·))) then throw "transition instants must increase"
  pure { base := base, trans := trans }

def jTzErr (e : TzError) : Json := Json.mkObj [("err", Json.str e.toString)]

def handleDstGrid (op : String) (j : Json) : Option (Except String Json) :=
  let known := ["day_grid", "tz_localize", "tz_wall"]
  if !known.contains op then none else some <| do
  let z ← field j "zone" getZone
  match op with
  | "day_grid" => do
    let first := (← fieldOpt j "ambiguousFirst" Json.getBool?).getD true
    let start ← match (← fieldOpt j "start" getInt) with
      | some s => pure (Except.ok s)
      | none => do pure (z.localizeNaive first (← field j "startWall" getInt))
    let stop ← match (← fieldOpt j "stop" getInt) with
      | some s => pure (Except.ok s)
      | none => do pure (z.localizeNaive first (← field j "stopWall" getInt))
    let k ← field j "kdays" Json.getNat?
    if k = 0 then throw "kdays must be positive"
    let unitSec ← field j "unitSec" Json.getNat?
    if unitSec = 0 then throw "unitSec must be positive"
    let df := (← fieldOpt j "df" getRats).getD []
    match start, stop with
    | .error e, _ => pure (jTzErr e)
    | .ok _, .error e => pure (jTzErr e)
    | .ok start, .ok stop =>
    match dayGrid z start stop k unitSec df, localDayRange z start stop k with
    | .error e, _ => pure (jTzErr e)
    | _, .error e => pure (jTzErr e)
    | .ok g, .ok all =>
      pure ((jGrid g).setObjVal! "all" (jList jInt all)
        |>.setObjVal! "start" (jInt start) |>.setObjVal! "stop" (jInt stop)
        |>.setObjVal! "walls" (jList jInt (all.map z.wall))
        |>.setObjVal! "offsets" (jList jInt (all.map z.offset))
        |>.setObjVal! "calendarOK" (Json.bool (CalendarOK all start stop))
        |>.setObjVal! "spreadOK" (Json.bool (z.spreadBelow ((k * 86400 : Nat) : Int)))
        |>.setObjVal! "endOK" (Json.bool (endOK z start stop k))
        |>.setObjVal! "wallLE" (Json.bool (decide (z.wall start ≤ z.wall stop))))
  | "tz_localize" => do
    let w ← field j "wall" getInt
    match z.localize w with
    | .error e => pure (jTzErr e)
    | .ok u => pure (Json.mkObj [("instant", jInt u)])
  | "tz_wall" => do
    let u ← field j "instant" getInt
    pure (Json.mkObj [("wall", jInt (z.wall u)), ("offset", jInt (z.offset u))])
  | _ => throw s!"unknown op {op}"

end EAO.Driver
