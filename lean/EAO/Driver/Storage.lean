import EAO.Driver.Codec
import EAO.Model.Storage
/-!
# EAO.Driver.Storage — line-protocol handlers for the storage component

* `storage`:  `{params, grid, T, prices}` → `{"problem": …}` | `{"error": class}`   (constructor guards + set-up)
* `storage_readout`: `{params, grid, T, mapping, x}` → `{fill_level: [r]*T, charge: [r]*T, discharge: [r]*T}`
* `storage_blocks_tick`: `{grid, start, end, block_s}` → `{aa: [nat]}`   (block starts for a tick block size)

`params` = `{name, nodes, size, cap_in, cap_out, start_level, end_level, cost_in, cost_out, cost_store,
eff_in, inflow, price: str|null, no_simult: bool, max_store_duration: r|null, blocks: [nat]|null}`.
-/
open Lean EAO EAO.Driver
namespace EAO.Driver

def getStorageP (j : Json) : Except String StorageP := do
  pure { name := ← field j "name" Json.getStr?, nodes := ← field j "nodes" getStrs,
         size := ← field j "size" getRat, capIn := ← field j "cap_in" getRat, capOut := ← field j "cap_out" getRat,
         startLevel := ← field j "start_level" getRat, endLevel := ← field j "end_level" getRat,
         costIn := ← field j "cost_in" getRat, costOut := ← field j "cost_out" getRat,
         costStore := ← field j "cost_store" getRat, effIn := ← field j "eff_in" getRat,
         inflow := ← field j "inflow" getRat, price := ← fieldOpt j "price" Json.getStr?,
         noSimult := ← field j "no_simult" Json.getBool?,
         maxStoreDuration := ← fieldOpt j "max_store_duration" getRat,
         blocks := ← fieldOpt j "blocks" getNats }

def handleStorage (op : String) (j : Json) : Option (Except String Json) :=
  let known := ["storage", "storage_readout", "storage_blocks_tick"]
  if !known.contains op then none else some <| do
  match op with
  | "storage" => do
    let p ← field j "params" getStorageP
    let g ← field j "grid" getGrid
    let T ← field j "T" Json.getNat?
    let prices ← field j "prices" getPrices
    pure (jBuild (mkStorage p g T prices))
  | "storage_readout" => do
    let p ← field j "params" getStorageP
    let g ← field j "grid" getGrid
    let T ← field j "T" Json.getNat?
    let M ← field j "mapping" (getList getMapRow)
    let xs ← field j "x" getRats
    let x : Vec := fun k => xs.getD k 0
    pure (Json.mkObj [("fill_level", jRats (fillLevel p M g T x)),
      ("charge", jRats ((List.range T).map (chargeOut p M x))),
      ("discharge", jRats ((List.range T).map (dischargeOut p M x)))])
  | "storage_blocks_tick" => do
    let g ← field j "grid" getGrid
    let s ← field j "start" getInt
    let e ← field j "end" getInt
    let bs ← field j "block_s" Json.getNat?
    pure (Json.mkObj [("aa", jList jNat (blockStartsTick g s e bs))])
  | _ => throw s!"unknown op {op}"

end EAO.Driver
