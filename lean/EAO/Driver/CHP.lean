import EAO.Driver.Codec
import EAO.Model.CHP
import EAO.Model.CHPMinLoad
import EAO.Model.CHPProfile
import EAO.Spec.UnitCommit
/-!
# EAO.Driver.CHP — line-protocol handlers for the CHP / Plant builder and the unit-commitment automaton

* `{"op":"chp", "p": {...}, "base": <asset problem>, "grid": <restricted grid>, "prices": {...},
   "unit_s": n, "step_s": n}` → `{"problem": …, "info": {...}}` | `{"error": class}`
  `p` = {name, nodes, no_heat, min_cap, conv, share|null, ramp|null, start_costs, running_costs,
         min_runtime, tar, min_downtime, tao, last_dispatch, start_fuel, fuel_eff, cons_if_on, freq_mismatch}
  (parameters in the `getParam` encoding, durations and ramp as rationals in main time units)
  optional: `"min_load": {"threshold": param|null, "costs": param|null}` (class `CHPAsset_with_min_load_costs`:
  the booleans and rows are added on top of the CHP problem); `"costs_only": true` → `{"c": [...]}` | `{"error"}`
  optional: `"profiles": {"start_lo","start_up","shut_lo","shut_up","start_lo_h","start_up_h","shut_lo_h","shut_up_h":
  [rat]|null, "ramp_freq_s": n, "same_freq": bool}` (start / shutdown ramp profiles; `info` then also has
  `shut_idx`, `S`, `Q`)
* `{"op":"uc_accepts", "R":n, "D":n, "tar":n, "tao":n, "on":[bool…]}` or with `"patterns":[[bool…]…]`
  → `{"accepts": b, "spec": b, "guard": b}` resp. `{"accepts":[…], "spec":[…], "guard": b}`
-/
open Lean EAO EAO.Driver
namespace EAO.Driver

def getCHPP (j : Json) : Except String CHPP := do
  pure { name := ← field j "name" Json.getStr?, nodes := ← field j "nodes" getStrs,
         noHeat := ← field j "no_heat" Json.getBool?, minCap := ← field j "min_cap" getParam,
         convFactor := ← field j "conv" getParam, maxShareHeat := ← fieldOpt j "share" getParam,
         ramp := ← fieldOpt j "ramp" getRat, startCosts := ← field j "start_costs" getParam,
         runningCosts := ← field j "running_costs" getParam, minRuntime := ← field j "min_runtime" getRat,
         timeAlreadyRunning := ← field j "tar" getRat, minDowntime := ← field j "min_downtime" getRat,
         timeAlreadyOff := ← field j "tao" getRat, lastDispatch := ← field j "last_dispatch" getRat,
         startFuel := ← field j "start_fuel" getParam, fuelEfficiency := ← field j "fuel_eff" getParam,
         consumptionIfOn := ← field j "cons_if_on" getParam, freqMismatch := ← field j "freq_mismatch" Json.getBool? }

def getBools (j : Json) : Except String (List Bool) := getList Json.getBool? j

def handleCHP (op : String) (j : Json) : Option (Except String Json) :=
  if op != "chp" && op != "uc_accepts" then none else some <| do
  match op with
  | "chp" => do
    let p ← field j "p" getCHPP
    let base ← field j "base" getAsset
    let g ← field j "grid" getGrid
    let prices ← field j "prices" getPrices
    let unitS ← field j "unit_s" Json.getNat?
    let stepS ← field j "step_s" Json.getNat?
    let ml ← fieldOpt j "min_load" (fun m => do
      pure ({ threshold := ← fieldOpt m "threshold" getParam, costs := ← fieldOpt m "costs" getParam } : MinLoadP))
    let costsOnly := (← fieldOpt j "costs_only" Json.getBool?).getD false
    let prof ← fieldOpt j "profiles" (fun m => do
      pure ({ startLo := ← fieldOpt m "start_lo" getRats, startUp := ← fieldOpt m "start_up" getRats,
              shutLo := ← fieldOpt m "shut_lo" getRats, shutUp := ← fieldOpt m "shut_up" getRats,
              startLoH := ← fieldOpt m "start_lo_h" getRats, startUpH := ← fieldOpt m "start_up_h" getRats,
              shutLoH := ← fieldOpt m "shut_lo_h" getRats, shutUpH := ← fieldOpt m "shut_up_h" getRats,
              rampFreqSec := ← field m "ramp_freq_s" Json.getNat?, sameFreq := ← field m "same_freq" Json.getBool? } : CHPProfP))
    let profActive := match prof with | some q => q.active | none => false
    let jErr (e : BuildError) : Json := Json.mkObj [("error", Json.str e.toString)]
    if costsOnly then
      let c := do
        let c ← (if profActive then do
            match ← resolveCHPP p (prof.getD default) base g prices unitS stepS true with
            | none => pure base.c
            | some r => pure r.cost
          else costsOnlyCHP p base g prices unitS stepS)
        match ml with
        | none => pure c
        | some q => costsOnlyMinLoad q c g prices
      match c with
      | .error e => pure (jErr e)
      | .ok c => pure (Json.mkObj [("c", jRats c)])
    else
    let finish (a : AssetProblem) : Except BuildError AssetProblem :=
      match ml with
      | none => pure a
      | some q => buildMinLoad q a g prices
    if profActive then
      match resolveCHPP p (prof.getD default) base g prices unitS stepS false with
      | .error e => pure (jErr e)
      | .ok none =>
        match finish base with
        | .error e => pure (jErr e)
        | .ok a => pure (Json.mkObj [("problem", jAsset a), ("info", Json.null)])
      | .ok (some rp) =>
        let r := rp.core
        let L := r.layout
        match finish (assembleCHPP rp) with
        | .error e => pure (jErr e)
        | .ok a =>
        pure (Json.mkObj [("problem", jAsset a),
          ("info", Json.mkObj [("R", jNat r.R), ("D", jNat r.D), ("tar", jNat r.tar), ("tao", jNat r.tao),
            ("inc_on", Json.bool r.incOn), ("inc_start", Json.bool r.incStart), ("heat", Json.bool r.heat),
            ("fuel", match r.fuel with | some f => Json.str f | none => Json.null),
            ("heat_idx", jNat L.heatIdx), ("on_idx", jNat L.onIdx), ("start_idx", jNat L.startIdx),
            ("shut_idx", jNat rp.shutIdx), ("S", jNat rp.prof.S), ("Q", jNat rp.prof.Q),
            ("sl", jRats rp.prof.sl), ("su", jRats rp.prof.su), ("ql", jRats rp.prof.ql), ("qu", jRats rp.prof.qu),
            ("profiles", Json.bool true), ("n_chp_vars", jNat rp.cost.length)])])
    else
    match resolveCHP p base g prices unitS stepS with
    | .error e => pure (jErr e)
    | .ok none =>
      match finish base with
      | .error e => pure (jErr e)
      | .ok a => pure (Json.mkObj [("problem", jAsset a), ("info", Json.null)])
    | .ok (some r) =>
      let L := r.layout
      match finish (assembleCHP r) with
      | .error e => pure (jErr e)
      | .ok a =>
      pure (Json.mkObj [("problem", jAsset a),
        ("info", Json.mkObj [("R", jNat r.R), ("D", jNat r.D), ("tar", jNat r.tar), ("tao", jNat r.tao),
          ("inc_on", Json.bool r.incOn), ("inc_start", Json.bool r.incStart), ("heat", Json.bool r.heat),
          ("fuel", match r.fuel with | some f => Json.str f | none => Json.null),
          ("heat_idx", jNat L.heatIdx), ("on_idx", jNat L.onIdx), ("start_idx", jNat L.startIdx),
          ("n_commit_rows", jNat r.commitRows.length), ("commit_ok", Json.bool r.commitOK), ("fuel_ok", Json.bool r.fuelOK),
          ("n_chp_vars", jNat r.cost.length)])])
  | "uc_accepts" => do
    let p : UC.UCP := { R := ← field j "R" Json.getNat?, D := ← field j "D" Json.getNat?,
                        tar := ← field j "tar" Json.getNat?, tao := ← field j "tao" Json.getNat? }
    let guard := decide (UC.GuardOK p)
    match ← fieldOpt j "patterns" (getList getBools) with
    | some pats =>
      pure (Json.mkObj [("accepts", jList (fun on => Json.bool (UC.accepts p on)) pats),
        ("spec", jList (fun on => Json.bool (decide (UC.MinUpDown p on))) pats), ("guard", Json.bool guard)])
    | none =>
      let on ← field j "on" getBools
      pure (Json.mkObj [("accepts", Json.bool (UC.accepts p on)), ("spec", Json.bool (decide (UC.MinUpDown p on))),
        ("guard", Json.bool guard)])
  | _ => throw s!"unknown op {op}"

end EAO.Driver
