import EAO.Driver.Codec
import EAO.Driver.Contract
import EAO.Driver.Split
import EAO.Driver.SplitBuild
import EAO.Driver.Storage
import EAO.Model.BlockSplit
/-!
# EAO.Driver.BlockSplit — line-protocol handler for the split set-up of storages with time blocks (not part of the model)

op (rationals "p/q", instants integer seconds):

* `block_split`  `{grid: ref, start, end: instant (timegrid.start / timegrid.end), cuts: [instant], prices: {key: [r]},
                   unitSec, skip: [s],
                   assets: [ {kind: "storage", params: as for op `storage` (field `blocks` ignored), block_s: nat | null,
                              start, stop: instant | null (the asset's own window AS GIVEN), df: [r]}
                           | builder assets as for op `split_build` ]}` →
  `{unsplit: {problem} | {error} (`setupPortfolioK`), split: {intervals: [problem]} | {error} (`setupSplitK`),
    steps: [[i]], aligned: bool (`blocksAligned`), lpk: bool (every storage `lpK`),
    hyps0: bool (`splitHypsS` of the portfolio with the storages WITHOUT time blocks),
    blocks_unsplit: [[nat] | null] (per asset: boundaries of the unsplit storage), blocks_split: [[nat] | null]
    (per asset: boundaries of the interval storages as unsplit positions),
    and when both set-ups succeed: perm: [i] (`splitPerm U Is`), witness: bool (`splitWitness U ps perm`), reason: str}`.
-/
open Lean EAO
namespace EAO.Driver

def getOptIntK (j : Json) : Except String (Option Int) := if j.isNull then pure none else do pure (some (← j.getInt?))
def getOptNatK (j : Json) : Except String (Option Nat) := if j.isNull then pure none else do pure (some (← j.getNat?))

def getSpecK (j : Json) : Except String SpecK := do
  let kind ← field j "kind" Json.getStr?
  if kind == "storage" then
    let p ← field j "params" getStorageP
    pure (SpecK.storage { p with blocks := none } (← field j "block_s" getOptNatK) (← field j "start" getOptIntK)
      (← field j "stop" getOptIntK) (← field j "df" getRats))
  else
    pure (SpecK.builder (← getAssetSpec j))

def handleBlockSplit (op : String) (j : Json) : Option (Except String Json) :=
  let known := ["block_split"]
  if !known.contains op then none else some <| do
  match op with
  | "block_split" => do
    let ref ← field j "grid" getGrid
    let gs ← field j "start" getInt
    let ge ← field j "end" getInt
    let cuts ← field j "cuts" getInts
    let prices ← field j "prices" getPrices
    let unitSec ← field j "unitSec" Json.getNat?
    let skip := (← fieldOpt j "skip" getStrs).getD []
    let specs ← field j "assets" (getList getSpecK)
    let U := setupPortfolioK specs ref gs ge prices unitSec skip
    let S := setupSplitK specs ref cuts prices unitSec skip
    let Is := (splitPairs cuts).map (intervalSteps ref)
    let bu := specs.map fun a => match a with
      | .builder _ => Json.null
      | .storage _ bs s e df => jList jNat (unsplitBoundaries ref gs ge bs s e df)
    let bsp := specs.map fun a => match a with
      | .builder _ => Json.null
      | .storage _ bs s e df => jList jNat (splitBoundaries ref gs ge cuts bs s e df)
    let lpk := specs.all fun a => match a with
      | .builder _ => true
      | .storage p _ _ _ _ => p.lpK
    let base := [("unsplit", jBuildProblem U),
                 ("split", match S with
                   | .ok ps => Json.mkObj [("intervals", jList jProblem ps)]
                   | .error e => Json.mkObj [("error", Json.str e.toString)]),
                 ("steps", jList (jList jNat) Is),
                 ("aligned", Json.bool (blocksAligned specs ref gs ge cuts)), ("lpk", Json.bool lpk),
                 ("hyps0", Json.bool (splitHypsS (specs.map fun a => a.unblocked gs ge) ref cuts prices)),
                 ("blocks_unsplit", Json.arr bu.toArray), ("blocks_split", Json.arr bsp.toArray)]
    match U, S with
    | .ok u, .ok ps =>
      let perm := splitPerm u Is
      let w := splitWitness u ps perm
      let reason := if w then "" else splitReason u ps perm
      pure (Json.mkObj (base ++ [("perm", jList jNat perm), ("witness", Json.bool w), ("reason", Json.str reason)]))
    | _, _ => pure (Json.mkObj base)
  | _ => throw s!"unknown op {op}"

end EAO.Driver
