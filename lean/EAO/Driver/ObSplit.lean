import EAO.Driver.Codec
import EAO.Driver.Contract
import EAO.Driver.Split
import EAO.Driver.SplitBuild
import EAO.Model.ObSplit
/-!
# EAO.Driver.ObSplit — line-protocol handler for the split set-up of portfolios WITH order books (not part of the model)

ops (rationals "p/q", instants integer seconds):

* `ob_split_build`  as `split_build` (`EAO.Driver.SplitBuild`), the list `assets` may also hold
  `{kind: "orderbook", name, node, full_exec: bool, orders: {start: [instant], stop: [instant], capa: [r], price: [r]},
    df: [r] (the book's discount factors on the full grid)}` →
  `{unsplit: {problem} | {error}, split: {intervals: [problem]} | {error}, steps: [[i]],
    inside: bool (`ordersInsideAll`), hyps: bool (`splitHyps` of the contract / transport assets),
    live: [i] (live variables of the unsplit problem), lives: [[i]] (per interval problem),
    perm: [i] (`splitPermLive`), witness: bool (`splitWitnessModInert`), plain: bool (`splitWitness` with `splitPerm`,
    i.e. WITHOUT dropping the inert variables), reason: str}`.
* `ob_witness`  `{problem: U, intervals: [P…], steps: [[i]]}` → `{witness, perm, live, lives, reason}` — the same
  witness evaluated on problems given from outside (the REAL problems).
* `drop_inert`  `{problem: P}` → `{live: [i], problem: P.dropInert}`.
-/
open Lean EAO
namespace EAO.Driver

def getOrders (o : Json) : Except String (List Order) := do
  let ss ← field o "start" getInts
  let es ← field o "stop" getInts
  let cs ← field o "capa" getRats
  let ps ← field o "price" getRats
  if ss.length ≠ es.length ∨ ss.length ≠ cs.length ∨ ss.length ≠ ps.length then throw "order columns of unequal length"
  pure (((ss.zip es).zip (cs.zip ps)).map fun q => { start := q.1.1, stop := q.1.2, capa := q.2.1, price := q.2.2 })

def getOSpec (j : Json) : Except String OSpec := do
  let kind ← field j "kind" Json.getStr?
  if kind == "orderbook" then
    let o ← j.getObjVal? "orders"
    pure (.book (← field j "name" Json.getStr?) (← field j "node" Json.getStr?) (← getOrders o)
      (← field j "full_exec" Json.getBool?) (← field j "df" getRats))
  else
    pure (.asset (← getAssetSpec j))

def obWitnessFields (U : Problem) (ps : List Problem) (Is : List (List Nat)) : List (String × Json) :=
  let perm := splitPermLive U Is
  let w := splitWitnessModInert U ps perm
  let reason := if w then "" else
    if !U.wfIdx then "unsplit problem not well-formed" else
    if !ps.all Problem.wfIdx then "an interval problem is not well-formed" else
    splitReason U.dropInert (ps.map Problem.dropInert) perm
  [("perm", jList jNat perm), ("witness", Json.bool w), ("reason", Json.str reason),
   ("live", jList jNat U.live), ("lives", jList (jList jNat) (ps.map Problem.live)),
   ("plain", Json.bool (splitWitness U ps (splitPerm U Is)))]

def handleObSplit (op : String) (j : Json) : Option (Except String Json) :=
  let known := ["ob_split_build", "ob_witness", "drop_inert"]
  if !known.contains op then none else some <| do
  match op with
  | "drop_inert" => do
    let P ← field j "problem" getProblem
    pure (Json.mkObj [("live", jList jNat P.live), ("problem", jProblem P.dropInert)])
  | "ob_witness" => do
    let U ← field j "problem" getProblem
    let ps ← field j "intervals" (getList getProblem)
    let Is ← field j "steps" (getList getNats)
    pure (Json.mkObj (obWitnessFields U ps Is))
  | "ob_split_build" => do
    let ref ← field j "grid" getGrid
    let cuts ← field j "cuts" getInts
    let prices ← field j "prices" getPrices
    let unitSec ← field j "unitSec" Json.getNat?
    let skip := (← fieldOpt j "skip" getStrs).getD []
    let specs ← field j "assets" (getList getOSpec)
    let U := setupPortfolioOB specs ref prices unitSec skip
    let S := setupSplitOB specs ref cuts prices unitSec skip
    let Is := (splitPairs cuts).map (intervalSteps ref)
    let plainSpecs := specs.filterMap fun s => match s with | .asset a => some a | _ => none
    let base := [("inside", Json.bool (ordersInsideAll specs ref cuts)),
                 ("hyps", Json.bool (splitHyps plainSpecs ref cuts prices)),
                 ("unsplit", jBuildProblem U),
                 ("split", match S with
                   | .ok ps => Json.mkObj [("intervals", jList jProblem ps)]
                   | .error e => Json.mkObj [("error", Json.str e.toString)]),
                 ("steps", jList (jList jNat) Is)]
    match U, S with
    | .ok u, .ok ps => pure (Json.mkObj (base ++ obWitnessFields u ps Is))
    | _, _ => pure (Json.mkObj base)
  | _ => throw s!"unknown op {op}"

end EAO.Driver
