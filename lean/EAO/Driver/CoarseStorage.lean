import EAO.Driver.Codec
import EAO.Driver.Storage
import EAO.Driver.CoarseBuild
import EAO.Model.CoarseStorage
/-!
# EAO.Driver.CoarseStorage — line-protocol handler for the storage with a coarse asset frequency
(not part of the model)

op `coarse_storage` (Storage with `freq`).

Request:
  `ref`    = the FULL grid of the portfolio {pts, idx, dt, Dt, df} (df = the asset's discount factors),
  `coarse` = the asset's coarse restricted grid {grid: {pts, idx, dt, Dt, df}, minor: [[i…]…]},
  `prices` = {key: [r…]} over the full grid,
  `params` = as for `storage` of `EAO.Driver.Storage` (`blocks` = positions among the COARSE steps),
  optional `cuts`: [i…] (+ `freqA`, `freqP` seconds of the two frequencies): the coarse `date_range`; then the model
           also builds the coarse grid itself (`coarseOf`, `mkCoarseStorageG`) and reports whether it is the one given
           and whether the builder's answer is the same; `coarse` may be omitted then (the guard `freq_a >= freq_p`
           fails before a coarse grid exists),
  optional `fine`: true — also return the fine problem the theorems compare with (`fineStorage`),
  optional `readout`: {mapping: [map row…], x: [r…], T: n} — also return the reported series of
           `Storage.fill_level` / `io.extract_output` for that (portfolio) mapping and solution.

Answer: `{"problem": asset problem}` | `{"error": class}`, plus
  `coarsen`: "same" | "differs" | error class, `from_cuts`: "same" | "differs"   (only with `cuts` and `coarse`),
  `coarse_model`: {grid, minor} the model's own coarse grid where it differs,
  `fine`: {"problem": …} | {"error": class}, `owner`: [i…], `weights`: [r…], `cum_weights`: [r…], `fine_grid`: grid,
  `fine_blocks`: [i…] | null   (only with `fine`),
  `readout`: {fill_level: [r]*T, charge: [r]*T, discharge: [r]*T}   (only with `readout`).
-/
open Lean EAO
namespace EAO.Driver

def handleCoarseStorage (op : String) (j : Json) : Option (Except String Json) :=
  if op != "coarse_storage" then none else some <| do
  let ref ← field j "ref" getGrid
  let cgO ← fieldOpt j "coarse" getCoarse
  let prices ← field j "prices" getPrices
  let p ← field j "params" getStorageP
  let fullT := ref.T
  let cuts ← fieldOpt j "cuts" getInts
  let fa := (← fieldOpt j "freqA" Json.getNat?).getD 1
  let fp := (← fieldOpt j "freqP" Json.getNat?).getD 1
  let wantFine := (← fieldOpt j "fine" Json.getBool?).getD false
  let ro ← fieldOpt j "readout" pure
  let answer (r : Except BuildError AssetProblem) (rG : Option (Except BuildError AssetProblem)) : List (String × Json) :=
    (match r with
      | .ok a => [("problem", jAsset a)]
      | .error e => [("error", Json.str e.toString)]) ++
    (match rG with
      | some g => [("from_cuts", Json.str (if (jBuild g).compress == (jBuild r).compress then "same" else "differs"))]
      | none => [])
  match cgO, cuts with
  | some cg, _ =>
    let coarsenInfo : List (String × Json) := match cuts with
      | some c => (match coarseOf ref fa fp c with
          | .ok cg' => if cg' = cg then [("coarsen", Json.str "same")] else
              [("coarsen", Json.str "differs"),
               ("coarse_model", Json.mkObj [("grid", jGrid cg'.grid), ("minor", jList (jList jNat) cg'.minor)])]
          | .error e => [("coarsen", Json.str e.toString)])
      | none => []
    let fineInfo : List (String × Json) :=
      if wantFine then
        [("fine", jBuild (fineStorage p ref cg prices fullT)), ("owner", jList jNat cg.owner),
         ("weights", jRats (cg.weights ref.dt)),
         ("cum_weights", jRats ((List.range cg.owner.length).map (cumWeight cg.owner (cg.weights ref.dt)))),
         ("fine_grid", jGrid (minorGrid ref cg)),
         ("fine_blocks", match (fineStorageP p cg).blocks with | some aa => jList jNat aa | none => Json.null)]
      else []
    let roInfo ← match ro with
      | none => pure ([] : List (String × Json))
      | some rj => do
        let M ← field rj "mapping" (getList getMapRow)
        let xs ← field rj "x" getRats
        let T ← field rj "T" Json.getNat?
        let x : Vec := fun k => xs.getD k 0
        pure [("readout", Json.mkObj [("fill_level", jRats (fillLevelCoarse p M cg ref.dt T x)),
          ("charge", jRats ((List.range T).map (chargeOut p M x))),
          ("discharge", jRats ((List.range T).map (dischargeOut p M x)))])]
    let r := mkCoarseStorage p cg ref.dt prices fullT
    let rG := cuts.map fun c => mkCoarseStorageG p ref fa fp c prices
    pure (Json.mkObj (answer r rG ++ coarsenInfo ++ fineInfo ++ roInfo))
  | none, some c => pure (Json.mkObj (answer (mkCoarseStorageG p ref fa fp c prices) none))
  | none, none => throw "coarse or cuts expected"

end EAO.Driver
