import EAO.Driver.Codec
import EAO.Model.Contract
/-!
Handlers for the contract / transport builders.

Request (all ops): `grid` = restricted grid of the asset {pts, idx, dt, Dt, df}, `prices` = {key: [r…]} over
the FULL grid, `fullT` = number of steps of the full grid, `unitSec` = seconds of the main time unit
(needed by `contract`, `multi`, `ext_transport`; optional otherwise), `params`:

* `simple_contract`, `contract`, `multi`:
  {name, nodes: [s…], price: s | null, extra_costs, min_cap, max_cap: parameter (see `getParam`),
   min_take, max_take: [[start, end, "v"], …] (optional, default none)}; `multi` also has `factors`: [r…].
* `transport`, `ext_transport`:
  {name, nodes: [s…], costs_const: r, costs_key: s | null, min_cap: r, max_cap: r, efficiency: r,
   min_take, max_take}.

Answer: {"problem": asset problem} | {"error": class}.
-/
open Lean EAO
namespace EAO.Driver

def getTake (j : Json) : Except String Take := do
  let a ← j.getArr?
  if h : a.size = 3 then do
    pure (← getInt a[0], ← getInt a[1], ← getRat a[2])
  else throw "take period [start, end, value] expected"

def getTakes (j : Json) (k : String) : Except String (List Take) := do
  pure ((← fieldOpt j k (getList getTake)).getD [])

def getContractP (j : Json) : Except String ContractP := do
  pure { name := ← field j "name" Json.getStr?, nodes := ← field j "nodes" getStrs,
         price := ← fieldOpt j "price" Json.getStr?,
         extraCosts := ← field j "extra_costs" getParam,
         minCap := ← field j "min_cap" getParam, maxCap := ← field j "max_cap" getParam,
         minTake := ← getTakes j "min_take", maxTake := ← getTakes j "max_take" }

def getTransportP (j : Json) : Except String TransportP := do
  pure { name := ← field j "name" Json.getStr?, nodes := ← field j "nodes" getStrs,
         costsConst := ← field j "costs_const" getRat, costsKey := ← fieldOpt j "costs_key" Json.getStr?,
         minCap := ← field j "min_cap" getRat, maxCap := ← field j "max_cap" getRat,
         efficiency := ← field j "efficiency" getRat,
         minTake := ← getTakes j "min_take", maxTake := ← getTakes j "max_take" }

def handleContract (op : String) (j : Json) : Option (Except String Json) :=
  let known := ["simple_contract", "contract", "multi", "transport", "ext_transport"]
  if !known.contains op then none else some <| do
  let g ← field j "grid" getGrid
  let prices ← field j "prices" getPrices
  let fullT ← field j "fullT" Json.getNat?
  let unitSec := (← fieldOpt j "unitSec" Json.getNat?).getD 0
  match op with
  | "simple_contract" => do
    let p ← field j "params" getContractP
    pure (jBuild (buildSimpleContract p g prices fullT))
  | "contract" => do
    let p ← field j "params" getContractP
    if unitSec = 0 then throw "unitSec expected"
    pure (jBuild (buildContract p g prices fullT unitSec))
  | "multi" => do
    let p ← field j "params" getContractP
    let f ← field j "factors" getRats
    if unitSec = 0 then throw "unitSec expected"
    pure (jBuild (buildMulti p f g prices fullT unitSec))
  | "transport" => do
    let p ← field j "params" getTransportP
    pure (jBuild (buildTransport p g prices fullT))
  | "ext_transport" => do
    let p ← field j "params" getTransportP
    if unitSec = 0 then throw "unitSec expected"
    pure (jBuild (buildExtTransport p g prices fullT unitSec))
  | _ => throw s!"unknown op {op}"

end EAO.Driver
