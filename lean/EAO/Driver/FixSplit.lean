import EAO.Driver.Codec
import EAO.Model.FixSplit
/-!
# EAO.Driver.FixSplit — line-protocol handler for `fix_time_window` in the split set-up (not part of the model)

op `fix_split` (rationals "p/q", instants integer seconds):

`{T: n (steps of the whole grid), pts: [instant] (points of the whole grid),
  window: {"mask": [bool]} | {"idx": [int]} | {"floats": true} | {"date": instant} | {"other": true},
  xprev: [r] (the whole previous solution),
  intervals: [{steps: [i] (tmp_I, original steps; [] = interval without step), pts: [instant],
               problem: Problem (as for `assemble`/`fix`; the interval problem WITHOUT window, local steps)}]}`
→
`{result: {"error": "index" | "assertion" | "value"} |
          {"intervals": [{l: [r], u: [r], nodal: [[t, node]], fixed: [j] (variables pinned, local numbering)}]},
  steps: [t] (`windowSteps`: the window in original steps),
  offsets: [n] (`len_res` at every contributing interval), kept: [k] (positions of the contributing intervals),
  block: {l, u, fixed} (`fixWindow (splitProblem ivs) steps xprev`: the block sum fixed with original steps),
  valid: bool (`FixI.valid T`)}`
-/
open Lean EAO
namespace EAO.Driver

def getFixI (j : Json) : Except String FixI := do
  match j.getObjVal? "mask" with
  | .ok v => pure (.mask (← getList Json.getBool? v))
  | .error _ => match j.getObjVal? "idx" with
    | .ok v => pure (.idx (← getInts v))
    | .error _ => match j.getObjVal? "date" with
      | .ok v => pure (.date (← getInt v))
      | .error _ => match j.getObjVal? "floats" with
        | .ok _ => pure .floats
        | .error _ => match j.getObjVal? "other" with
          | .ok _ => pure .other
          | .error _ => throw "window: mask | idx | date | floats | other expected"

def getIntervalIn (j : Json) : Except String IntervalIn := do
  pure { steps := ← field j "steps" getNats, pts := ← field j "pts" getInts, prob := ← field j "problem" getProblem }

def handleFixSplit (op : String) (j : Json) : Option (Except String Json) :=
  if op != "fix_split" then none else some <| do
    let T ← field j "T" Json.getNat?
    let refPts ← field j "pts" getInts
    let w ← field j "window" getFixI
    let x ← field j "xprev" getRats
    let ivs ← field j "intervals" (getList getIntervalIn)
    let W := windowSteps T refPts w
    let kept := withOffsets 0 (keptIntervals ivs)
    let keptPos := ivs.zipIdx.filterMap fun (iv, k) =>
      if !iv.steps.isEmpty && !decide (iv.prob.n = 0) then some k else none
    let B := splitProblem ivs
    let FB := fixWindow B W x
    let res := match fixSplit T w x ivs with
      | .error e => Json.mkObj [("error", Json.str e.toString)]
      | .ok Qs => Json.mkObj [("intervals", jList (fun (q : (Nat × IntervalIn) × Problem) =>
          Json.mkObj [("l", jRats q.2.l), ("u", jRats q.2.u),
            ("nodal", jList (fun (p : Nat × String) => Json.arr #[jNat p.1, Json.str p.2]) q.2.nodal),
            ("fixed", jList jNat (fixedVars q.1.2.prob (localOf W q.1.2)))]) (kept.zip Qs))]
    pure (Json.mkObj [("result", res), ("steps", jList jNat W),
      ("offsets", jList jNat (kept.map (·.1))), ("kept", jList jNat keptPos),
      ("block", Json.mkObj [("l", jRats FB.l), ("u", jRats FB.u), ("fixed", jList jNat (fixedVars B W))]),
      ("valid", Json.bool (w.valid T))])

end EAO.Driver
