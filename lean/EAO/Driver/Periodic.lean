import EAO.Driver.Codec
import EAO.Model.Periodic
/-!
# EAO.Driver.Periodic — line-protocol handlers for periodicity and coarse frequency (not part of the model)

ops (instants integer seconds UTC, rationals "p/q"; modelled exceptions are answered as `{"err": "<class>"}`
INSIDE the `ok` payload):

* `step_labels`  `{pts:[i], periods:[i], durations:[i]|null, raw?: bool}` →
                 `{labels:[[dur,per,sub_per]], periods:[i], durations:[i], equal_spacing: bool}`
                 (`raw` = true: boundaries as `date_range` returned them, the model drops the early start;
                 `durations` null: whole horizon)
* `periodic`     `{problem: asset problem, labels:[[dur,per,sub_per]]}` →
                 `{problem: asset problem, out:[j], groups: n, lead:[j], generic: bool, partition: bool}`
                 (`partition`: the hypothesis of `C13.makePeriodic_is_merge` holds — `partitionCheck`)
                 (`generic`: the result equals `mergeProblem` along the final leader map — the object of `C13.merge_columns`) | `{"err":"assert"|"index"|"chain"}`
* `extend_minor` `{mapping:[row], coarse:{grid:{pts,idx,dt,Dt,df}, minor:[[i]]}, dt_fine:[r]}` →
                 `{mapping:[row]}` | `{"err":"index"}`
-/
open Lean EAO
namespace EAO.Driver

def getLabel (j : Json) : Except String (Nat × Nat × Nat) := do
  let a ← j.getArr?
  if h : a.size = 3 then do
    pure (← a[0].getNat?, ← a[1].getNat?, ← a[2].getNat?)
  else throw "label triple expected"

def jLabel (t : Nat × Nat × Nat) : Json := Json.arr #[jNat t.1, jNat t.2.1, jNat t.2.2]

def handlePeriodic (op : String) (j : Json) : Option (Except String Json) :=
  let known := ["step_labels", "periodic", "extend_minor"]
  if !known.contains op then none else some <| do
  match op with
  | "step_labels" => do
    let pts ← field j "pts" getInts
    let raw := (← fieldOpt j "raw" Json.getBool?).getD false
    let tp0 := pts.headD 0
    let fix (b : List Int) : List Int := if raw then dropEarly b tp0 else b
    let periods0 ← field j "periods" getInts
    let periods := fix periods0
    let gridEnd ← field j "end" getInt
    let durations := match (← fieldOpt j "durations" getInts) with
      | some d => fix d
      | none => fix (wholeDuration pts gridEnd)
    pure (Json.mkObj [("labels", jList jLabel (stepLabels pts periods durations)),
      ("periods", jList jInt periods), ("durations", jList jInt durations),
      ("equal_spacing", Json.bool (equalSpacing periods))])
  | "periodic" => do
    let P ← field j "problem" getAsset
    let labels ← field j "labels" (getList getLabel)
    match makePeriodic P labels with
    | .error e => pure (Json.mkObj [("err", Json.str e.toString)])
    | .ok Q =>
      let st := mergeAll P labels
      pure (Json.mkObj [("problem", jAsset Q), ("out", jList jNat st.out),
        ("groups", jNat (groupKeys P.mapping labels).length),
        ("lead", jList jNat st.leadOf), ("generic", Json.bool (agreesWithGeneric P labels)),
        ("partition", Json.bool (partitionCheck P.mapping labels))])
  | "extend_minor" => do
    let M ← field j "mapping" (getList getMapRow)
    let cgj ← j.getObjVal? "coarse"
    let g ← field cgj "grid" getGrid
    let minor ← field cgj "minor" (getList getNats)
    let dtFine ← field j "dt_fine" getRats
    match extendMinor M { grid := g, minor := minor } dtFine with
    | .error _ => pure (Json.mkObj [("err", Json.str "index")])
    | .ok M' => pure (Json.mkObj [("mapping", jList jMapRow M')])
  | _ => throw s!"unknown op {op}"

end EAO.Driver
