import EAO.Driver.Codec
import EAO.Driver.Contract
import EAO.Model.CoarseBuild
/-!
# EAO.Driver.CoarseBuild — line-protocol handlers for the builders with a coarse asset frequency
(not part of the model)

ops `coarse_contract` (SimpleContract with `freq`), `coarse_transport` (Transport with `freq`).

Request:
  `ref`    = the FULL grid of the portfolio {pts, idx, dt, Dt, df} (df = the asset's discount factors),
  `coarse` = the asset's coarse restricted grid {grid: {pts, idx, dt, Dt, df}, minor: [[i…]…]},
  `prices` = {key: [r…]} over the full grid,
  `params` = as for `simple_contract` / `transport` of `EAO.Driver.Contract` (take periods ignored),
  optional `cuts`: [i…] (+ `freqA`, `freqP` seconds of the two frequencies): the coarse `date_range`; then the
           model also builds the coarse grid itself (`coarseOf`, `build…G`) and reports whether it is the one
           given and whether the builder's answer is the same; `coarse` may be omitted then (the guard
           `freq_a >= freq_p` fails before a coarse grid exists),
  optional `fine`: true — also return the fine problem the theorems compare with (the `freq=None` core on
           `minorGrid ref coarse` with the price series replaced by its means per coarse step).

Answer: `{"problem": asset problem}` | `{"error": class}`, plus
  `coarsen`: "same" | "differs" | error class, `from_cuts`: "same" | "differs"   (only with `cuts` and `coarse`),
  `coarse_model`: {grid, minor} the model's own coarse grid where it differs (sums of non-dyadic floats: the harness
           compares it with a tolerance),
  `fine`: {"problem": …} | {"error": class}, `owner`: [i…], `weights`: [r…], `fine_grid`: grid   (only with `fine`).
-/
open Lean EAO
namespace EAO.Driver

def getCoarse (j : Json) : Except String CoarseGrid := do
  pure { grid := ← field j "grid" getGrid, minor := ← field j "minor" (getList getNats) }

def handleCoarseBuild (op : String) (j : Json) : Option (Except String Json) :=
  let known := ["coarse_contract", "coarse_transport"]
  if !known.contains op then none else some <| do
  let ref ← field j "ref" getGrid
  let cgO ← fieldOpt j "coarse" getCoarse
  let prices ← field j "prices" getPrices
  let fullT := ref.T
  let cuts ← fieldOpt j "cuts" getInts
  let fa := (← fieldOpt j "freqA" Json.getNat?).getD 1
  let fp := (← fieldOpt j "freqP" Json.getNat?).getD 1
  let wantFine := (← fieldOpt j "fine" Json.getBool?).getD false
  let coarsenInfo : List (String × Json) := match cuts, cgO with
    | some c, some cg => (match coarseOf ref fa fp c with
        | .ok cg' => if cg' = cg then [("coarsen", Json.str "same")] else
            [("coarsen", Json.str "differs"),
             ("coarse_model", Json.mkObj [("grid", jGrid cg'.grid), ("minor", jList (jList jNat) cg'.minor)])]
        | .error e => [("coarsen", Json.str e.toString)])
    | _, _ => []
  let fineInfo (cg : CoarseGrid) (r : Except BuildError AssetProblem) : List (String × Json) :=
    if wantFine then
      [("fine", jBuild r), ("owner", jList jNat cg.owner), ("weights", jRats (cg.weights ref.dt)),
       ("fine_grid", jGrid (minorGrid ref cg))]
    else []
  let answer (r : Except BuildError AssetProblem) (rG : Option (Except BuildError AssetProblem)) : List (String × Json) :=
    (match r with
      | .ok a => [("problem", jAsset a)]
      | .error e => [("error", Json.str e.toString)]) ++
    (match rG with
      | some g => [("from_cuts", Json.str (if (jBuild g).compress == (jBuild r).compress then "same" else "differs"))]
      | none => [])
  match op with
  | "coarse_contract" => do
    let p ← field j "params" getContractP
    match cgO, cuts with
    | some cg, _ =>
      let r := buildCoarseSimpleContract p cg ref.dt prices fullT
      let rG := cuts.map fun c => buildCoarseSimpleContractG p ref fa fp c prices
      pure (Json.mkObj (answer r rG ++ coarsenInfo ++ fineInfo cg (fineSimpleContract p ref cg prices fullT)))
    | none, some c => pure (Json.mkObj (answer (buildCoarseSimpleContractG p ref fa fp c prices) none))
    | none, none => throw "coarse or cuts expected"
  | "coarse_transport" => do
    let p ← field j "params" getTransportP
    match cgO, cuts with
    | some cg, _ =>
      let r := buildCoarseTransport p cg ref.dt prices fullT
      let rG := cuts.map fun c => buildCoarseTransportG p ref fa fp c prices
      pure (Json.mkObj (answer r rG ++ coarsenInfo ++ fineInfo cg (fineTransport p ref cg prices fullT)))
    | none, some c => pure (Json.mkObj (answer (buildCoarseTransportG p ref fa fp c prices) none))
    | none, none => throw "coarse or cuts expected"
  | _ => throw s!"unknown op {op}"

end EAO.Driver
