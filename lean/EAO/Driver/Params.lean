import EAO.Driver.Codec
import EAO.Model.Params
/-!
# EAO.Driver.Params — line-protocol handler for `io.get_params_tree` / `get_param` / `set_param`
(not part of the model)

A tree travels as  `null | {"b": bool} | {"i": int} | {"f": "p/q"} | {"s": string} | {"a": [tree, …]} |
{"o": [[key, tree], …]}`  (integers and floats stay different tokens, dictionaries keep their order).
A path is a JSON array of keys: a string (dictionary key) or an integer (list index, may be negative).

* `params_keys`  `{tree}`               → `{"keys": [entry, …] | null, "tree": tree}`   entry = key | [key, …]
                                          (both results of `get_params_tree` for the loaded JSON `tree`: the nested list
                                          `make_dict` returns and the copy of the tree; `null`, `null` for a scalar)
* `params_get`   `{tree, path}`         → `{"value": tree}` | `{"err": "KeyError"|"IndexError"|"TypeError"}`
* `params_set`   `{tree, path, value}`  → `{"tree": tree, "on_load_failure": "ValueError"|"TypeError"}` | `{"err": …}`
                                          (the tree `sett` leaves behind, i.e. what `json.dumps` then writes, and the
                                          exception class of the `except` branch should the loader reject it)
* `params_leaves` `{tree}`              → `{"paths": [[key, …], …], "nodup": bool}`   (the flat reading `leafPaths` and the
                                          well-formedness `nodupKeys` the theorems use)
-/
open Lean EAO EAO.Schema EAO.Params
namespace EAO.Driver

partial def getTree (j : Json) : Except String JVal := do
  if j.isNull then pure .null else
  match j.getObjVal? "b" with
  | .ok v => pure (.bool (← v.getBool?))
  | .error _ => match j.getObjVal? "i" with
    | .ok v => pure (.int (← v.getInt?))
    | .error _ => match j.getObjVal? "f" with
      | .ok v => pure (.flt (← getRat v))
      | .error _ => match j.getObjVal? "s" with
        | .ok v => pure (.str (← v.getStr?))
        | .error _ => match j.getObjVal? "a" with
          | .ok v => do
            let xs ← v.getArr?
            pure (.arr (← xs.toList.mapM getTree))
          | .error _ => match j.getObjVal? "o" with
            | .ok v => do
              let xs ← v.getArr?
              let kvs ← xs.toList.mapM fun p => do
                let a ← p.getArr?
                if h : a.size = 2 then do
                  pure ((← a[0].getStr?), (← getTree a[1]))
                else throw "pair [key, tree] expected"
              pure (.obj kvs)
            | .error _ => throw "tree: null | b | i | f | s | a | o expected"

partial def jTree : JVal → Json
  | .null => Json.null
  | .bool b => Json.mkObj [("b", Json.bool b)]
  | .int i => Json.mkObj [("i", jInt i)]
  | .flt q => Json.mkObj [("f", jRat q)]
  | .str s => Json.mkObj [("s", Json.str s)]
  | .arr xs => Json.mkObj [("a", Json.arr (xs.map jTree).toArray)]
  | .obj kvs => Json.mkObj [("o", Json.arr (kvs.map fun kv => Json.arr #[Json.str kv.1, jTree kv.2]).toArray)]

def getKey (j : Json) : Except String Key :=
  match j with
  | .str s => pure (.name s)
  | .num _ => do pure (.idx (← j.getInt?))
  | _ => throw "key: string or integer expected"

def jKey : Key → Json
  | .name s => Json.str s
  | .idx i => jInt i

def jEntry : KeyEntry → Json
  | .bare k => jKey k
  | .path ks => jList jKey ks

def jPathErr (e : PathError) : Json := Json.mkObj [("err", Json.str e.toString)]

def handleParams (op : String) (j : Json) : Option (Except String Json) :=
  let known := ["params_keys", "params_get", "params_set", "params_leaves"]
  if !known.contains op then none else some <| do
  match op with
  | "params_keys" => do
    let t ← field j "tree" getTree
    match keysOf t with
    | some ks => pure (Json.mkObj [("keys", jList jEntry ks), ("tree", jTree (treeOf t))])
    | none => pure (Json.mkObj [("keys", Json.null), ("tree", jTree (treeOf t))])
  | "params_get" => do
    let t ← field j "tree" getTree
    let p ← field j "path" (getList getKey)
    match getPath t p with
    | .ok v => pure (Json.mkObj [("value", jTree v)])
    | .error e => pure (jPathErr e)
  | "params_set" => do
    let t ← field j "tree" getTree
    let p ← field j "path" (getList getKey)
    let v ← field j "value" getTree
    match setPath t p v with
    | .ok t' => pure (Json.mkObj [("tree", jTree t'), ("on_load_failure", Json.str (loadFailure t').toString)])
    | .error e => pure (jPathErr e)
  | "params_leaves" => do
    let t ← field j "tree" getTree
    pure (Json.mkObj [("paths", jList (jList jKey) (leafPaths t)), ("nodup", Json.bool (nodupKeys t))])
  | _ => throw s!"unknown op {op}"

end EAO.Driver
