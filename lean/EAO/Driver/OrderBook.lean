import EAO.Driver.Codec
import EAO.Model.OrderBook
import EAO.Model.Readout
/-!
Handler of the line protocol for the order book.

`{"op":"orderbook", "name":s, "node":s, "full_exec":b, "grid":{pts,idx,dt,Dt,df},
  "orders":{"start":[int], "stop":[int], "capa":[rat|null], "price":[rat|null]}}`
answers `{"problem": <asset problem>}` or `{"error": <class>}` (`jBuild`), plus `"cover"`: the
covered grid positions per order.

`{"op":"orderbook_readout", … same …, "x":[rat], "T":n}` additionally evaluates the read-out models on
the stand-alone asset problem: `dispatch` (per step `0…T-1`), `dcf` (per step), `dcf_total`, `orders`
(rows of the special table).
-/
open Lean EAO
namespace EAO.Driver

def getOptRat (j : Json) : Except String (Option Rat) :=
  if j.isNull then pure none else do pure (some (← getRat j))

structure OBReq where
  name : String
  node : String
  fullExec : Bool
  g : Grid
  starts : List Int
  stops : List Int
  capas : List (Option Rat)
  prices : List (Option Rat)

def getOBReq (j : Json) : Except String OBReq := do
  let o ← j.getObjVal? "orders"
  pure { name := ← field j "name" Json.getStr?, node := ← field j "node" Json.getStr?,
         fullExec := ← field j "full_exec" Json.getBool?, g := ← field j "grid" getGrid,
         starts := ← field o "start" getInts, stops := ← field o "stop" getInts,
         capas := ← field o "capa" (getList getOptRat), prices := ← field o "price" (getList getOptRat) }

def OBReq.build (r : OBReq) : Except BuildError AssetProblem :=
  buildOrderBookRaw r.name r.node r.starts r.stops r.capas r.prices r.fullExec r.g

def handleOrderBook (op : String) (j : Json) : Option (Except String Json) :=
  if op != "orderbook" && op != "orderbook_readout" then none else some <| do
  let r ← getOBReq j
  let res := r.build
  let cover := ((r.starts.zip r.stops).map fun (s, e) =>
    jList jNat (coverPos r.g { start := s, stop := e, capa := 0, price := 0 }))
  let base := match jBuild res with
    | .obj kvs => Json.obj (kvs.insert "cover" (Json.arr cover.toArray))
    | other => other
  if op == "orderbook" then pure base else
  match res with
  | .error _ => pure base
  | .ok P => do
    let xs ← field j "x" getRats
    let T ← field j "T" Json.getNat?
    let x : Vec := fun k => xs.getD k 0
    let jSpecial (s : SpecialRow) : Json :=
      Json.arr #[Json.str s.asset, Json.str s.kind, Json.str s.name, jRat s.value, jRat s.costs]
    let extra : List (String × Json) :=
      [("dispatch", jRats ((List.range T).map fun t => dispatchOut P.mapping r.name r.node t x)),
       ("dcf", jRats ((List.range T).map fun t => dcf P.c P.mapping r.name t x)),
       ("dcf_total", jRat (dcfTotal P.c P.mapping r.name T x)),
       ("orders", jList jSpecial (orderRows P.c P.mapping r.name x))]
    pure (match base with
      | .obj kvs => Json.obj (extra.foldl (fun acc kv => acc.insert kv.1 kv.2) kvs)
      | other => other)

end EAO.Driver
