import EAO.Driver.Codec
import EAO.Model.Linked
/-!
# EAO.Driver.Linked — line-protocol handler for linked assets (not part of the model)

* `linked`  `{name, ext: [node], link: {asset1, var1, node1|null, asset2, var2, node2|null, time_back, time_forward,
              already_running}, unit_s, step_s, T, acols: k|null,  base: asset  |  inner: [asset], gridI: [i]}`
            → `{"problem": asset, "steps": [tb, tf, ar]}` | `{"error": "index"|"value"|"attribute", "steps": [tb, tf, ar]}`
  (`base` = problem captured from the real `StructuredAsset.setup_optim_problem` of the linked asset; alternatively
   `inner` = the problems captured from the wrapped assets and the grid's step indices, from which the structured problem
   is built by the model `structured`;  `acols` = number of columns of the structured problem's `A`, null when `A is None`;
   `unit_s` / `step_s` = length of the main time unit / of the grid frequency in seconds;  `T` = `timegrid.restricted.T`
   when the linking loop starts;  the three durations in main time units;  `steps` = their converted values)
-/
open Lean EAO
namespace EAO.Driver

def getLinkP (j : Json) : Except String LinkP := do
  pure { asset1 := ← field j "asset1" Json.getStr?, var1 := ← field j "var1" Json.getStr?,
         node1 := ← fieldOpt j "node1" Json.getStr?,
         asset2 := ← field j "asset2" Json.getStr?, var2 := ← field j "var2" Json.getStr?,
         node2 := ← fieldOpt j "node2" Json.getStr?,
         timeBack := ← field j "time_back" getRat, timeForward := ← field j "time_forward" getRat,
         alreadyRunning := ← field j "already_running" getRat }

def handleLinked (op : String) (j : Json) : Option (Except String Json) :=
  if op != "linked" then none else some <| do
    let name ← field j "name" Json.getStr?
    let ext ← field j "ext" getStrs
    let p ← field j "link" getLinkP
    let unitSec ← field j "unit_s" Json.getNat?
    let stepSec ← field j "step_s" Json.getNat?
    if stepSec = 0 then throw "step_s: zero"
    let T ← field j "T" Json.getNat?
    let acols ← fieldOpt j "acols" Json.getNat?
    let S ← match (← fieldOpt j "base" getAsset) with
      | some b => pure b
      | none => do
        let inner ← field j "inner" (getList getAsset)
        let gridI ← field j "gridI" getNats
        pure (structured name ext inner gridI)
    let r := resolveLink name ext p unitSec stepSec T
    let steps := ("steps", Json.arr #[jInt r.tb, jInt r.tf, jInt r.ar])
    match buildLinked S r acols with
    | .ok a => pure (Json.mkObj [("problem", jAsset a), steps])
    | .error e => pure (Json.mkObj [("error", Json.str e.toString), steps])

end EAO.Driver
