import EAO.Driver.Codec
import EAO.Driver.Contract
import EAO.Driver.OrderBook
import EAO.Driver.Scaled
import EAO.Model.WrapWindow
/-!
# EAO.Driver.WrapWindow — line-protocol handler for the window logic of the wrappers (not part of the model)

`{"op": "wrap_window", "grid": {pts, idx, dt, Dt, df}, "gs": int, "ge": int, "aware": bool, "loc": [[wall, inst], …],
  "prices": {key: [r…]}, "fullT": n, "tree": node}`

* `grid` = the FULL grid of the set-up, `gs` / `ge` = its own start / end (instants), `aware` = it has a time zone,
  `loc` = localisation table of the wall-clock times that occur (a wall-clock time not in the table stands for itself);
  `prices`, `fullT` only for leaves of kind `simple`.
* `node` = `{"kind": "leaf", "start": date|null, "end": date|null, "name": s, "node": s, "fail": class|null}`
  (stand-in builder: one variable per step of the restricted grid, or the exception `fail` after `set_timegrid`)
  | `{"kind": "simple", "start", "end", "params": contract parameters (see Driver/Contract)}`  (`buildSimpleContract`)
  | `{"kind": "orderbook", "start", "end", "name", "node", "full_exec", "orders": {start, stop, capa, price}}` (`buildOrderBookRaw`)
  | `{"kind": "scaled", "start", "end", "params": {name, node0, min_scale, max_scale, norm_scale, fix_costs}, "base": node}`
  | `{"kind": "structured", "start", "end", "name", "ext": [s…], "inner": [node…]}`;
  `date` = `{"naive": wall}` | `{"aware": inst}`.

Answer: `{"error": null|"type"|class, "problem": asset|null,                       -- literal set-up (`setupTop`)
          "trace": [{"path": [i…], "start": int|null, "end": int|null, "idx": [i…], "dt_sum": r}, …],
          "after": {"start": date|null, "end": date|null, "subs": [… same …]},     -- attributes after the call
          "pure": {"error": null|class, "problem": asset|null},                    -- pure level (`buildTop`)
          "eff": [{"path": [i…], "start": int|null, "end": int|null, "idx": [i…]}, …]}`  -- `effWin` of every object
-/
open Lean EAO EAO.WrapWindow
namespace EAO.Driver

def getWDate (j : Json) : Except String WDate := do
  match (← fieldOpt j "naive" getInt), (← fieldOpt j "aware" getInt) with
  | some w, none => pure (.naive w)
  | none, some t => pure (.aware t)
  | _, _ => throw "date: exactly one of naive / aware expected"

def getWinD (j : Json) : Except String WinD := do
  pure ((← fieldOpt j "start" getWDate), (← fieldOpt j "end" getWDate))

def buildErrorOf (s : String) : Except String BuildError :=
  match [BuildError.nanInput, .overlap, .missingPrice, .lengthMismatch, .illPosed, .notImplemented, .assertion, .index].find?
      (fun e => e.toString == s) with
  | some e => pure e
  | none => throw s!"unknown error class {s}"

partial def getWTree (prices : Prices) (fullT : Nat) (j : Json) : Except String (WTree BuildError) := do
  let w ← getWinD j
  match (← field j "kind" Json.getStr?) with
  | "leaf" => do
    let fail ← match (← fieldOpt j "fail" Json.getStr?) with
      | some s => do pure (some (← buildErrorOf s))
      | none => pure none
    pure (.leaf w (stubBuilder (← field j "name" Json.getStr?) (← field j "node" Json.getStr?) fail))
  | "simple" => do
    let p ← field j "params" getContractP
    pure (.leaf w fun g => buildSimpleContract p g prices fullT)
  | "orderbook" => do
    let o ← j.getObjVal? "orders"
    let name ← field j "name" Json.getStr?
    let node ← field j "node" Json.getStr?
    let fe ← field j "full_exec" Json.getBool?
    let starts ← field o "start" getInts
    let stops ← field o "stop" getInts
    let capas ← field o "capa" (getList getOptRat)
    let ps ← field o "price" (getList getOptRat)
    pure (.leaf w fun g => buildOrderBookRaw name node starts stops capas ps fe g)
  | "scaled" => do
    let p ← field j "params" getScaledP
    let base ← getWTree prices fullT (← j.getObjVal? "base")
    pure (.scaled w p base)
  | "structured" => do
    let inner ← (← (← j.getObjVal? "inner").getArr?).toList.mapM (getWTree prices fullT)
    pure (.structured w (← field j "name" Json.getStr?) (← field j "ext" getStrs) inner)
  | k => throw s!"unknown kind {k}"

def jOptIntW : Option Int → Json
  | none => Json.null
  | some i => jInt i

def jWDate : Option WDate → Json
  | none => Json.null
  | some (.naive w) => Json.mkObj [("naive", jInt w)]
  | some (.aware t) => Json.mkObj [("aware", jInt t)]

partial def jAfter (t : WTree BuildError) : Json :=
  Json.mkObj [("start", jWDate t.win.1), ("end", jWDate t.win.2), ("subs", jList jAfter t.subs)]

partial def allPaths (t : WTree BuildError) : List (List Nat) :=
  [] :: (t.subs.zipIdx.flatMap fun ci => (allPaths ci.1).map (ci.2 :: ·))

def handleWrapWindow (op : String) (j : Json) : Option (Except String Json) :=
  if op != "wrap_window" then none else some <| do
  let g ← field j "grid" getGrid
  let table ← field j "loc" (getList fun p => do
    let a ← p.getArr?
    if h : a.size = 2 then pure ((← getInt a[0]), (← getInt a[1])) else throw "loc: [wall, inst] expected")
  let env : Env := { g := g, gs := ← field j "gs" getInt, ge := ← field j "ge" getInt,
                     aware := ← field j "aware" Json.getBool?,
                     loc := fun w => match table.find? (fun p => p.1 == w) with
                       | some p => p.2
                       | none => w }
  let prices := (← fieldOpt j "prices" getPrices).getD []
  let fullT := (← fieldOpt j "fullT" Json.getNat?).getD g.T
  let t ← getWTree prices fullT (← j.getObjVal? "tree")
  let o := setupTop env t
  let (err, prob) := match o.res with
    | .ok P => (Json.null, jAsset P)
    | .error .type => (Json.str "type", Json.null)
    | .error (.build e) => (Json.str e.toString, Json.null)
  let jEv (ev : Ev) : Json :=
    let r := env.restricted ev.2
    Json.mkObj [("path", jList jNat ev.1), ("start", jOptIntW ev.2.1), ("end", jOptIntW ev.2.2),
      ("idx", jList jNat r.idx), ("dt_sum", jRat (activeDuration r))]
  let pure' := match buildTop env t with
    | .ok P => Json.mkObj [("error", Json.null), ("problem", jAsset P)]
    | .error e => Json.mkObj [("error", Json.str e.toString), ("problem", Json.null)]
  let jEff (q : List Nat) : Json :=
    let w := effWin env t q (env.winI t.win)
    Json.mkObj [("path", jList jNat q), ("start", jOptIntW w.1), ("end", jOptIntW w.2), ("idx", jList jNat (env.restricted w).idx)]
  pure (Json.mkObj [("error", err), ("problem", prob), ("trace", jList jEv o.trace), ("after", jAfter o.tree),
    ("pure", pure'), ("eff", jList jEff (allPaths t))])

end EAO.Driver
