import EAO.Driver.Codec
import EAO.Model.Scaled
import EAO.Model.Structured
/-!
# EAO.Driver.Scaled — line-protocol handlers for scaled and structured assets (not part of the model)

* `scaled`      `{base: asset, acols: k|null, params: {name, node0, min_scale, max_scale, norm_scale, fix_costs},
                  grid: {pts, idx, dt, Dt, df} | dt_sum: r}`
                → `{"problem": asset}` | `{"error": "value"|"index"|"assert"}`
  (`"assert"`: the constructor's assertions on the parameters; with `ctor_only: true` only those are checked)
  (`base` = problem captured from the real base asset; `acols` = number of columns of its `A`, null when
   `A is None`; `grid` = restricted grid of the SCALED asset, only `dt` is used)
* `structured`  `{name, ext: [node], inner: [asset], gridI: [i]}` → `{"problem": asset}`
  (`inner` = problems captured from the inner assets while the structured asset was set up)
-/
open Lean EAO
namespace EAO.Driver

def getScaledP (j : Json) : Except String ScaledP := do
  pure { name := ← field j "name" Json.getStr?, node0 := ← field j "node0" Json.getStr?,
         minScale := ← field j "min_scale" getRat, maxScale := ← field j "max_scale" getRat,
         normScale := ← field j "norm_scale" getRat, fixCosts := ← field j "fix_costs" getRat }

def handleScaled (op : String) (j : Json) : Option (Except String Json) :=
  let known := ["scaled", "structured"]
  if !known.contains op then none else some <| do
  match op with
  | "scaled" => do
    let p ← field j "params" getScaledP
    if !p.ctorOk then return Json.mkObj [("error", Json.str "assert")]
    if (← fieldOpt j "ctor_only" Json.getBool?).getD false then return Json.mkObj [("problem", Json.null)]
    let base ← field j "base" getAsset
    let acols ← fieldOpt j "acols" Json.getNat?
    let dtSum ← match (← fieldOpt j "grid" getGrid) with
      | some g => pure (activeDuration g)
      | none => field j "dt_sum" getRat
    match buildScaledE p base dtSum acols with
    | .ok a => pure (Json.mkObj [("problem", jAsset a)])
    | .error e => pure (Json.mkObj [("error", Json.str e)])
  | "structured" => do
    let name ← field j "name" Json.getStr?
    let ext ← field j "ext" getStrs
    let inner ← field j "inner" (getList getAsset)
    let gridI ← field j "gridI" getNats
    pure (Json.mkObj [("problem", jAsset (structured name ext inner gridI))])
  | _ => throw s!"unknown op {op}"

end EAO.Driver
