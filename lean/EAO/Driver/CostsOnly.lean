import EAO.Driver.Codec
import EAO.Driver.Contract
import EAO.Driver.Storage
import EAO.Driver.OrderBook
import EAO.Driver.CHP
import EAO.Driver.Scaled
import EAO.Driver.Linked
import EAO.Driver.Periodic
import EAO.Model.CostsOnly
/-!
# EAO.Driver.CostsOnly — line-protocol handlers for the `costs_only` branch (not part of the model)

An asset is sent as a SPEC (recursive JSON object, field `kind`):

* `simple` | `contract` | `multi`:  `{kind, params: <contract params>, grid, fullT, unitSec?, factors? (multi)}`
* `transport` | `ext_transport`:     `{kind, params: <transport params>, grid, fullT, unitSec?}`
* `coarse_simple` | `coarse_transport`: `{kind, params, coarse: {grid, minor: [[i]]}, dt_fine: [r], fullT}`
* `storage`:     `{kind, params: <storage params>, grid, T}`
* `orderbook`:   `{kind, name, node, full_exec, grid, orders: {start, stop, capa: [r|null], price: [r|null]}}`
* `chp`:         `{kind, p: <chp params>, contract: <contract params>, profiles?: {...}, min_load?: {threshold, costs},
                   grid, fullT, unit_s, step_s}`      (CHPAsset / Plant / CHPAsset_with_min_load_costs)
* `scaled`:      `{kind, params: <scaled params>, base: spec, dt_sum: r}`
* `structured`:  `{kind, name, ext: [node], inner: [spec], gridI: [i]}`
* `linked`:      `{kind, name, ext, inner, gridI, link: <link params>, unit_s, step_s, T, acols: k|null}`
* `periodic`:    `{kind, spec: spec, labels: [[dur, per, sub_per]]}`

(parameter encodings as in the handlers of the single builders: `EAO/Driver/Contract.lean`, `Storage.lean`,
`OrderBook.lean`, `CHP.lean`, `Scaled.lean`, `Linked.lean`; grids `{pts, idx, dt, Dt, df}`)

ops:

* `costs_only`   `{spec, prices, full?: bool}` →
      `{"c": [r]}` | `{"error": class}`, plus `"periodic_free": bool`, and with `full: true` also
      `"full": {"c": [r], "nl": k}` | `{"error": class}` — cost vector and number of bounds of `CSpec.build`
* `cost_samples` `{specs: [spec], samples: [prices], gridI: [i], skip: [node], full?: bool}` →
      `{"samples": [[r]]}` | `{"error": class}`, and with `full: true` also
      `"problems": [{"c": [r]} | {"error": class}]` — per sample the cost vector of the ASSEMBLED full problem
      (`portfolioProblem`), and `"fit": bool` — every sample has the length of the first sample's problem
-/
open Lean EAO
namespace EAO.Driver

def getProfP (m : Json) : Except String CHPProfP := do
  pure { startLo := ← fieldOpt m "start_lo" getRats, startUp := ← fieldOpt m "start_up" getRats,
         shutLo := ← fieldOpt m "shut_lo" getRats, shutUp := ← fieldOpt m "shut_up" getRats,
         startLoH := ← fieldOpt m "start_lo_h" getRats, startUpH := ← fieldOpt m "start_up_h" getRats,
         shutLoH := ← fieldOpt m "shut_lo_h" getRats, shutUpH := ← fieldOpt m "shut_up_h" getRats,
         rampFreqSec := ← field m "ramp_freq_s" Json.getNat?, sameFreq := ← field m "same_freq" Json.getBool? }

def getMinLoadP (m : Json) : Except String MinLoadP := do
  pure { threshold := ← fieldOpt m "threshold" getParam, costs := ← fieldOpt m "costs" getParam }

def getCoarseCO (j : Json) : Except String CoarseGrid := do
  pure { grid := ← field j "grid" getGrid, minor := ← field j "minor" (getList getNats) }

partial def getSpec (j : Json) : Except String CSpec := do
  let kind ← field j "kind" Json.getStr?
  match kind with
  | "simple" => pure (.simple (← field j "params" getContractP) (← field j "grid" getGrid) (← field j "fullT" Json.getNat?))
  | "contract" =>
    pure (.contract (← field j "params" getContractP) (← field j "grid" getGrid) (← field j "fullT" Json.getNat?)
      ((← fieldOpt j "unitSec" Json.getNat?).getD 3600))
  | "multi" =>
    pure (.multi (← field j "params" getContractP) (← field j "factors" getRats) (← field j "grid" getGrid)
      (← field j "fullT" Json.getNat?) ((← fieldOpt j "unitSec" Json.getNat?).getD 3600))
  | "transport" =>
    pure (.transport (← field j "params" getTransportP) (← field j "grid" getGrid) (← field j "fullT" Json.getNat?))
  | "ext_transport" =>
    pure (.extTransport (← field j "params" getTransportP) (← field j "grid" getGrid) (← field j "fullT" Json.getNat?)
      ((← fieldOpt j "unitSec" Json.getNat?).getD 3600))
  | "coarse_simple" =>
    pure (.coarseSimple (← field j "params" getContractP) (← field j "coarse" getCoarseCO) (← field j "dt_fine" getRats)
      (← field j "fullT" Json.getNat?))
  | "coarse_transport" =>
    pure (.coarseTransport (← field j "params" getTransportP) (← field j "coarse" getCoarseCO) (← field j "dt_fine" getRats)
      (← field j "fullT" Json.getNat?))
  | "storage" => pure (.storage (← field j "params" getStorageP) (← field j "grid" getGrid) (← field j "T" Json.getNat?))
  | "orderbook" => do
    let r ← getOBReq j
    pure (.orderBook r.name r.node r.starts r.stops r.capas r.prices r.fullExec r.g)
  | "chp" => do
    let q := (← fieldOpt j "profiles" getProfP).getD default
    pure (.chp (← field j "p" getCHPP) q (← fieldOpt j "min_load" getMinLoadP) (← field j "contract" getContractP)
      (← field j "grid" getGrid) (← field j "fullT" Json.getNat?) (← field j "unit_s" Json.getNat?)
      (← field j "step_s" Json.getNat?))
  | "scaled" => do
    let b ← getSpec (← j.getObjVal? "base")
    pure (.scaled (← field j "params" getScaledP) b (← field j "dt_sum" getRat))
  | "structured" => do
    let inner ← (← (← j.getObjVal? "inner").getArr?).toList.mapM getSpec
    pure (.structured (← field j "name" Json.getStr?) (← field j "ext" getStrs) inner (← field j "gridI" getNats))
  | "linked" => do
    let inner ← (← (← j.getObjVal? "inner").getArr?).toList.mapM getSpec
    let stepSec ← field j "step_s" Json.getNat?
    if stepSec = 0 then throw "step_s: zero"
    pure (.linked (← field j "name" Json.getStr?) (← field j "ext" getStrs) inner (← field j "gridI" getNats)
      (← field j "link" getLinkP) (← field j "unit_s" Json.getNat?) stepSec (← field j "T" Json.getNat?)
      (← fieldOpt j "acols" Json.getNat?))
  | "periodic" => do
    let s ← getSpec (← j.getObjVal? "spec")
    pure (.periodic s (← field j "labels" (getList getLabel)))
  | k => throw s!"unknown spec kind {k}"

def jCost (r : Except BuildError (List Rat)) : List (String × Json) :=
  match r with
  | .ok c => [("c", jRats c)]
  | .error e => [("error", Json.str e.toString)]

def handleCostsOnly (op : String) (j : Json) : Option (Except String Json) :=
  let known := ["costs_only", "cost_samples"]
  if !known.contains op then none else some <| do
  let full := (← fieldOpt j "full" Json.getBool?).getD false
  match op with
  | "costs_only" => do
    let s ← getSpec (← j.getObjVal? "spec")
    let pr ← field j "prices" getPrices
    let base := jCost (s.costsOnly pr) ++ [("periodic_free", Json.bool s.periodicFree)]
    if !full then pure (Json.mkObj base) else
    let f := match s.build pr with
      | .ok a => Json.mkObj [("c", jRats a.c), ("nl", jNat a.l.length)]
      | .error e => Json.mkObj [("error", Json.str e.toString)]
    pure (Json.mkObj (base ++ [("full", f)]))
  | "cost_samples" => do
    let specs ← (← (← j.getObjVal? "specs").getArr?).toList.mapM getSpec
    let samples ← field j "samples" (getList getPrices)
    let res := createCostSamples specs samples
    let base := match res with
      | .ok cs => [("samples", jList jRats cs)]
      | .error e => [("error", Json.str e.toString)]
    if !full then pure (Json.mkObj base) else
    let gridI ← field j "gridI" getNats
    let skip := (← fieldOpt j "skip" getStrs).getD []
    let probs := samples.map fun pr => portfolioProblem specs gridI skip pr
    let jp := probs.map fun r => match r with
      | .ok P => Json.mkObj [("c", jRats P.c), ("n", jNat P.n)]
      | .error e => Json.mkObj [("error", Json.str e.toString)]
    let fit := match res, probs.head? with
      | .ok cs, some (.ok P) => cs.all fun c => c.length == P.n
      | _, _ => false
    pure (Json.mkObj (base ++ [("problems", Json.arr jp.toArray), ("fit", Json.bool fit)]))
  | _ => throw s!"unknown op {op}"

end EAO.Driver
