import EAO.Driver.Codec
import EAO.Model.Split
/-!
# EAO.Driver.Split — line-protocol handler for the split/unsplit witness (not part of the model)

op (rationals "p/q", problems as `harness/impl.py: problem_json` writes them):

* `split_witness`  `{problem: U, intervals: [P1, P2, …], perm: [i]}` →
                   `{witness: bool, reason: "<first mismatch in words, empty when true>"}`
  `witness` is `EAO.splitWitness U [P1, …] perm` — the decidable hypothesis of `EAO.C14.split_witness_feasible`,
  `split_upper_bounds`, `split_equals_unsplit`; `perm[j]` = the variable of `U` that is variable `j` of the
  block sum of the interval problems.  `reason` is a diagnosis computed beside the model (same tests, in the
  same order, with words).
* `split_le_witness`  `{problem: U, intervals: [P1, …], perm: [i], lams: [[r, …], …]}` → `{witness: bool, reason: str}`
  `witness` is `EAO.splitLeWitness U [P1, …] perm lams` — the decidable hypothesis of
  `EAO.C14.split_le_witness_feasible`, `split_le_unsplit`, `split_solution_le_unsplit`; `lams[i]` = the multipliers
  (one per row of the block sum, in its row order; for an equality row optionally two lists one after the other)
  that combine rows of the interval problems to row `i` of the unsplit problem.  Instead of `lams` the request may
  carry `lams_sparse: [[[k, r], …], …]` (only the non-zero multipliers with their positions); the handler expands
  it to the dense lists the model checks.  With `lam_cost: [r, …]` (or `lam_cost_sparse: [[k, r], …]`) the witness is
  `EAO.splitLeWitnessC … lamC` (hypothesis of `EAO.C14.split_le_witnessC_feasible`, `split_le_unsplitC`,
  `split_solution_le_unsplitC`): the cost vectors may differ if `(c_split − c_unsplit)·x ≥ 0` is certified from the
  interval rows; the answer then carries `objective: "equal" | "certified"`.
-/
open Lean EAO
namespace EAO.Driver

def describeRow (r : Row) : String :=
  let cs := r.coeffs.take 6 |>.map fun p => s!"{ratToString p.2}*x{p.1}"
  let more := if r.coeffs.length > 6 then s!" + … ({r.coeffs.length} entries)" else ""
  let rel := match r.kind with | .U => "<=" | .L => ">=" | _ => "="
  s!"{" + ".intercalate cs}{more} {rel} {ratToString r.rhs}"

/-- interval number of a variable of the block sum -/
def intervalOf (sizes : List Nat) (j : Nat) : Nat :=
  let rec go : List Nat → Nat → Nat → Nat
    | [], _, k => k
    | s :: rest, j, k => if j < s then k else go rest (j - s) (k + 1)
  go sizes j 0

def firstDiff (a b : List Rat) : Option Nat :=
  (List.range (max a.length b.length)).find? fun j => a[j]? != b[j]?

/-- first mismatch in words; empty iff the witness is true -/
def splitReason (U : Problem) (ps : List Problem) (perm : List Nat) : String :=
  if !U.wfIdx then "the unsplit problem is ill-formed (length of the bounds, or a column / mapping index out of range)"
  else match ps.zipIdx.find? (fun q => !q.1.wfIdx) with
  | some q => s!"interval problem {q.2} is ill-formed (length of the bounds, or a column / mapping index out of range)"
  | none =>
  if !isPermOf perm U.n then
    s!"perm (length {perm.length}) is not a permutation of the {U.n} variables of the unsplit problem"
  else
    let A := U.renameAlong perm
    let B := blockSum ps
    let sizes := ps.map (·.n)
    let vec (name : String) (a b : List Rat) : Option String :=
      (firstDiff a b).map fun j =>
        let sh (v : Option Rat) := match v with | some r => ratToString r | none => "-"
        s!"{name} of split variable {j} (interval {intervalOf sizes j}, unsplit variable {perm.getD j 0}): unsplit {sh a[j]?}, split {sh b[j]?}"
    if A.n != B.n then s!"the unsplit problem has {A.n} variables, the interval problems together {B.n}"
    else match vec "cost" A.c B.c with
    | some s => s
    | none => match vec "lower bound" A.l B.l with
    | some s => s
    | none => match vec "upper bound" A.u B.u with
    | some s => s
    | none =>
      let na := A.rows.map Row.norm
      let nb := B.rows.map Row.norm
      let onlyA := na.zipIdx.filter fun q => !(nb.any fun s => q.1.same s)
      let onlyB := nb.zipIdx.filter fun q => !(na.any fun s => q.1.same s)
      let ivsOf (r : Row) : List Nat := (r.coeffs.map fun p => intervalOf sizes p.1).eraseDups
      let coupling := onlyA.filter fun q => (ivsOf q.1).length > 1
      match (coupling ++ onlyA).head? with
      | some q =>
        s!"{onlyA.length} row(s) of the unsplit problem have no counterpart among the interval rows, {coupling.length} of them over variables of several intervals ({onlyB.length} interval row(s) have none in the unsplit problem); e.g. unsplit row {q.2}, in split numbering {describeRow q.1}, over interval(s) {ivsOf q.1}"
      | none => match onlyB.head? with
      | some q =>
        let ivs := (q.1.coeffs.map fun p => intervalOf sizes p.1).eraseDups
        s!"{onlyB.length} row(s) of the interval problems have no counterpart in the unsplit problem; first: row {q.2} of the block sum, {describeRow q.1}, interval(s) {ivs}"
      | none =>
        match A.boolVars.find? (fun j => !B.boolVars.contains j) with
        | some j => s!"split variable {j} is boolean in the unsplit problem only"
        | none => match B.boolVars.find? (fun j => !A.boolVars.contains j) with
        | some j => s!"split variable {j} is boolean in the interval problem only"
        | none => ""

/-- why a single certificate fails (`ge`: the direction `≥`) -/
def certReason (a : List (Nat × Rat)) (b : Rat) (rows : List Row) (lam : List Rat) (ge : Bool) : String :=
  let L := activeRows rows lam
  if lam.length != rows.length then s!"{lam.length} multipliers for {rows.length} rows of the block sum"
  else match (rows.zip lam).zipIdx.find? (fun q => q.1.2 != 0 &&
      !(if ge then signGe q.1.1.kind q.1.2 else signLe q.1.1.kind q.1.2)) with
  | some q => s!"multiplier {ratToString q.1.2} of block row {q.2} (type {kindStr q.1.1.kind}) has the wrong sign for the direction {if ge then ">=" else "<="}"
  | none =>
    let comb := normCoeffs (combCoeffs L)
    let want := normCoeffs a
    if comb != want then
      let cols := (comb.map (·.1) ++ want.map (·.1)).eraseDups
      let get (cs : List (Nat × Rat)) (j : Nat) : Rat := ((cs.find? fun p => p.1 == j).map (·.2)).getD 0
      match cols.find? (fun j => get comb j != get want j) with
      | some j => s!"the combination of {L.length} block row(s) has coefficient {ratToString (get comb j)} at split variable {j}, the row {ratToString (get want j)}"
      | none => "the combination has other coefficients"
    else
      let r := combRhs L
      if ge then (if decide (b ≤ r) then "" else s!"right-hand side of the combination {ratToString r} is below the row's {ratToString b}")
      else (if decide (r ≤ b) then "" else s!"right-hand side of the combination {ratToString r} exceeds the row's {ratToString b}")

def impliedReason (r : Row) (rows : List Row) (lam : List Rat) : String :=
  match r.kind with
  | .U => certReason r.coeffs r.rhs rows lam false
  | .L => certReason r.coeffs r.rhs rows lam true
  | _ =>
    let (l1, l2) := if lam.length = rows.length then (lam, lam) else (lam.take rows.length, lam.drop rows.length)
    let s1 := certReason r.coeffs r.rhs rows l1 false
    if !s1.isEmpty then s!"equality row, direction <=: {s1}" else
    let s2 := certReason r.coeffs r.rhs rows l2 true
    if !s2.isEmpty then s!"equality row, direction >=: {s2}" else ""

/-- first obstacle in words; empty iff the one-sided witness is true -/
def splitLeReason (U : Problem) (ps : List Problem) (perm : List Nat) (lams : List (List Rat))
    (lamC : Option (List Rat) := none) : String :=
  if !U.wfIdx then "the unsplit problem is ill-formed (length of the bounds, or a column / mapping index out of range)"
  else match ps.zipIdx.find? (fun q => !q.1.wfIdx) with
  | some q => s!"interval problem {q.2} is ill-formed (length of the bounds, or a column / mapping index out of range)"
  | none =>
  if !isPermOf perm U.n then
    s!"perm (length {perm.length}) is not a permutation of the {U.n} variables of the unsplit problem"
  else
    let A := U.renameAlong perm
    let B := blockSum ps
    let sizes := ps.map (·.n)
    let sh (v : Option Rat) := match v with | some r => ratToString r | none => "-"
    let whereIs (j : Nat) := s!"split variable {j} (interval {intervalOf sizes j}, unsplit variable {perm.getD j 0})"
    if A.n != B.n then s!"the unsplit problem has {A.n} variables, the interval problems together {B.n}"
    else match (match lamC with
        | none => (firstDiff A.c B.c).map fun j =>
            s!"cost of {whereIs j}: unsplit {sh A.c[j]?}, split {sh B.c[j]?} — the objectives differ and no certificate for the objective was given"
        | some lc =>
          if costCert A.c B.c B.rows lc then none
          else (firstDiff A.c B.c).map fun j =>
            s!"cost of {whereIs j}: unsplit {sh A.c[j]?}, split {sh B.c[j]?} — the objectives differ and (c_split - c_unsplit).x >= 0 is not certified: {certReason (costDiff A.c B.c) 0 B.rows lc true}") with
    | some s => s
    | none =>
    if A.l.length != B.l.length || A.u.length != B.u.length then "bound vectors of different length"
    else match (List.range A.l.length).find? (fun j => !decide (A.l.getD j 0 ≤ B.l.getD j 0)) with
    | some j => s!"lower bound of {whereIs j}: unsplit {sh A.l[j]?} is tighter than split {sh B.l[j]?}"
    | none => match (List.range A.u.length).find? (fun j => !decide (B.u.getD j 0 ≤ A.u.getD j 0)) with
    | some j => s!"upper bound of {whereIs j}: unsplit {sh A.u[j]?} is tighter than split {sh B.u[j]?}"
    | none => match A.boolVars.find? (fun j => !B.boolVars.contains j) with
    | some j => s!"split variable {j} is boolean in the unsplit problem only"
    | none =>
    if lams.length != A.rows.length then s!"{lams.length} multiplier lists for {A.rows.length} rows of the unsplit problem"
    else
      let bad := (A.rows.zip lams).zipIdx.filter fun q => !rowImplied q.1.1 B.rows q.1.2
      match bad.head? with
      | some q =>
        let ivs := (q.1.1.coeffs.map fun p => intervalOf sizes p.1).eraseDups
        s!"{bad.length} row(s) of the unsplit problem are not certified to follow from the interval rows; first: unsplit row {q.2}, in split numbering {describeRow q.1.1.norm}, over interval(s) {ivs}: {impliedReason q.1.1 B.rows q.1.2}"
      | none => ""

def handleSplit (op : String) (j : Json) : Option (Except String Json) :=
  let known := ["split_witness", "split_le_witness"]
  if !known.contains op then none else some <| do
  match op with
  | "split_witness" => do
    let U ← field j "problem" getProblem
    let ps ← field j "intervals" (getList getProblem)
    let perm ← field j "perm" getNats
    let w := splitWitness U ps perm
    let reason := if w then "" else
      let s := splitReason U ps perm
      if s.isEmpty then "witness false but no mismatch found by the diagnosis (report this)" else s
    pure (Json.mkObj [("witness", Json.bool w), ("reason", Json.str reason)])
  | "split_le_witness" => do
    let U ← field j "problem" getProblem
    let ps ← field j "intervals" (getList getProblem)
    let perm ← field j "perm" getNats
    let m := (blockSum ps).rows.length
    let lams ← match (← fieldOpt j "lams" (getList getRats)) with
      | some l => pure l
      | none => do
        -- sparse form: per unsplit row the list of [position, multiplier]; positions >= m address the second list of an equality row
        let sp ← field j "lams_sparse" (getList (getList getCoeff))
        pure (sp.map fun ent =>
          let len := if ent.any (fun p => p.1 ≥ m) then 2 * m else m
          (List.range len).map fun k => ((ent.find? fun p => p.1 == k).map (·.2)).getD 0)
    let expand (ent : List (Nat × Rat)) : List Rat :=
      let len := if ent.any (fun p => p.1 ≥ m) then 2 * m else m
      (List.range len).map fun k => ((ent.find? fun p => p.1 == k).map (·.2)).getD 0
    -- optional certificate for the objective: `lam_cost` (dense) or `lam_cost_sparse`
    let lamC ← match (← fieldOpt j "lam_cost" getRats) with
      | some l => pure (some l)
      | none => do pure ((← fieldOpt j "lam_cost_sparse" (getList getCoeff)).map expand)
    let w := match lamC with
      | none => splitLeWitness U ps perm lams
      | some lc => splitLeWitnessC U ps perm lams lc
    let objective := if !w then "-" else if (U.renameAlong perm).c == (blockSum ps).c then "equal" else "certified"
    let reason := if w then "" else
      let s := splitLeReason U ps perm lams lamC
      if s.isEmpty then "witness false but no obstacle found by the diagnosis (report this)" else s
    pure (Json.mkObj [("witness", Json.bool w), ("reason", Json.str reason), ("objective", Json.str objective)])
  | _ => throw s!"unknown op {op}"

end EAO.Driver
