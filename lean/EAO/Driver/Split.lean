import EAO.Driver.Codec
import EAO.Model.Split
/-!
# EAO.Driver.Split — line-protocol handler for the split/unsplit witness (not part of the model)

op (rationals "p/q", problems as `harness/impl.py: problem_json` writes them):

* `split_witness`  `{problem: U, intervals: [P1, P2, …], perm: [i]}` →
                   `{witness: bool, reason: "<first mismatch in words, empty when true>"}`
  `witness` is `EAO.splitWitness U [P1, …] perm` — the decidable hypothesis of `EAO.C14.split_witness_feasible`,
  `split_upper_bounds`, `split_equals_unsplit`; `perm[j]` = the variable of `U` that is variable `j` of the
  block sum of the interval problems.  `reason` is a diagnosis computed beside the model (same tests, in the
  same order, with words).
-/
open Lean EAO
namespace EAO.Driver

def describeRow (r : Row) : String :=
  let cs := r.coeffs.take 6 |>.map fun p => s!"{ratToString p.2}*x{p.1}"
  let more := if r.coeffs.length > 6 then s!" + … ({r.coeffs.length} entries)" else ""
  let rel := match r.kind with | .U => "<=" | .L => ">=" | _ => "="
  s!"{" + ".intercalate cs}{more} {rel} {ratToString r.rhs}"

/-- interval number of a variable of the block sum -/
def intervalOf (sizes : List Nat) (j : Nat) : Nat :=
  let rec go : List Nat → Nat → Nat → Nat
    | [], _, k => k
    | s :: rest, j, k => if j < s then k else go rest (j - s) (k + 1)
  go sizes j 0

def firstDiff (a b : List Rat) : Option Nat :=
  (List.range (max a.length b.length)).find? fun j => a[j]? != b[j]?

/-- first mismatch in words; empty iff the witness is true -/
def splitReason (U : Problem) (ps : List Problem) (perm : List Nat) : String :=
  if !U.wfIdx then "the unsplit problem is ill-formed (length of the bounds, or a column / mapping index out of range)"
  else match ps.zipIdx.find? (fun q => !q.1.wfIdx) with
  | some q => s!"interval problem {q.2} is ill-formed (length of the bounds, or a column / mapping index out of range)"
  | none =>
  if !isPermOf perm U.n then
    s!"perm (length {perm.length}) is not a permutation of the {U.n} variables of the unsplit problem"
  else
    let A := U.renameAlong perm
    let B := blockSum ps
    let sizes := ps.map (·.n)
    let vec (name : String) (a b : List Rat) : Option String :=
      (firstDiff a b).map fun j =>
        let sh (v : Option Rat) := match v with | some r => ratToString r | none => "-"
        s!"{name} of split variable {j} (interval {intervalOf sizes j}, unsplit variable {perm.getD j 0}): unsplit {sh a[j]?}, split {sh b[j]?}"
    if A.n != B.n then s!"the unsplit problem has {A.n} variables, the interval problems together {B.n}"
    else match vec "cost" A.c B.c with
    | some s => s
    | none => match vec "lower bound" A.l B.l with
    | some s => s
    | none => match vec "upper bound" A.u B.u with
    | some s => s
    | none =>
      let na := A.rows.map Row.norm
      let nb := B.rows.map Row.norm
      let onlyA := na.zipIdx.filter fun q => !(nb.any fun s => q.1.same s)
      let onlyB := nb.zipIdx.filter fun q => !(na.any fun s => q.1.same s)
      let ivsOf (r : Row) : List Nat := (r.coeffs.map fun p => intervalOf sizes p.1).eraseDups
      let coupling := onlyA.filter fun q => (ivsOf q.1).length > 1
      match (coupling ++ onlyA).head? with
      | some q =>
        s!"{onlyA.length} row(s) of the unsplit problem have no counterpart among the interval rows, {coupling.length} of them over variables of several intervals ({onlyB.length} interval row(s) have none in the unsplit problem); e.g. unsplit row {q.2}, in split numbering {describeRow q.1}, over interval(s) {ivsOf q.1}"
      | none => match onlyB.head? with
      | some q =>
        let ivs := (q.1.coeffs.map fun p => intervalOf sizes p.1).eraseDups
        s!"{onlyB.length} row(s) of the interval problems have no counterpart in the unsplit problem; first: row {q.2} of the block sum, {describeRow q.1}, interval(s) {ivs}"
      | none =>
        match A.boolVars.find? (fun j => !B.boolVars.contains j) with
        | some j => s!"split variable {j} is boolean in the unsplit problem only"
        | none => match B.boolVars.find? (fun j => !A.boolVars.contains j) with
        | some j => s!"split variable {j} is boolean in the interval problem only"
        | none => ""

def handleSplit (op : String) (j : Json) : Option (Except String Json) :=
  let known := ["split_witness"]
  if !known.contains op then none else some <| do
  match op with
  | "split_witness" => do
    let U ← field j "problem" getProblem
    let ps ← field j "intervals" (getList getProblem)
    let perm ← field j "perm" getNats
    let w := splitWitness U ps perm
    let reason := if w then "" else
      let s := splitReason U ps perm
      if s.isEmpty then "witness false but no mismatch found by the diagnosis (report this)" else s
    pure (Json.mkObj [("witness", Json.bool w), ("reason", Json.str reason)])
  | _ => throw s!"unknown op {op}"

end EAO.Driver
