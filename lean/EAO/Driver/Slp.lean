import EAO.Driver.Codec
import EAO.Model.Slp
import EAO.Model.Translate
/-! handlers of the line protocol for the two-stage stochastic program and the robust target

* `slp`: `{problem, samples: [[rat]], futureSteps: [nat]}` or `{problem, samples, pts: [int], end: int,
  start_future: int}` → `{problem, slp: [int|null], mask: [bool], straddle: [bool], nF, futureSteps}` or `{error: class}`
* `slp_readout`: `{mapping: [maprow], slp: [int|null], x: [rat], cells: [[asset, node, step]]}`
  → `{dispatch: [rat], n_samples, index_error}` (`index_error`: some mapping label ≥ len x,
  where `res.x[i]` of the implementation raises)
* `robust_value`: `{samples: [[rat]], x: [rat], c: [rat]}` → `{min: rat|null, values: [rat], reported: rat}`
-/
open Lean EAO EAO.Driver
namespace EAO.Driver

private def vecOfL (xs : List Rat) : Vec := fun j => xs.getD j 0

private def getOptInt (j : Json) : Except String (Option Int) :=
  if j.isNull then pure none else do pure (some (← j.getInt?))

private def jOptInt : Option Int → Json
  | none => Json.null
  | some i => jInt i

def handleSlp (op : String) (j : Json) : Option (Except String Json) :=
  let known := ["slp", "slp_readout", "robust_value"]
  if !known.contains op then none else some <| do
  match op with
  | "slp" => do
    let P ← field j "problem" getProblem
    let samples ← field j "samples" (getList getRats)
    let fs ← fieldOpt j "futureSteps" getNats
    let (F, res) ← match fs with
      | some F => pure (F, makeSlp P F samples)
      | none => do
        let pts ← field j "pts" getInts
        let e ← field j "end" getInt
        let sf ← field j "start_future" getInt
        pure (futureStepsOf pts sf, makeSlpAt P pts e sf samples)
    match res with
    | .error e => pure (Json.mkObj [("error", Json.str e.toString)])
    | .ok Q =>
      let mask := slpMask P F
      pure (Json.mkObj [("problem", jProblem Q), ("slp", jList jOptInt (slpColumn P F samples.length)),
        ("mask", jList Json.bool mask), ("straddle", jList Json.bool (slpStraddle P F)), ("nF", jNat (maskCount mask)), ("futureSteps", jList jNat F)])
  | "slp_readout" => do
    let M ← field j "mapping" (getList getMapRow)
    let slp ← field j "slp" (getList getOptInt)
    let xs ← field j "x" getRats
    let x := vecOfL xs
    let cells ← field j "cells" (getList fun c => do
      let a ← c.getArr?
      if h : a.size = 3 then pure ((← a[0].getStr?), (← a[1].getStr?), (← a[2].getNat?))
      else throw "cell [asset, node, step] expected")
    pure (Json.mkObj [("dispatch", jRats (cells.map fun (a, n, t) => slpDispatchOut M slp a n t x)),
      ("n_samples", jNat (slpNSamples slp)),
      ("index_error", Json.bool (M.any fun m => decide (xs.length ≤ m.var)))])
  | "robust_value" => do
    let samples ← field j "samples" (getList getRats)
    let x := vecOfL (← field j "x" getRats)
    let c ← field j "c" getRats
    pure (Json.mkObj [("min", match robustObjective samples x with | some v => jRat v | none => Json.null),
      ("values", jRats (samples.map fun cs => - costAt cs 0 x)), ("reported", jRat (- costAt c 0 x))])
  | _ => throw s!"unknown op {op}"

end EAO.Driver
