import EAO.Driver.Codec
import EAO.Model.Assemble
import EAO.Model.Readout
import EAO.Model.Lagrange
import EAO.Model.Translate
/-! portfolio-level handlers of the line protocol -/
open Lean EAO EAO.Driver
namespace EAO.Driver

def vecOf (xs : List Rat) : Vec := fun j => xs.getD j 0

def handleCore (op : String) (j : Json) : Option (Except String Json) :=
  let known := ["ping", "assemble", "fix", "readout", "lagrangian", "translate", "check"]
  if !known.contains op then none else some <| do
  match op with
  | "ping" => pure (Json.str "pong")
  | "assemble" => do
    let as ← field j "assets" (getList getAsset)
    let gridI ← field j "gridI" getNats
    let skip ← field j "skip" getStrs
    pure (jProblem (assemble as gridI skip))
  | "fix" => do
    let P ← field j "problem" getProblem
    let steps ← field j "steps" getNats
    let xprev ← field j "xprev" getRats
    let Q := fixWindow P steps xprev
    pure (Json.mkObj [("l", jRats Q.l), ("u", jRats Q.u), ("fixed", jList jNat (fixedVars P steps))])
  | "readout" => do
    let P ← field j "problem" getProblem
    let x := vecOf (← field j "x" getRats)
    let assets ← field j "assets" (getList fun a => do
      pure ((← field a "name" Json.getStr?), (← field a "nodes" getStrs)))
    let T ← field j "T" Json.getNat?
    let dualN ← fieldOpt j "dualN" getRats
    let disp := assets.flatMap fun (a, nodes) => nodes.flatMap fun n => (List.range T).filterMap fun t =>
      let v := dispatchOut P.mapping a n t x
      if v == 0 then none else some (Json.arr #[Json.str a, Json.str n, jNat t, jRat v])
    let dcfs := assets.flatMap fun (a, _) => (List.range T).filterMap fun t =>
      let v := dcf P.c P.mapping a t x
      if v == 0 then none else some (Json.arr #[Json.str a, jNat t, jRat v])
    let prices := match dualN with
      | none => Json.null
      | some d => jList (fun (p : (Nat × String) × Rat) => Json.arr #[jNat p.1.1, Json.str p.1.2, jRat p.2]) (nodalPrices P.nodal d)
    let jSpecial (r : SpecialRow) : Json := Json.arr #[Json.str r.asset, Json.str r.kind, Json.str r.name, jRat r.value, jRat r.costs]
    let special := assets.map fun (a, _) => Json.arr #[Json.str a, jList jSpecial (specialRows P.c P.mapping a x), jList jSpecial (orderRows P.c P.mapping a x)]
    pure (Json.mkObj [("dispatch", Json.arr disp.toArray), ("dcf", Json.arr dcfs.toArray), ("prices", prices),
      ("special", Json.arr special.toArray), ("value", jRat (P.value x)),
      ("dcf_total", jList (fun (a : String × List String) => Json.arr #[Json.str a.1, jRat (dcfTotal P.c P.mapping a.1 T x)]) assets)])
  | "lagrangian" => do
    let P ← field j "problem" getProblem
    let y ← field j "y" getRats
    let signok := decide (y.length = P.rows.length) && (P.rows.zip y).all fun q => decide (q.1.SignOK q.2)
    pure (Json.mkObj [("ub", jRat (lagrangianUB P y)), ("signok", Json.bool signok)])
  | "translate" => do
    let P ← field j "problem" getProblem
    let Q := translate P
    pure (Json.mkObj [("n", jNat Q.n), ("l", jRats Q.l), ("u", jRats Q.u), ("obj", jRats Q.obj), ("bools", jList jNat Q.bools),
      ("blocks", jList (fun (b : CvxBlock) => Json.mkObj [("kind", Json.str (kindStr b.kind)), ("rows", jList jRow b.rows)]) Q.blocks)])
  | "check" => do   -- feasibility of a point, exact
    let P ← field j "problem" getProblem
    let x := vecOf (← field j "x" getRats)
    let viol := P.rows.zipIdx.filterMap fun (r, i) => if decide (r.Sat x) then none else some (jNat i)
    pure (Json.mkObj [("row_violations", Json.arr viol.toArray), ("value", jRat (P.value x))])
  | _ => throw s!"unknown op {op}"


end EAO.Driver
