import EAO.Driver.Codec
import EAO.Model.Prices
/-!
# EAO.Driver.Prices — line-protocol handler for `Timegrid.prices_to_grid` (not part of the model)

* `prices_to_grid`  `{pts:[i], aware: bool, index: {"numeric": n} | {"instants": [i], "aware": bool},
                     cols: [[name, [r|null]], …]}`
                    → `{"cols": [[name, [r|null]], …]}` | `{"err": "length"|"duplicate"|"tz"}`
* `prices_column`   `{pts:[i], rows: [[i, r|null], …]}` → `[r|null]`   (one column whose rows are sorted by instant:
                    union with the grid, interpolation in time, selection of the grid points)
* `prices_interp`   `{known: [[i, r], …], x: [i]}` → `[r|null]`        (`np.interp` on increasing instants)

Instants are integer seconds (UTC), rationals "p/q", `null` is NaN.
-/
open Lean EAO
namespace EAO.Driver

def getPriceVal (j : Json) : Except String (Option Rat) :=
  if j.isNull then pure none else do pure (some (← getRat j))

def getPriceCol (j : Json) : Except String (String × List (Option Rat)) := do
  let a ← j.getArr?
  if h : a.size = 2 then do
    pure (← a[0].getStr?, ← getList getPriceVal a[1])
  else throw "column [name, values] expected"

def getPriceIndex (j : Json) : Except String PriceIndex := do
  match j.getObjVal? "numeric" with
  | .ok v => pure (.numeric (← v.getNat?))
  | .error _ =>
    let ts ← field j "instants" getInts
    let aware ← field j "aware" Json.getBool?
    pure (.instants aware ts)

def getPriceRow (j : Json) : Except String PRow := do
  let a ← j.getArr?
  if h : a.size = 2 then do
    pure (← a[0].getInt?, ← getPriceVal a[1])
  else throw "row [instant, value] expected"

def getPriceKnown (j : Json) : Except String (Int × Rat) := do
  let a ← j.getArr?
  if h : a.size = 2 then do
    pure (← a[0].getInt?, ← getRat a[1])
  else throw "pair [instant, value] expected"

def handlePrices (op : String) (j : Json) : Option (Except String Json) :=
  let known := ["prices_to_grid", "prices_column", "prices_interp"]
  if !known.contains op then none else some <| do
  match op with
  | "prices_to_grid" => do
    let pts ← field j "pts" getInts
    let aware ← field j "aware" Json.getBool?
    let index ← field j "index" getPriceIndex
    let cols ← field j "cols" (getList getPriceCol)
    match pricesToGrid pts aware { index := index, cols := cols } with
    | .error e => pure (Json.mkObj [("err", Json.str e.toString)])
    | .ok out => pure (Json.mkObj [("cols", jList (fun c => Json.arr #[Json.str c.1, jOptRats c.2]) out)])
  | "prices_column" => do
    let pts ← field j "pts" getInts
    let rows ← field j "rows" (getList getPriceRow)
    pure (jOptRats (gridColumn pts rows))
  | "prices_interp" => do
    let kn ← field j "known" (getList getPriceKnown)
    let xs ← field j "x" getInts
    pure (jOptRats (xs.map (npInterp kn)))
  | _ => throw s!"unknown op {op}"

end EAO.Driver
