import EAO.Driver.Core
import EAO.Driver.Grid
import EAO.Driver.OrderBook
import EAO.Driver.Contract
import EAO.Driver.Storage
import EAO.Driver.Slp
import EAO.Driver.Scaled
import EAO.Driver.CHP
import EAO.Driver.Periodic
import EAO.Driver.Split
import EAO.Driver.State
import EAO.Driver.Prices
import EAO.Driver.Linked
import EAO.Driver.CoarseBuild
import EAO.Driver.SplitBuild
import EAO.Driver.Params
import EAO.Driver.WrapWindow
import EAO.Driver.CoarseStorage
import EAO.Driver.CostsOnly
import EAO.Driver.PriceSplit
import EAO.Driver.FixSplit
import EAO.Driver.SplitStorage
import EAO.Driver.ObSplit
import EAO.Driver.DstGrid
import EAO.Driver.BlockSplit
/-!
Line-protocol driver: one JSON request per line on stdin, one JSON response per line on stdout.
`{"ok": …}` or `{"err": "<class>"}`.  Unknown or ill-formed requests are answered with
`{"err":"bad-request: …"}`, never defaulted.  Handlers are tried in order; each answers only the
operations it knows.
-/
open Lean EAO EAO.Driver

def handlers : List (String → Json → Option (Except String Json)) :=
  [handleCore, handleGrid, handleOrderBook, handleContract, handleStorage, handleSlp, handleCHP, handleScaled, handlePeriodic, handleSplit, handleState, handlePrices, handleLinked, handleCoarseBuild, handleSplitBuild, handleParams, handleWrapWindow, handleCoarseStorage, handleCostsOnly, handlePriceSplit, handleFixSplit, handleSplitStorage, handleObSplit, handleDstGrid, handleBlockSplit]

def handle (j : Json) : Except String Json := do
  let op ← field j "op" Json.getStr?
  match handlers.findSome? (fun h => h op j) with
  | some r => r
  | none => throw s!"unknown op {op}"

partial def loop (h : IO.FS.Stream) (out : IO.FS.Stream) : IO Unit := do
  let line ← h.getLine
  if line.isEmpty then return ()
  let resp := match Json.parse line with
    | .error e => Json.mkObj [("err", Json.str s!"bad-request: {e}")]
    | .ok j => match handle j with
      | .ok r => Json.mkObj [("ok", r)]
      | .error e => Json.mkObj [("err", Json.str s!"bad-request: {e}")]
  out.putStrLn resp.compress
  out.flush
  loop h out

def main : IO Unit := do loop (← IO.getStdin) (← IO.getStdout)
