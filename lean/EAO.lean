import EAO.Model.Basic
import EAO.Model.Assemble
import EAO.Model.Readout
import EAO.Model.Lagrange
import EAO.Model.Translate
