#!/bin/bash
# usage: tools/try_seeded_wt.sh <seeded-id> [check ...]
#   development aid: applies seeded/<id>/patch.diff in a scratch worktree of /repo HEAD (not in /repo itself), runs the given checks
#   (default: the property of the id) against that worktree via EAO_REPO, prints the verdict lines, removes the worktree.
#   Evidence and replays of such runs go to work/ (git-ignored), never to evidence/.  C11 regenerates the schema model from the
#   source and must therefore be tried in /repo itself (tools/seeded_matrix.py).
set -u
ID="$1"; shift
CHECKS="${*:-${ID%%-*}}"
WT=/tmp/wt_$ID
rm -rf "$WT"; git -C /repo worktree prune
git -C /repo worktree add -q --detach "$WT" HEAD || exit 9
trap 'cd /; git -C /repo worktree remove --force "$WT" 2>/dev/null; rm -rf "$WT"' EXIT
git -C "$WT" apply /verif/seeded/$ID/patch.diff || { echo "$ID: patch does not apply"; exit 8; }
cd /verif
for C in $CHECKS; do
  EAO_REPO=$WT /venv/bin/python harness/check.py $C ${TIER:+--tier $TIER} 2>&1 | grep -E "^(VIOLATION|OK|TIMEOUT|  oracle|  broken|  first)" | cut -c1-400 | sed "s/^/$ID $C: /"
done
