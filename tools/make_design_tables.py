#!/usr/bin/env python3
"""regenerates the generated tables of DESIGN.md (between <!-- BEGIN x --> / <!-- END x --> markers):
findings-table (from known_findings.json), seeded-table (from seeded/RESULTS.json + meta.json), registry-table (from harness/props)"""
import json, os, re, sys
ROOT = os.path.dirname(os.path.dirname(os.path.abspath(__file__)))


def findings():
    d = json.load(open(os.path.join(ROOT, 'known_findings.json')))
    out = ['| id | properties | what failed | status |', '|----|-----------|-------------|--------|']
    for e in d['findings']:
        what = e.get('what', '').replace('|', '/')
        if e['status'] == 'fixed':
            st = 'fixed: %s' % e.get('commit', '')
        else:
            st = 'known (recorded, `when`: `%s`)' % e.get('when', '').replace('|', '/')
        out.append('| %s | %s | %s | %s |' % (e['id'], ' '.join(e['properties']), what, st))
    n_fixed = sum(1 for e in d['findings'] if e['status'] == 'fixed')
    n_known = sum(1 for e in d['findings'] if e['status'] == 'known')
    out.append('')
    out.append('%d entries: %d fixed, %d known.' % (len(d['findings']), n_fixed, n_known))
    return '\n'.join(out)


def seeded():
    p = os.path.join(ROOT, 'seeded', 'RESULTS.json')
    if not os.path.exists(p):
        return '(no results yet)'
    d = json.load(open(p))
    out = ['| id | files | own check | other checks tried |', '|----|-------|-----------|--------------------|']
    n = {'caught': 0, 'caught (no-failing-input-found)': 0, 'missed': 0}
    for sid in sorted(d['results']):
        r = d['results'][sid]
        meta = {}
        try:
            meta = json.load(open(os.path.join(ROOT, 'seeded', sid, 'meta.json')))
        except Exception:
            pass
        files = ', '.join(os.path.basename(f) for f in meta.get('files', []))
        if 'error' in r:
            out.append('| %s | %s | %s | |' % (sid, files, r['error']))
            continue
        own = sid.split('-')[0]
        o = r['checks'].get(own, {})
        n[o.get('verdict', 'missed')] = n.get(o.get('verdict', 'missed'), 0) + 1
        oth = '; '.join('%s: %s' % (k, v['verdict']) for k, v in r['checks'].items() if k != own)
        out.append('| %s | %s | %s | %s |' % (sid, files, o.get('verdict', '?'), oth))
    out.append('')
    out.append('Own check: %d caught with a failing input on the real code, %d reported through a broken tie only (`no-failing-input-found`), %d missed (base %s).' % (
        n['caught'], n['caught (no-failing-input-found)'], n['missed'], d.get('base')))
    return '\n'.join(out)


def registry():
    import importlib
    sys.path.insert(0, ROOT)
    sys.path.insert(0, '/repo')
    out = ['| id | theorems registered | still partial / not a theorem |', '|----|----:|----|']
    for i in range(1, 21):
        m = importlib.import_module('harness.props.c%02d' % i)
        part = ' / '.join(getattr(m, 'PARTIAL', [])).replace('|', '/') or '—'
        out.append('| %s | %d | %s |' % (m.ID, len(m.THEOREMS), part))
    return '\n'.join(out)


def main():
    p = os.path.join(ROOT, 'DESIGN.md')
    s = open(p).read()
    for name, fn in (('findings-table', findings), ('seeded-table', seeded), ('registry-table', registry)):
        b, e = '<!-- BEGIN %s -->' % name, '<!-- END %s -->' % name
        if b in s and e in s:
            try:
                body = fn()
            except Exception as ex:
                print('skip', name, ex)
                continue
            s = s[:s.index(b) + len(b)] + '\n' + body + '\n' + s[s.index(e):]
    open(p, 'w').write(s)


if __name__ == '__main__':
    main()
