#!/bin/bash
# usage: tools/validate_mutant.sh <Cxx> <k>   -- validates /tmp/mut/<Cxx>_out/mut<k>.diff in a scratch worktree of /repo HEAD and stores it under seeded/
set -u
P="$1"; K="$2"
SRC=/tmp/mut/${P}_out
WT=/tmp/val_${P}_${K}
OUT=/verif/seeded/${P}-${K}
rm -rf "$WT"; git -C /repo worktree prune
git -C /repo worktree add -q --detach "$WT" HEAD || exit 9
cleanup() { git -C /repo worktree remove --force "$WT" 2>/dev/null; rm -rf "$WT"; }
trap cleanup EXIT
cd "$WT"
r1=$(PYTHONPATH=$WT timeout 600 /venv/bin/python $SRC/demo$K.py >/tmp/val_${P}_${K}.pristine.log 2>&1; echo $?)
git apply "$SRC/mut$K.diff" 2>/tmp/val_${P}_${K}.apply.log || { echo "$P-$K: patch does not apply to HEAD"; exit 8; }
r2=$(PYTHONPATH=$WT timeout 600 /venv/bin/python $SRC/demo$K.py >/tmp/val_${P}_${K}.mutant.log 2>&1; echo $?)
r3=$(timeout 1200 /venv/bin/python -m pytest -q -p no:cacheprovider -n 4 tests >/tmp/val_${P}_${K}.suite.log 2>&1; echo $?)
suite=$(tail -1 /tmp/val_${P}_${K}.suite.log)
echo "$P-$K: demo pristine exit=$r1, demo mutant exit=$r2, suite exit=$r3 ($suite)"
if [ "$r1" = "0" ] && [ "$r2" != "0" ] && [ "$r3" = "0" ]; then
  mkdir -p "$OUT"
  cp "$SRC/mut$K.diff" "$OUT/patch.diff"; cp "$SRC/demo$K.py" "$OUT/demo.py"
  python3 - "$SRC/meta$K.json" "$OUT/meta.json" "$P" "$suite" <<'PY'
import json, sys
src, dst, p, suite = sys.argv[1:5]
try: m = json.load(open(src))
except Exception: m = {}
m['property'] = p
m['validated'] = {'base_commit': None, 'demo_on_pristine': 'exit 0', 'demo_with_patch': 'exit != 0', 'suite_with_patch': suite,
                  'ran': 'tools/validate_mutant.sh: scratch worktree of /repo HEAD; demo; git apply; demo; pytest -n 4 tests'}
json.dump(m, open(dst, 'w'), indent=1)
PY
  echo "$P-$K: KEPT"
else
  echo "$P-$K: REJECTED"
fi
