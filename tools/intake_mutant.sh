#!/bin/bash
# usage: tools/intake_mutant.sh <srcdir> <k> <seeded-id> <Cxx>
#   validates <srcdir>/mut<k>.diff (+ demo<k>.py, meta<k>.json) in a scratch worktree of /repo HEAD and stores it under seeded/<seeded-id>
set -u
SRC="$1"; K="$2"; ID="$3"; P="$4"
WT=/tmp/val_$ID
OUT=/verif/seeded/$ID
HEAD=$(git -C /repo rev-parse --short HEAD)
rm -rf "$WT"; git -C /repo worktree prune
git -C /repo worktree add -q --detach "$WT" HEAD || exit 9
cleanup() { cd /; git -C /repo worktree remove --force "$WT" 2>/dev/null; rm -rf "$WT"; }
trap cleanup EXIT
cd "$WT"
r1=$(PYTHONPATH=$WT timeout 900 /venv/bin/python $SRC/demo$K.py >/tmp/val_$ID.pristine.log 2>&1; echo $?)
git apply "$SRC/mut$K.diff" 2>/tmp/val_$ID.apply.log || { echo "$ID: patch does not apply to HEAD"; exit 8; }
r2=$(PYTHONPATH=$WT timeout 900 /venv/bin/python $SRC/demo$K.py >/tmp/val_$ID.mutant.log 2>&1; echo $?)
r3=$(timeout 1500 /venv/bin/python -m pytest -q -p no:cacheprovider -n 2 tests >/tmp/val_$ID.suite.log 2>&1; echo $?)
suite=$(tail -1 /tmp/val_$ID.suite.log)
echo "$ID: demo pristine exit=$r1, demo mutant exit=$r2, suite exit=$r3 ($suite)"
if [ "$r1" = "0" ] && [ "$r2" != "0" ] && [ "$r3" = "0" ]; then
  mkdir -p "$OUT"
  cp "$SRC/mut$K.diff" "$OUT/patch.diff"; cp "$SRC/demo$K.py" "$OUT/demo.py"
  python3 - "$SRC/meta$K.json" "$OUT/meta.json" "$P" "$suite" "$HEAD" "$r2" <<'PY'
import json, sys
src, dst, p, suite, head, r2 = sys.argv[1:7]
try: m = json.load(open(src))
except Exception: m = {}
m['property'] = p
m['round'] = int(__import__('os').environ.get('ROUND', '2'))
m['validated'] = {'base_commit': head, 'demo_on_pristine': 'exit 0', 'demo_with_patch': 'exit ' + r2, 'suite_with_patch': suite, 'valid': True,
                  'ran': 'tools/intake_mutant.sh: scratch worktree of /repo HEAD; demo; git apply; demo; pytest -n 2 tests; worktree removed'}
json.dump(m, open(dst, 'w'), indent=1)
PY
  echo "$ID: KEPT"
else
  echo "$ID: REJECTED"
fi
