#!/usr/bin/env python3
"""applies every seeded/<id>/patch.diff to /repo in turn, runs the quick check of its property (and of the checks named in ALSO),
reverts, and writes seeded/RESULTS.md + RESULTS.json.  /repo must be clean and nothing else may use it meanwhile."""
import json, os, re, subprocess, sys
ROOT = os.path.dirname(os.path.dirname(os.path.abspath(__file__)))
ALSO = {'C01-1': [], 'C05-1': [], 'C06-2': [], 'C07-2': ['C14'], 'C11-1': [], 'C12-1': ['C14'], 'C13-1': [], 'C15-2': ['C05', 'C07'], 'C20-1': ['C10'],
        'C02-1': ['C10'], 'C04-2': [], 'C09-2': ['C10'], 'C10-1': [], 'C14-1': ['C01'], 'C18-1': ['C14'], 'C20-2': ['C07', 'C08'],
        'C08-4': ['C20'], 'C09-3': ['C10'], 'C10-4': ['C09'], 'C17-4': ['C16'], 'C04-3': ['C14'], 'C15-4': ['C10'], 'C20-4': ['C08'], 'C06-4': ['C12']}
only = sys.argv[1:]


def sh(cmd, **kw):
    return subprocess.run(cmd, capture_output=True, text=True, **kw)


assert sh(['git', '-C', '/repo', 'status', '--short', '--', 'eaopack']).stdout.strip() == '', '/repo not clean'
head = sh(['git', '-C', '/repo', 'rev-parse', '--short', 'HEAD']).stdout.strip()
res = {}
if os.path.exists(os.path.join(ROOT, 'seeded', 'RESULTS.json')):
    res = json.load(open(os.path.join(ROOT, 'seeded', 'RESULTS.json'))).get('results', {})
ids = sorted(d for d in os.listdir(os.path.join(ROOT, 'seeded')) if os.path.isdir(os.path.join(ROOT, 'seeded', d)))
for sid in ids:
    if only and sid not in only:
        continue
    patch = os.path.join(ROOT, 'seeded', sid, 'patch.diff')
    prop = sid.split('-')[0]
    if sh(['git', '-C', '/repo', 'apply', patch]).returncode != 0:
        res[sid] = {'error': 'patch does not apply to %s' % head}
        continue
    try:
        out = {}
        for chk in [prop] + ALSO.get(sid, []):
            p = sh(['/venv/bin/python', 'harness/check.py', chk], cwd=ROOT, timeout=3000)
            lines = [l for l in p.stdout.split('\n') if re.match(r'^(VIOLATION|OK|TIMEOUT|  oracle|  broken|  first)', l)]
            verdict = 'caught' if any(l.startswith('VIOLATION') and 'no-failing-input-found' not in l for l in lines) else (
                'caught (no-failing-input-found)' if any(l.startswith('VIOLATION') for l in lines) else 'missed')
            detail = next((l.strip()[:260] for l in lines if l.startswith('  oracle') or l.startswith('  first') or l.startswith('  broken')), '')
            out[chk] = {'verdict': verdict, 'detail': detail, 'exit': p.returncode}
            print(sid, chk, verdict, detail[:120], flush=True)
        res[sid] = {'base': head, 'checks': out}
    finally:
        sh(['git', '-C', '/repo', 'checkout', '--', '.'])
# the C11 check regenerates the schema model from the (patched) source, and every run rewrites evidence: restore both
sh(['/venv/bin/python', 'harness/schema_gen.py', '--repo', '/repo', '--out', 'lean/EAO/Generated/Schema.lean'], cwd=ROOT)
sh(['git', 'checkout', '--', 'evidence'], cwd=ROOT)
json.dump({'base': head, 'results': res}, open(os.path.join(ROOT, 'seeded', 'RESULTS.json'), 'w'), indent=1)
with open(os.path.join(ROOT, 'seeded', 'RESULTS.md'), 'w') as f:
    f.write('# Seeded changes vs checks (quick tier, VERIF_SEED=0)\n\nEach patch applied to /repo, the check(s) run, the patch reverted (`tools/seeded_matrix.py`).\n'
            '"caught" = VIOLATION with a concrete failing input on the real code; "caught (no-failing-input-found)" = the tie (correspondence / translator / hypothesis) broke and the oracles of the quick stream did not hit a failing input.\n\n')
    f.write('| id | what the change needs | check | verdict | first line of the report |\n|----|----|----|----|----|\n')
    for sid in sorted(res):
        meta = {}
        try:
            meta = json.load(open(os.path.join(ROOT, 'seeded', sid, 'meta.json')))
        except Exception:
            pass
        needs = str(meta.get('needs', ''))[:220].replace('|', '/').replace('\n', ' ')
        if 'error' in res[sid]:
            f.write('| %s | %s | – | %s | |\n' % (sid, needs, res[sid]['error']))
            continue
        for chk, o in res[sid]['checks'].items():
            f.write('| %s | %s | %s | %s | %s |\n' % (sid, needs, chk, o['verdict'], o['detail'].replace('|', '/')))
            needs = ''
