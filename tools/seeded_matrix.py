#!/usr/bin/env python3
"""runs the quick check of every seeded change's property (and of the checks named in ALSO) against the change and writes
seeded/RESULTS.md + RESULTS.json.

Each patch is applied in its OWN scratch worktree of /repo HEAD under /tmp (removed afterwards); the check runs against that
worktree through the development override EAO_REPO, so /repo itself is not touched, evidence/ is not rewritten and several
changes run in parallel.  C11 regenerates the schema model from the source it checks (through EAO_REPO from the worktree): the C11 changes run one
after the other and the schema model is regenerated from /repo afterwards.

usage: tools/seeded_matrix.py [-j N] [id ...]"""
import json, os, re, subprocess, sys
from concurrent.futures import ThreadPoolExecutor
ROOT = os.path.dirname(os.path.dirname(os.path.abspath(__file__)))
ALSO = {'C07-2': ['C14'], 'C12-1': ['C14'], 'C15-2': ['C05', 'C07'], 'C20-1': ['C10'], 'C02-1': ['C10'], 'C09-2': ['C10'], 'C14-1': ['C01'],
        'C18-1': ['C14'], 'C20-2': ['C07', 'C08'], 'C08-4': ['C20'], 'C09-3': ['C10'], 'C10-4': ['C09'], 'C17-4': ['C16'], 'C04-3': ['C14', 'C07'],
        'C15-4': ['C10'], 'C20-4': ['C08'], 'C06-4': ['C12'], 'C02-4': ['C05'], 'C12-4': ['C13'], 'C08-3': ['C14'], 'C07-3': ['C04'], 'C18-3': ['C14'],
        'C08-6': ['C06'], 'C12-6': ['C06'], 'C02-5': ['C16', 'C08'], 'C02-6': ['C16'], 'C05-5': ['C16'], 'C13-6': ['C19'], 'C16-6': ['C17'], 'C07-5': ['C16'],
        'C01-8': ['C03'], 'C04-7': ['C14'], 'C18-8': ['C10'], 'C09-7': ['C10'], 'C20-7': ['C10', 'C04'], 'C16-7': ['C10'], 'C10-8': ['C01'],
        'C02-7': ['C05'], 'C05-7': ['C02'], 'C08-7': ['C14'], 'C14-8': ['C08'], 'C07-8': ['C13'], 'C19-8': ['C13'], 'C12-7': ['C19'],
        'C17-6': ['C15'], 'C01-6': ['C17'], 'C04-5': ['C17'], 'C09-5': ['C08'], 'C08-5': ['C16'], 'C10-6': ['C09'], 'C15-5': ['C07'], 'C07-6': ['C14'], 'C14-6': ['C08']}
args = sys.argv[1:]
jobs = 4
if args[:1] == ['-j']:
    jobs = int(args[1])
    args = args[2:]
only = args


def sh(cmd, **kw):
    return subprocess.run(cmd, capture_output=True, text=True, **kw)


def verdict_of(stdout):
    lines = [l for l in stdout.split('\n') if re.match(r'^(VIOLATION|OK|TIMEOUT|  oracle|  broken|  first)', l)]
    verdict = 'caught' if any(l.startswith('VIOLATION') and 'no-failing-input-found' not in l for l in lines) else (
        'caught (no-failing-input-found)' if any(l.startswith('VIOLATION') for l in lines) else 'missed')
    detail = next((l.strip()[:260] for l in lines if l.startswith('  oracle') or l.startswith('  first') or l.startswith('  broken')), '')
    return verdict, detail


def run_wt(sid):
    prop = sid.split('-')[0]
    wt = '/tmp/wtm_' + sid
    sh(['rm', '-rf', wt])
    import time
    for attempt in range(5):    # (parallel `worktree add` calls may collide on git's lock)
        if sh(['git', '-C', '/repo', 'worktree', 'add', '-q', '--detach', wt, 'HEAD']).returncode == 0:
            break
        time.sleep(1 + attempt)
    else:
        return sid, {'error': 'worktree failed'}
    try:
        if sh(['git', '-C', wt, 'apply', os.path.join(ROOT, 'seeded', sid, 'patch.diff')]).returncode != 0:
            return sid, {'error': 'patch does not apply to %s' % head}
        out = {}
        for chk in [prop] + ALSO.get(sid, []):
            env = dict(os.environ, EAO_REPO=wt, VERIF_PROCS=str(max(4, 16 // jobs)))
            p = sh(['/venv/bin/python', 'harness/check.py', chk], cwd=ROOT, timeout=3000, env=env)
            v, d = verdict_of(p.stdout)
            out[chk] = {'verdict': v, 'detail': d, 'exit': p.returncode}
            print(sid, chk, v, d[:120], flush=True)
        return sid, {'base': head, 'checks': out}
    finally:
        sh(['git', '-C', '/repo', 'worktree', 'remove', '--force', wt])
        sh(['rm', '-rf', wt])


def run_in_repo(sid):
    prop = sid.split('-')[0]
    assert sh(['git', '-C', '/repo', 'status', '--short', '--', 'eaopack']).stdout.strip() == '', '/repo not clean'
    if sh(['git', '-C', '/repo', 'apply', os.path.join(ROOT, 'seeded', sid, 'patch.diff')]).returncode != 0:
        return sid, {'error': 'patch does not apply to %s' % head}
    try:
        out = {}
        for chk in [prop] + ALSO.get(sid, []):
            p = sh(['/venv/bin/python', 'harness/check.py', chk], cwd=ROOT, timeout=3000)
            v, d = verdict_of(p.stdout)
            out[chk] = {'verdict': v, 'detail': d, 'exit': p.returncode}
            print(sid, chk, v, d[:120], flush=True)
        return sid, {'base': head, 'checks': out}
    finally:
        sh(['git', '-C', '/repo', 'checkout', '--', '.'])


head = sh(['git', '-C', '/repo', 'rev-parse', '--short', 'HEAD']).stdout.strip()
res = {}
rj = os.path.join(ROOT, 'seeded', 'RESULTS.json')
if os.path.exists(rj):
    res = json.load(open(rj)).get('results', {})
ids = sorted(d for d in os.listdir(os.path.join(ROOT, 'seeded')) if os.path.isdir(os.path.join(ROOT, 'seeded', d)))
ids = [i for i in ids if not only or i in only]
wt_ids = [i for i in ids if not i.startswith('C11-')]
with ThreadPoolExecutor(jobs) as ex:
    for sid, r in ex.map(run_wt, wt_ids):
        res[sid] = r
c11 = [i for i in ids if i.startswith('C11-')]
if c11:
    keep = open(os.path.join(ROOT, 'evidence', 'C11.json')).read()      # keep the evidence of the clean tree
    for sid in c11:      # one after the other (they share the generated schema model), each in its own worktree like the others
        sid, r = run_wt(sid)
        res[sid] = r
    sh(['/venv/bin/python', 'harness/schema_gen.py', '--repo', '/repo', '--out', 'lean/EAO/Generated/Schema.lean'], cwd=ROOT)
    open(os.path.join(ROOT, 'evidence', 'C11.json'), 'w').write(keep)
json.dump({'base': head, 'results': res}, open(rj, 'w'), indent=1)
with open(os.path.join(ROOT, 'seeded', 'RESULTS.md'), 'w') as f:
    f.write('# Seeded changes vs checks (quick tier, VERIF_SEED=0)\n\nEach patch applied in a scratch worktree of /repo HEAD (C11: in /repo itself), the check(s) run against it, the worktree removed (`tools/seeded_matrix.py`).\n'
            '"caught" = VIOLATION with a concrete failing input on the real code; "caught (no-failing-input-found)" = the tie (correspondence / translator / hypothesis) broke and the oracles of the quick stream did not hit a failing input.\n'
            'The first check listed per change is the one of its own property; further rows are other checks tried against the same change.\n\n')
    f.write('| id | what the change needs | check | verdict | first line of the report |\n|----|----|----|----|----|\n')
    for sid in sorted(res):
        meta = {}
        try:
            meta = json.load(open(os.path.join(ROOT, 'seeded', sid, 'meta.json')))
        except Exception:
            pass
        needs = str(meta.get('needs', ''))[:220].replace('|', '/').replace('\n', ' ')
        if 'error' in res[sid]:
            f.write('| %s | %s | – | %s | |\n' % (sid, needs, res[sid]['error']))
            continue
        for chk, o in res[sid]['checks'].items():
            f.write('| %s | %s | %s | %s | %s |\n' % (sid, needs, chk, o['verdict'], o['detail'].replace('|', '/')))
            needs = ''
print('written', rj)
