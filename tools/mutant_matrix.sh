#!/bin/bash
# usage: tools/mutant_matrix.sh <Cxx> [...]   for each property: apply mut1/mut2 from /tmp/mut/<Cxx>_out (or seeded/) and run the property's own check
cd /verif
for P in "$@"; do
  for K in 1 2; do
    D=/tmp/mut/${P}_out/mut$K.diff
    [ -f seeded/$P-$K/patch.diff ] && D=seeded/$P-$K/patch.diff
    [ -f "$D" ] || continue
    if ! git -C /repo apply --check "$(realpath $D)" 2>/dev/null; then echo "$P-$K: patch does not apply"; continue; fi
    git -C /repo apply "$(realpath $D)"
    out=$(/venv/bin/python harness/check.py $P 2>&1 | grep -E "^(VIOLATION|OK|TIMEOUT|  oracle)" | cut -c1-220 | tr '\n' ' ')
    git -C /repo checkout -- .
    echo "$P-$K: $out"
  done
done
