#!/usr/bin/env python3
"""writes MANIFEST.json from the property modules present under harness/props (claimed) and a table of reasons for the rest"""
import json, os, sys, importlib
ROOT = os.path.dirname(os.path.dirname(os.path.abspath(__file__)))
sys.path.insert(0, ROOT)
props = json.loads('[' + ','.join(l for l in open(os.path.join(ROOT, 'properties.jsonl')) if l.strip()) + ']')
NOT_YET = {}
checks = []
na = []
for p in props:
    pid = p['id']
    modfile = os.path.join(ROOT, 'harness', 'props', pid.lower() + '.py')
    if not os.path.exists(modfile):
        na.append({'property_id': pid, 'reason': NOT_YET.get(pid, 'not claimed at this commit: the model, theorems and check for this property are still under construction (no technique switch intended; see DESIGN.md section 6)')})
        continue
    src = open(modfile).read()
    # light-weight read of the module constants without importing eaopack
    ns = {}
    import re
    def const(name, default):
        m = re.search(r'^%s\s*=\s*(.+?)(?=^\S)' % name, src, re.S | re.M)
        if not m:
            return default
        try:
            return eval(m.group(1), {})
        except Exception:
            return default
    theorems = const('THEOREMS', [])
    n_theorems = len(theorems)
    if not n_theorems:
        # THEOREMS is composed from lists of other modules: take the number of registered obligations from the last evidence file
        try:
            n_theorems = int(json.load(open(os.path.join(ROOT, 'evidence', pid + '.json')))['coverage']['obligations'])
        except Exception:
            n_theorems = 0
    partial = const('PARTIAL', [])
    modelled = const('MODELLED', [])
    assumptions = const('ASSUMPTIONS', [])
    expl = const('EXPLANATION', '')
    technique = const('TECHNIQUE', 'Lean 4 theorems about a hand-written executable model + correspondence check (model vs real code) + property oracle as failing-input search')
    text = ('Machine-checked proof (Lean 4.33 kernel) of %s theorems about the executable model of the anchored code, for all sizes (assets, nodes, steps, rows); '
            'the model is tied to /repo on every run by a correspondence check on generated scenarios; a property oracle on the real code supplies the concrete failing input. %s' % (n_theorems if n_theorems else 'the registered', expl))
    if partial:
        text += ' PARTIAL: ' + ' | '.join(partial)
    checks.append({
        'property_id': pid,
        'quick_cmd': '/venv/bin/python harness/check.py %s --tier quick' % pid,
        'thorough_cmd': '/venv/bin/python harness/check.py %s --tier thorough' % pid,
        'evidence_file': 'evidence/%s.json' % pid,
        'replay_cmd_template': '/venv/bin/python harness/check.py %s --replay {path}' % pid,
        'engine': 'lean-model',
        'level_claimed': {'category': 'proof', 'text': text, 'design_ref': 'DESIGN.md section 6 (%s)' % pid},
        'level_note': 'Trusted: Lean kernel; axioms audited per theorem on every run (subset of propext, Classical.choice, Quot.sound); the hand-written model is tied to the code by differential testing only (generator quality bounds it); the Python harness. '
                      + ('Assumed: ' + '; '.join(assumptions) + '. ' if assumptions else '')
                      + ('Modelled, not verified: ' + '; '.join(modelled) + '.' if modelled else ''),
        'technique': technique,
    })
man = {
    'version': 1,
    'setup_cmd': 'cd lean && (lake build || lake build eaodrv)',
    'hooks': {'guard': 'EAO_VERIF', 'enable': 'no instrumentation of /repo is needed: the harness wraps eaopack functions from outside, in its own process',
              'baseline_off_cmd': 'cd /repo && /venv/bin/python -m pytest -ra -q -p no:cacheprovider --timeout=900 --continue-on-collection-errors tests',
              'source_commits': [], 'add_only': True},
    'engines': [{'name': 'lean-model', 'path': 'lean/', 'serves_properties': [c['property_id'] for c in checks],
                 'kind_free_text': 'Lean 4 project EAO: executable model (EAO/Model), theorems (EAO/Properties, EAO/Lemmas), compiled line-protocol driver (Main.lean); Python harness harness/ runs the real eaopack code and the driver on the same scenarios'}],
    'checks': checks,
    'not_applicable': na,
    'notes': 'Genuine defects found are repaired by unguarded "fix:" commits in /repo or recorded in known_findings.json (see DESIGN.md section 7). VERIF_SEED selects the scenario stream; VERIF_PROCS the number of worker processes (default 16).',
}
json.dump(man, open(os.path.join(ROOT, 'MANIFEST.json'), 'w'), indent=1)
print('claimed', [c['property_id'] for c in checks], 'not claimed', [x['property_id'] for x in na])
