#!/bin/bash
# usage: tools/revalidate_seeded.sh <id> [...]   re-validates seeded/<id> (patch.diff, demo.py) against /repo HEAD in a scratch worktree
set -u
HEAD=$(git -C /repo rev-parse --short HEAD)
for ID in "$@"; do
  S=/verif/seeded/$ID
  WT=/tmp/reval_$ID
  rm -rf "$WT"; git -C /repo worktree prune
  git -C /repo worktree add -q --detach "$WT" HEAD || { echo "$ID: worktree failed"; continue; }
  cd "$WT"
  r1=$(PYTHONPATH=$WT timeout 900 /venv/bin/python $S/demo.py >/tmp/reval_$ID.pristine.log 2>&1; echo $?)
  if ! git apply "$S/patch.diff" 2>/tmp/reval_$ID.apply.log; then echo "$ID: patch does not apply to $HEAD"; cd /; git -C /repo worktree remove --force "$WT"; continue; fi
  r2=$(PYTHONPATH=$WT timeout 900 /venv/bin/python $S/demo.py >/tmp/reval_$ID.mutant.log 2>&1; echo $?)
  r3=$(timeout 1500 /venv/bin/python -m pytest -q -p no:cacheprovider -n 4 tests >/tmp/reval_$ID.suite.log 2>&1; echo $?)
  suite=$(tail -1 /tmp/reval_$ID.suite.log)
  cd /; git -C /repo worktree remove --force "$WT"; rm -rf "$WT"
  ok=no; [ "$r1" = "0" ] && [ "$r2" != "0" ] && [ "$r3" = "0" ] && ok=yes
  echo "$ID: base=$HEAD demo_pristine=$r1 demo_patched=$r2 suite=$r3 ($suite) valid=$ok"
  python3 - "$S/meta.json" "$HEAD" "$r1" "$r2" "$suite" "$ok" <<'PY'
import json, sys
p, head, r1, r2, suite, ok = sys.argv[1:7]
m = json.load(open(p))
m['validated'] = {'base_commit': head, 'demo_on_pristine': 'exit ' + r1, 'demo_with_patch': 'exit ' + r2, 'suite_with_patch': suite, 'valid': ok == 'yes',
                  'ran': 'tools/revalidate_seeded.sh: scratch worktree of /repo HEAD; demo.py; git apply patch.diff; demo.py; pytest -n 4 tests; worktree removed'}
json.dump(m, open(p, 'w'), indent=1)
PY
done
