#!/bin/bash
# usage: tools/try_mutant.sh <patch.diff> <Cxx> [<Cyy> ...]   -- applies the patch to /repo, runs the quick checks, reverts
set -u
patch="$1"; shift
cd /repo || exit 9
if [ -n "$(git status --short -- eaopack)" ]; then echo "repo not clean"; exit 9; fi
git apply "$patch" || { echo "patch does not apply"; exit 8; }
trap 'git -C /repo checkout -- . ' EXIT
cd /verif
for p in "$@"; do
  echo "--- $p with $(basename $(dirname $patch))/$(basename $patch)"
  /venv/bin/python harness/check.py "$p" 2>&1 | grep -E "^(VIOLATION|OK|KNOWN|TIMEOUT|  oracle|  broken|  first)" | cut -c1-400
done
