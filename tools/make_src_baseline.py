#!/venv/bin/python
"""records the fingerprints of /repo's HEAD as the baseline of harness/srcwatch.py (run after every commit to /repo;
the working tree of /repo must be clean)"""
import os, subprocess, sys
if not sys.executable.startswith('/venv/'):      # the fingerprints depend on the interpreter version: use the one the checks run with
    os.execv('/venv/bin/python', ['/venv/bin/python'] + sys.argv)
ROOT = os.path.dirname(os.path.dirname(os.path.abspath(__file__)))
sys.path.insert(0, ROOT)
from harness import srcwatch
st = subprocess.run(['git', '-C', '/repo', 'status', '--porcelain', '--untracked-files=no'], capture_output=True, text=True).stdout.strip()
if st:
    sys.exit('working tree of /repo is not clean:\n' + st)
commit = subprocess.run(['git', '-C', '/repo', 'rev-parse', '--short', 'HEAD'], capture_output=True, text=True).stdout.strip()
srcwatch.write_baseline('/repo', commit)
print('baseline written for', commit, len(srcwatch.fingerprints('/repo')), 'units')
