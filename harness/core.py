"""Check orchestration: build + audit of the Lean side, corpus replay, correspondence and oracle
runs over generated scenarios (multi-process), verdict, evidence."""
import hashlib
import importlib
import json
import multiprocessing as mp
import os
import sys
import time
import traceback

from . import lean

ROOT = lean.ROOT
REPO = os.environ.get('EAO_REPO', '/repo')
EVID = os.path.join(ROOT, 'evidence') if REPO == '/repo' else os.path.join(ROOT, 'work', 'evidence_' + os.path.basename(REPO.rstrip('/')))
CORPUS = os.path.join(ROOT, 'corpus')
WORK = os.path.join(ROOT, 'work') if REPO == '/repo' else os.path.join(ROOT, 'work', 'wt_' + os.path.basename(REPO.rstrip('/')))      # scratch: replay files of this run (git-ignored)
KNOWN = os.path.join(ROOT, 'known_findings.json')

TRUSTED_BASE = [
    'Lean 4.33.0 kernel; axioms of every registered theorem audited on each run: subset of {propext, Classical.choice, Quot.sound}; no native_decide, no bv_decide, no sorry, no added axioms',
    'hand-written Lean model tied to /repo by the correspondence check (differential testing of model vs implementation on generated scenarios; bounded by generator quality)',
    'Python harness (scenario builder, canonicaliser, comparison tolerance 1e-9 relative for values computed in floating point by the implementation)',
    'external numerical solvers (cvxpy + CLARABEL / HiGHS / SCIP): not verified; every answer used by an oracle is checked for feasibility and, where stated, by an exact Lagrangian certificate',
    'pandas calendar arithmetic (date_range, time zones) and float pow for discount factors: modelled as inputs, cross-checked numerically',
]


def scen_key(obj):
    return hashlib.sha1(json.dumps(obj, sort_keys=True, default=str).encode()).hexdigest()[:16]


# ---------------------------------------------------------------- worker side
_drv = None
_mod = None


def _init(modname):
    global _drv, _mod
    sys.path.insert(0, os.environ.get('EAO_REPO', '/repo'))
    _mod = importlib.import_module(modname)
    try:
        _drv = lean.Driver()
    except Exception:
        _drv = None


def _run(task):
    cid, scn = task
    t0 = time.time()
    global _drv
    try:
        if _drv is None:
            _drv = lean.Driver()
        r = _mod.run_case(scn, _drv)
    except Exception as e:
        tb = traceback.format_exc()
        # a crashed driver must not poison later cases
        try:
            if _drv is not None and _drv.p.poll() is not None:
                _drv = None
        except Exception:
            _drv = None
        r = {'evaluated': 1, 'nontrivial': False, 'features': ['harness-error'], 'disagreements': [],
             'violations': [], 'harness_error': '%s: %s\n%s' % (type(e).__name__, e, tb[-1500:])}
    r['cid'] = cid
    r['wall'] = time.time() - t0
    r.setdefault('scenario', scn)
    return r


# ---------------------------------------------------------------- known findings
def load_known():
    if not os.path.exists(KNOWN):
        return []
    return json.load(open(KNOWN)).get('findings', [])


def match_known(pid, viol, known):
    """a violation is covered only by a `known` entry of the same property whose oracle name matches
    and whose `when` predicate (over the violation's facts) holds"""
    for k in known:
        if k.get('status') != 'known' or pid not in k.get('properties', [k.get('property')]):
            continue
        if k.get('oracle') is not None and k.get('oracle') != viol.get('oracle'):
            continue
        facts = dict(viol.get('facts', {}))
        try:
            if eval(k.get('when', 'True'), {'__builtins__': {}}, {'f': facts, 'any': any, 'all': all, 'len': len, 'abs': abs}):
                return k
        except Exception:
            continue
    return None


def _pool_run(modname, tasks, procs, deadline):
    """runs the tasks on a pool of worker processes until the deadline; returns (results, cut_short)"""
    results = []
    if not tasks:
        return results, False
    ctx = mp.get_context('fork')
    with ctx.Pool(min(procs, max(1, len(tasks))), initializer=_init, initargs=(modname,)) as pool:
        it = pool.imap_unordered(_run, tasks, chunksize=1)
        while True:
            try:
                results.append(it.next(timeout=max(1, deadline - time.time())))
            except StopIteration:
                break
            except mp.TimeoutError:
                pool.terminate()
                return results, True
    return results, False


# ---------------------------------------------------------------- main entry
def run_property(modname, tier, seed, replay=None, procs=None):
    t_start = time.time()
    mod = importlib.import_module(modname)
    pid = mod.ID
    os.makedirs(EVID, exist_ok=True)
    os.makedirs(WORK, exist_ok=True)
    known = load_known()
    report = {'build_ok': True, 'audit': {}, 'broken': [], 'notes': []}

    # 1. (re)generate + build
    if hasattr(mod, 'pre_build'):
        try:
            report['notes'] += mod.pre_build() or []
        except Exception as e:
            report['broken'].append('pre-build (translator): %s' % e)
    # only what this property needs: its theorem modules and the driver (a broken obligation of another
    # property must not raise an alarm here)
    ok, log, tb = lean.build(sorted(set(t[0] for t in mod.THEOREMS)) + ['eaodrv'])
    report['build_s'] = round(tb, 1)
    if not ok:
        report['build_ok'] = False
        report['broken'].append('lake build failed: ' + log[-1500:])
    # 2. audit
    theorems = [t[1] for t in mod.THEOREMS]
    imports = sorted(set(t[0] for t in mod.THEOREMS))
    discharged = 0
    if ok and theorems:
        try:
            aud = lean.audit(theorems, imports)
        except Exception as e:
            aud = {t: (False, ['audit failed: %s' % e]) for t in theorems}
        for t in theorems:
            okt, ax = aud[t]
            report['audit'][t] = ax
            if okt:
                discharged += 1
            else:
                report['broken'].append('theorem %s: %s' % (t, ax))
        # every theorem DECLARED in the property's theorem modules (registered or not: helper statements, examples given names,
        # witnesses) is audited as well: none may rest on an axiom outside the three
        allthm = getattr(lean.audit, 'last_all', {}) or {}
        report['audited_all_theorems_of_modules'] = len(allthm)
        for t, ax in sorted(allthm.items()):
            if not set(ax) <= lean.ALLOWED_AXIOMS:
                report['broken'].append('theorem %s (declared in a registered module): axioms %s' % (t, ax))
    hits = lean.grep_forbidden()
    if hits:
        report['broken'].append('forbidden tokens: ' + '; '.join(hits[:5]))
    if tier == 'thorough' and ok:
        # independent re-check of the compiled theorem modules (and everything they import) by leanchecker
        import subprocess
        p = subprocess.run(['lake', 'env', 'leanchecker'] + getattr(mod, 'LEANCHECK', imports), cwd=lean.LEAN_DIR, capture_output=True, text=True)
        report['leanchecker'] = 'ok' if p.returncode == 0 else (p.stdout + p.stderr)[-500:]
        if p.returncode != 0:
            report['broken'].append('leanchecker: ' + report['leanchecker'])

    # 3. + 4. + 5. cases: corpus first, then generated
    tasks = []
    if replay:
        rp = json.load(open(replay))
        tasks.append(('replay', rp.get('scenario', rp)))
    else:
        if os.path.isdir(CORPUS):
            for f in sorted(os.listdir(CORPUS)):
                if f.endswith('.json'):
                    c = json.load(open(os.path.join(CORPUS, f)))
                    if pid in c.get('properties', []):
                        tasks.append(('corpus:' + f, c['scenario']))
        for cid, scn in mod.scenarios(seed, tier):
            tasks.append((cid, scn))
    results = []
    procs = procs or int(os.environ.get('VERIF_PROCS', '16'))
    timeout = float(os.environ.get('VERIF_TIMEOUT', '3000' if tier == 'thorough' else '900'))
    can_run = ok or not getattr(mod, 'NEEDS_DRIVER', True) or os.path.exists(lean.DRIVER)
    if can_run:
        results, timed_out = _pool_run(modname, tasks, procs, t_start + timeout)
        if timed_out:
            print('TIMEOUT property=%s after %.0fs (%d of %d cases done)' % (pid, time.time() - t_start, len(results), len(tasks)))
            write_evidence(pid, tier, seed, mod, report, results, [], [], discharged, t_start, timed_out=True)
            return 2
    # 5b. widened search: the source of the package differs from the tree this framework was last aligned with
    #     (harness/srcwatch.py) and the normal streams found nothing -> the same streams with further seeds, within a time limit
    report['source_changed'] = []
    if can_run and not replay and tier == 'quick' and os.environ.get('VERIF_WIDEN', '1') != '0':
        try:
            from . import srcwatch
            ch = srcwatch.changed(REPO)
        except Exception as e:
            ch = None
            report['notes'].append('source watch failed: %s' % e)
        if ch:
            report['source_changed'] = ch
            budget = float(os.environ.get('VERIF_WIDEN_S', '240'))
            k = 0
            while (k < int(os.environ.get('VERIF_WIDEN_SEEDS', '4')) and time.time() - t_start < budget
                   and not any(not match_known(pid, v, known) for r in results for v in r.get('violations', []))):
                k += 1
                extra = [('w%d:%s' % (k, cid), scn) for cid, scn in mod.scenarios(seed + 7919 * k, tier)]
                more, cut = _pool_run(modname, extra, procs, min(t_start + budget, t_start + timeout - 30))
                results += more
                if cut:
                    break
            report['notes'].append('widened search: %d further seed(s) of the generated streams because %d unit(s) of eaopack differ from the baseline tree: %s'
                                   % (k, len(ch), ', '.join(ch[:8])))
    # 6. verdict
    new_viol, known_hits, disagreements, herrs = [], {}, [], []
    for r in results:
        for v in r.get('violations', []):
            v.setdefault('scenario', r.get('scenario'))
            v['cid'] = r['cid']
            k = match_known(pid, v, known)
            if k:
                known_hits.setdefault(k['id'], (k, v))
            else:
                new_viol.append(v)
        for d in r.get('disagreements', []):
            if not isinstance(d, dict):
                d = {'component': 'correspondence', 'detail': str(d)}
            d['cid'] = r['cid']
            d.setdefault('scenario', r.get('scenario'))
            disagreements.append(d)
        if r.get('harness_error'):
            herrs.append({'cid': r['cid'], 'error': r['harness_error'], 'scenario': r.get('scenario')})
    rc = 0
    if new_viol:
        v = new_viol[0]
        path = os.path.join(WORK, 'replay_%s_%s.json' % (pid, scen_key(v.get('scenario'))))
        json.dump({'property': pid, 'oracle': v.get('oracle'), 'detail': v.get('detail'), 'facts': v.get('facts'),
                   'scenario': v.get('scenario'), 'seed': seed, 'n_violations': len(new_viol)}, open(path, 'w'), indent=1, default=str)
        print('VIOLATION property=%s replay=%s' % (pid, path))
        print('  oracle=%s: %s' % (v.get('oracle'), str(v.get('detail'))[:400]))
        rc = 1
    elif report['broken'] or disagreements or herrs:
        path = os.path.join(WORK, 'replay_%s_broken.json' % pid)
        json.dump({'property': pid, 'no_longer_checks': report['broken'],
                   'correspondence_disagreements': disagreements[:5], 'harness_errors': herrs[:5], 'seed': seed,
                   'note': 'the tie between model/theorems and /repo is broken; the property oracles found no failing input on the implementation'},
                  open(path, 'w'), indent=1, default=str)
        what = (report['broken'][:1] or ['correspondence %s' % d.get('component') for d in disagreements[:1]] or ['harness error'])[0]
        print('  broken: %s' % str(what)[:600])
        if disagreements:
            print('  first disagreement: %s' % str(disagreements[0].get('detail'))[:600])
        if herrs:
            print('  first harness error: %s' % herrs[0]['error'][-800:])
        print('VIOLATION property=%s replay=%s no-failing-input-found' % (pid, path))
        rc = 1
    for kid, (k, v) in sorted(known_hits.items()):
        print('KNOWN-FINDING: property=%s %s: %s' % (pid, kid, k.get('what')))
    write_evidence(pid, tier, seed, mod, report, results, new_viol, disagreements, discharged, t_start, known_hits=known_hits)
    if rc == 0:
        print('OK property=%s tier=%s seed=%d cases=%d theorems=%d/%d wall=%.0fs' % (
            pid, tier, seed, len(results), discharged, len(theorems), time.time() - t_start))
    return rc


def write_evidence(pid, tier, seed, mod, report, results, new_viol, disagreements, discharged, t_start,
                   known_hits=None, timed_out=False):
    feats = {}
    keys = set()
    evaluations = 0
    for r in results:
        evaluations += int(r.get('evaluated', 1))
        for f in r.get('features', []):
            feats[f] = feats.get(f, 0) + 1
        if r.get('nontrivial'):
            keys.add(r.get('key') or scen_key(r.get('scenario')))
    samples = []
    for r in results[:400]:
        if r.get('nontrivial') and len(samples) < 2:
            samples.append({'case': r['cid'], 'scenario': r.get('scenario'), 'observed': r.get('observed')})
    if not samples and results:
        samples.append({'case': results[0]['cid'], 'scenario': results[0].get('scenario')})
    samples.append({'obligations': [{'theorem': t[1], 'module': t[0], 'reading': t[2]} for t in mod.THEOREMS]})
    cov = {
        'obligations': len(mod.THEOREMS), 'discharged': discharged,
        'checker_cmd': 'cd lean && lake build && lake env lean <audit file with #print axioms for every registered theorem>' + (' && lake env leanchecker' if tier == 'thorough' else ''),
        'trusted_base': TRUSTED_BASE + list(getattr(mod, 'TRUSTED_EXTRA', [])),
        'theorems': {t[1]: {'reading': t[2], 'axioms': report['audit'].get(t[1])} for t in mod.THEOREMS},
        'partial': list(getattr(mod, 'PARTIAL', [])),
        'modelled_not_verified': list(getattr(mod, 'MODELLED', [])),
        'evaluations': evaluations, 'distinct_nontrivial': len(keys),
        'rule': getattr(mod, 'RULE', ''), 'samples': samples,
        'feature_histogram': dict(sorted(feats.items())),
        'correspondence_components': list(getattr(mod, 'COMPONENTS', [])),
        'correspondence_disagreements': len(disagreements),
        'known_findings_reproduced': sorted((known_hits or {}).keys()),
        'build_s': report.get('build_s'), 'broken': report['broken'], 'timed_out': timed_out,
        'explanation': getattr(mod, 'EXPLANATION', ''),
        'source_units_differing_from_baseline': report.get('source_changed', []),
        'notes': report.get('notes', []),
        'theorems_declared_in_registered_modules_audited': report.get('audited_all_theorems_of_modules'),
    }
    if 'leanchecker' in report:
        cov['leanchecker'] = report['leanchecker']
    ev = {'property_id': pid, 'tier': tier, 'seed': int(seed), 'level': 'proof', 'coverage': cov,
          'assumptions': list(getattr(mod, 'ASSUMPTIONS', [])), 'wall_s': round(time.time() - t_start, 1),
          'violations': len(new_viol) + (1 if (report['broken'] or disagreements) and not new_viol else 0)}
    json.dump(ev, open(os.path.join(EVID, pid + '.json'), 'w'), indent=1, default=str)
