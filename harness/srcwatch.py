"""Source watch: which functions of eaopack differ from the tree the committed models were last aligned with.

The correspondence and the oracles are sampling; how much they sample is a budget decision.  When the source of the package
differs from the baseline (harness/src_baseline.json, written by tools/make_src_baseline.py for the /repo HEAD the framework
was last run against), the check spends more of that budget: after its normal streams it runs the same streams with further
seeds until a time limit (core.run_property, "widened search").  This never changes a verdict by itself - a changed function
is not a violation and is not reported as one -, it only directs more of the failing-input search at trees that are not the
one already explored.  On the baseline tree nothing is widened.

A fingerprint is the sha1 of `ast.dump` of a function or class-level statement with docstrings removed, so comments, blank
lines and docstring edits do not count as changes."""
import ast
import hashlib
import json
import os
import sys

HERE = os.path.dirname(os.path.abspath(__file__))
BASELINE = os.path.join(HERE, 'src_baseline.json')


def _strip_doc(node):
    for n in ast.walk(node):
        body = getattr(n, 'body', None)
        if isinstance(n, (ast.FunctionDef, ast.AsyncFunctionDef, ast.ClassDef, ast.Module)) and body:
            if isinstance(body[0], ast.Expr) and isinstance(getattr(body[0], 'value', None), ast.Constant) and isinstance(body[0].value.value, str):
                n.body = body[1:] or [ast.Pass()]
    return node


def _h(node):
    return hashlib.sha1(ast.dump(_strip_doc(node), annotate_fields=False, include_attributes=False).encode()).hexdigest()[:16]


def fingerprints(repo):
    out = {}
    pk = os.path.join(repo, 'eaopack')
    for fn in sorted(os.listdir(pk)):
        if not fn.endswith('.py'):
            continue
        try:
            tree = ast.parse(open(os.path.join(pk, fn)).read())
        except Exception as e:          # a file that does not parse is certainly "changed"
            out[fn + '::<parse>'] = 'error:' + type(e).__name__
            continue
        rest = []
        for node in tree.body:
            if isinstance(node, (ast.FunctionDef, ast.AsyncFunctionDef)):
                out['%s::%s' % (fn, node.name)] = _h(node)
            elif isinstance(node, ast.ClassDef):
                crest = []
                for sub in node.body:
                    if isinstance(sub, (ast.FunctionDef, ast.AsyncFunctionDef)):
                        out['%s::%s.%s' % (fn, node.name, sub.name)] = _h(sub)
                    else:
                        crest.append(sub)
                out['%s::%s.<class-level>' % (fn, node.name)] = hashlib.sha1(
                    ('|'.join([ast.dump(b) for b in node.bases] + [_h(s) for s in crest])).encode()).hexdigest()[:16]
            else:
                rest.append(node)
        out[fn + '::<module-level>'] = hashlib.sha1('|'.join(_h(s) for s in rest).encode()).hexdigest()[:16]
    return out


def changed(repo):
    """names of the functions / class bodies / module bodies of eaopack that differ from the baseline (sorted);
    None when there is no baseline"""
    if not os.path.exists(BASELINE):
        return None
    bl = json.load(open(BASELINE))
    if bl.get('python') != '%d.%d' % sys.version_info[:2]:      # ast.dump differs between interpreter versions
        return None
    base = bl.get('fingerprints', {})
    now = fingerprints(repo)
    return sorted(k for k in set(base) | set(now) if base.get(k) != now.get(k))


def write_baseline(repo, commit):
    json.dump({'commit': commit, 'python': '%d.%d' % sys.version_info[:2], 'fingerprints': fingerprints(repo)}, open(BASELINE, 'w'), indent=0, sort_keys=True)
