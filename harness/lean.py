"""Access to the Lean side: build (lake), axiom audit, and the line-protocol driver process."""
import json
import os
import re
import subprocess
import time
from fractions import Fraction

ROOT = os.path.dirname(os.path.dirname(os.path.abspath(__file__)))
LEAN_DIR = os.path.join(ROOT, 'lean')
DRIVER = os.path.join(LEAN_DIR, '.lake', 'build', 'bin', 'eaodrv')
ALLOWED_AXIOMS = {'propext', 'Classical.choice', 'Quot.sound'}


def fs(x):
    """exact rational string of a float / int / Fraction"""
    f = x if isinstance(x, Fraction) else Fraction(float(x))
    return str(f.numerator) if f.denominator == 1 else '%d/%d' % (f.numerator, f.denominator)


def pf(s):
    """parse 'p/q'"""
    return Fraction(s)


def build(targets=None, timeout=1500):
    """lake build; returns (ok, log).  No-op when nothing changed."""
    cmd = ['lake', 'build'] + (targets or [])
    t0 = time.time()
    p = subprocess.run(cmd, cwd=LEAN_DIR, capture_output=True, text=True, timeout=timeout)
    return p.returncode == 0, (p.stdout + p.stderr)[-6000:], time.time() - t0


_FORBIDDEN = re.compile(r'\b(sorry|admit|native_decide|bv_decide|implemented_by)\b|^\s*axiom\s|\bunsafe\s|maxHeartbeats\s+0')


def strip_comments(src):
    # remove block comments (nested not handled beyond one level is fine: /- ... -/) and line comments
    out = []
    i = 0
    depth = 0
    n = len(src)
    while i < n:
        if src.startswith('/-', i):
            depth += 1
            i += 2
            continue
        if src.startswith('-/', i) and depth > 0:
            depth -= 1
            i += 2
            continue
        if depth == 0:
            if src.startswith('--', i):
                j = src.find('\n', i)
                i = n if j < 0 else j
                continue
            out.append(src[i])
        elif src[i] == '\n':
            out.append('\n')
        i += 1
    return ''.join(out)


def project_modules():
    """files reachable by `import EAO.…` from the library root and the driver (what `lake build` builds)"""
    seen, todo = set(), ['EAO.lean', 'Main.lean']
    while todo:
        f = todo.pop()
        p = os.path.join(LEAN_DIR, f)
        if f in seen or not os.path.exists(p):
            continue
        seen.add(f)
        for line in strip_comments(open(p).read()).split('\n'):
            m = re.match(r'\s*import\s+(EAO(\.[A-Za-z0-9_]+)*)\s*$', line)
            if m:
                todo.append(m.group(1).replace('.', '/') + '.lean')
    return sorted(seen)


def grep_forbidden():
    """forbidden tokens outside comments in all .lean files that are part of the build"""
    hits = []
    for f in project_modules():
        p = os.path.join(LEAN_DIR, f)
        src = strip_comments(open(p).read())
        for ln, line in enumerate(src.split('\n'), 1):
            if _FORBIDDEN.search(line):
                hits.append('%s:%d: %s' % (f, ln, line.strip()[:120]))
    return hits


def audit(theorems, imports, timeout=900):
    """#print axioms for each theorem; returns dict name -> (ok, axioms or error text)"""
    src = '\n'.join('import %s' % m for m in imports) + '\nimport Lean\n' + '\n'.join('#print axioms %s' % t for t in theorems) + '\n'
    # ... and the axioms of EVERY theorem declared in these modules (registered or not), enumerated by Lean itself
    src += ('open Lean Elab Command in\nrun_cmd do\n  let env ← getEnv\n  let mods : List Name := [%s]\n  let mut out : Array String := #[]\n'
            '  for (n, ci) in env.constants.toList do\n    if n.isInternal then continue\n    match env.getModuleIdxFor? n with\n'
            '    | some idx =>\n      if mods.contains env.header.moduleNames[idx.toNat]! then\n        match ci with\n'
            '        | .thmInfo _ =>\n          let ax ← Lean.collectAxioms n\n          out := out.push s!"ALLTHM {n} := {ax.toList}"\n'
            '        | _ => pure ()\n    | none => pure ()\n  for l in out do logInfo l\n') % ', '.join('`' + m for m in imports)
    path = os.path.join(LEAN_DIR, '.lake', 'audit_%d.lean' % os.getpid())
    os.makedirs(os.path.dirname(path), exist_ok=True)
    open(path, 'w').write(src)
    try:
        p = subprocess.run(['lake', 'env', 'lean', path], cwd=LEAN_DIR, capture_output=True, text=True, timeout=timeout)
    finally:
        try:
            os.remove(path)
        except OSError:
            pass
    txt = p.stdout + p.stderr
    res = {}
    allthm = {}
    for m in re.finditer(r"ALLTHM (\S+) := \[([^\]]*)\]", txt):
        allthm[m.group(1)] = [a.strip() for a in m.group(2).split(',') if a.strip()]
    audit.last_all = allthm
    for t in theorems:
        m = re.search(r"'%s' depends on axioms: \[([^\]]*)\]" % re.escape(t), txt)
        if m:
            ax = [a.strip() for a in m.group(1).replace('\n', ' ').split(',') if a.strip()]
            res[t] = (set(ax) <= ALLOWED_AXIOMS, ax)
        elif re.search(r"'%s' does not depend on any axioms" % re.escape(t), txt):
            res[t] = (True, [])
        else:
            err = [l for l in txt.split('\n') if t in l or 'error' in l][:3]
            res[t] = (False, ['unknown or failed: ' + ' | '.join(err)[:300]])
    return res


class Driver:
    """the compiled Lean model behind a one-line-in, one-line-out protocol"""

    def __init__(self):
        if not os.path.exists(DRIVER):
            raise RuntimeError('driver not built: ' + DRIVER)
        self.p = subprocess.Popen([DRIVER], stdin=subprocess.PIPE, stdout=subprocess.PIPE, text=True, bufsize=1)
        self.n = 0

    def ask(self, req):
        self.p.stdin.write(json.dumps(req) + '\n')
        self.p.stdin.flush()
        line = self.p.stdout.readline()
        if not line:
            raise RuntimeError('driver died on request op=%s' % req.get('op'))
        self.n += 1
        return json.loads(line)

    def ok(self, req):
        r = self.ask(req)
        if 'ok' not in r:
            raise RuntimeError('driver error: %s' % r.get('err'))
        return r['ok']

    def close(self):
        try:
            self.p.stdin.close()
            self.p.wait(timeout=5)
        except Exception:
            self.p.kill()
