"""Scenario <-> eaopack objects.

A scenario is a plain JSON value (so that a replay file does not depend on generator code):
  grid   : {start, end, freq, unit, tz}
  nodes  : [names]
  prices : {key: [floats]}               (already on the grid)
  assets : [asset spec]                  spec = {type, name, nodes, args, base?, inner?}
Special encodings inside args: {"$dt": iso} datetime, {"$arr": [...]} numpy array,
{"$date": iso} datetime.date, {"$idx": [iso...]} pandas DatetimeIndex, {"$darr": [iso...], "res": "D"|"s"|"us"|"ns"} numpy date array.
"""
import datetime as dt
import copy
import numpy as np
import pandas as pd
import eaopack as eao
from eaopack.portfolio import StructuredAsset, LinkedAsset, Portfolio


def dec(v):
    if isinstance(v, dict):
        if '$dt' in v:
            return pd.Timestamp(v['$dt']).to_pydatetime()
        if '$ts' in v:
            return pd.Timestamp(v['$ts'], tz=v.get('tz'))
        if '$date' in v:
            return pd.Timestamp(v['$date']).date()
        if '$arr' in v:
            return np.asarray(v['$arr'], dtype=float)
        if '$idx' in v:
            return pd.DatetimeIndex([pd.Timestamp(x) for x in v['$idx']])
        if '$darr' in v:
            return np.asarray([np.datetime64(pd.Timestamp(x), v.get('res', 'ns')) for x in v['$darr']])
        return {k: dec(x) for k, x in v.items()}
    if isinstance(v, list):
        return [dec(x) for x in v]
    return v


def make_grid(g):
    return eao.Timegrid(pd.Timestamp(g['start']).to_pydatetime(), pd.Timestamp(g['end']).to_pydatetime(),
                        freq=g['freq'], main_time_unit=g.get('unit', 'h'), timezone=g.get('tz'))


def make_nodes(names):
    return {n: eao.Node(n) for n in names}


def build_asset(spec, nodes):
    t = spec['type']
    args = dec(copy.deepcopy(spec.get('args', {})))
    name = spec['name']
    if t == 'ScaledAsset':
        base = build_asset(spec['base'], nodes)
        return eao.assets.ScaledAsset(name=name, base_asset=base, **args)
    nn = [nodes[n] for n in spec['nodes']]
    if t == 'StructuredAsset':
        inner = [build_asset(s, nodes) for s in spec['inner']]
        return StructuredAsset(name=name, nodes=nn, portfolio=Portfolio(inner), **args)
    if t == 'LinkedAsset':
        inner = [build_asset(s, nodes) for s in spec['inner']]
        return LinkedAsset(name=name, nodes=nn, portfolio=Portfolio(inner), **args)
    cls = getattr(eao.assets, t)
    if t in ('SimpleContract', 'Contract', 'OrderBook') or (t == 'Storage' and len(nn) == 1):
        return cls(name=name, nodes=nn[0], **args)
    return cls(name=name, nodes=nn, **args)


def build(scn):
    """returns (portfolio, timegrid, prices dict of numpy arrays, nodes dict)"""
    tg = make_grid(scn['grid'])
    nodes = make_nodes(scn['nodes'])
    assets = [build_asset(s, nodes) for s in scn['assets']]
    prices = {k: np.asarray(v, dtype=float) for k, v in scn.get('prices', {}).items()}
    return Portfolio(assets), tg, prices, nodes


def rename_scenario(scn, amap, nmap):
    """apply injective renamings of asset and node names (C09)"""
    s = copy.deepcopy(scn)
    s['nodes'] = [nmap.get(n, n) for n in s['nodes']]

    def ren(a):
        a['name'] = amap.get(a['name'], a['name'])
        if 'nodes' in a:
            a['nodes'] = [nmap.get(n, n) for n in a['nodes']]
        if 'base' in a:
            ren(a['base'])
        for b in a.get('inner', []):
            ren(b)
    for a in s['assets']:
        ren(a)
    return s


def all_asset_specs(scn):
    out = []

    def rec(a):
        out.append(a)
        if 'base' in a:
            rec(a['base'])
        for b in a.get('inner', []):
            rec(b)
    for a in scn['assets']:
        rec(a)
    return out
