#!/usr/bin/env python3
"""Source -> Lean translator for property C11 (JSON round trip).

Parses /repo/eaopack/{basic_classes,assets,portfolio,serialization}.py with `ast` (eaopack is NOT
imported) and emits `EAO/Generated/Schema.lean` with `def EAO.Schema.classes : List ClassSchema`:
for every class the serialiser knows (the classes matched by the `isinstance` branches of
`json_serialize_objects` and all their subclasses)

* the keyword parameters `Cls(**obj)` accepts along the whole `super().__init__` chain, which of
  them are required, whether a `**kwargs` swallows unknown keys;
* the attributes `__init__` assigns along the chain, each classified by a small abstract
  interpretation of the constructor bodies (see `Interp`):
    same    : attribute = parameter of the same name, unchanged or after an idempotent normalisation
    renamed : as `same` but the parameter has another name
    const   : does not depend on any parameter of THIS class (constant / default of a base class)
    derived : anything else (computed from parameters)
* the attributes assigned in other methods (computed fields);
* what the serialiser writes for the class: explicit key list or `__dict__.copy()` minus pops, keys
  added, and what the deserialiser removes / routes through a setter.

Normalisations treated as idempotent (everything else is `derived`; the set is deliberately small):
  N1  `if [not] isinstance(p, T): p = <expr>`          re-binding of a parameter guarded by a type test on itself
  N2  `if isinstance(p, T): self.a = [p] else: self.a = p`   scalar wrapped into a list
  N3  `self.a = None; if p is not None: self.a = p`
  N4  `if q is None: self.a = None else: self.a = p`     default forced by another parameter q
  N5  `self.a = p; if self.a is None: self.a = self.b`   default taken from another `same` attribute b
  N6  `p[k] = [p[k]]` guarded by `isinstance(p[k], T)`   in-place scalar -> list inside a dict parameter
  N7  `pd.Timestamp(p)`, `pd.Timestamp(self.a, tz=self.tz)` guarded by `self.a.tzinfo is None`
Branches guarded by `<param> is [not] None` are evaluated statically when the parameter is bound to a
constant by the subclass' super call, or when it is an optional parameter that is never stored
(`assumedDefault`, e.g. Timegrid.ref_timegrid: the deserialiser can never pass it).

Usage:  python3 harness/schema_gen.py --repo /repo --out lean/EAO/Generated/Schema.lean
        generate(repo) -> str        schema(repo) -> dict (same content, for the harness)
"""
import argparse
import ast
import os
import sys
from fractions import Fraction

MODULES = ['basic_classes', 'assets', 'portfolio']


# ------------------------------------------------------------------ abstract values
class V:
    """abstract value: kind in {'param','const','derived'}"""
    __slots__ = ('kind', 'p', 'lit', 'norms', 'deps')

    def __init__(self, kind, p=None, lit=None, norms=(), deps=()):
        self.kind, self.p, self.lit, self.norms, self.deps = kind, p, lit, tuple(norms), tuple(sorted(set(deps)))

    def with_norm(self, n):
        return V(self.kind, self.p, self.lit, tuple(sorted(set(self.norms + (n,)))), self.deps)

    def __repr__(self):
        return 'V(%s,%s,%s,%s,%s)' % (self.kind, self.p, self.lit, self.norms, self.deps)


def lit_of(node):
    """python literal -> ('none',)|('bool',b)|('int',i)|('num',n,d)|('str',s)|('other',src)"""
    if isinstance(node, ast.Constant):
        v = node.value
        if v is None:
            return ('none',)
        if isinstance(v, bool):
            return ('bool', v)
        if isinstance(v, int):
            return ('int', v)
        if isinstance(v, float):
            f = Fraction(v)
            return ('num', f.numerator, f.denominator)
        if isinstance(v, str):
            return ('str', v)
    if isinstance(node, ast.UnaryOp) and isinstance(node.op, ast.USub) and isinstance(node.operand, ast.Constant):
        inner = lit_of(node.operand)
        if inner[0] == 'int':
            return ('int', -inner[1])
        if inner[0] == 'num':
            return ('num', -inner[1], inner[2])
    return ('other', ast.unparse(node))


def names_in(node):
    out = set()
    for n in ast.walk(node):
        if isinstance(n, ast.Name):
            out.add(n.id)
        elif isinstance(n, ast.Attribute) and isinstance(n.value, ast.Name) and n.value.id == 'self':
            out.add('self.' + n.attr)
    return out


def is_self_attr(node):
    return isinstance(node, ast.Attribute) and isinstance(node.value, ast.Name) and node.value.id == 'self'


def none_test(test):
    """`X is None` -> (X, True); `X is not None` / `not X is None` -> (X, False); else None"""
    neg = False
    while isinstance(test, ast.UnaryOp) and isinstance(test.op, ast.Not):
        neg = not neg
        test = test.operand
    if isinstance(test, ast.Compare) and len(test.ops) == 1 and isinstance(test.comparators[0], ast.Constant) \
            and test.comparators[0].value is None:
        if isinstance(test.ops[0], ast.Is):
            return test.left, (not neg)
        if isinstance(test.ops[0], ast.IsNot):
            return test.left, neg
    return None


def isinstance_test(test):
    """`[not] isinstance(X, T)` -> (src of X, polarity)"""
    neg = False
    while isinstance(test, ast.UnaryOp) and isinstance(test.op, ast.Not):
        neg = not neg
        test = test.operand
    if isinstance(test, ast.Call) and isinstance(test.func, ast.Name) and test.func.id == 'isinstance' and test.args:
        return ast.unparse(test.args[0]), (not neg)
    return None


# ------------------------------------------------------------------ source model
class Src:
    def __init__(self, repo):
        self.repo = repo
        self.classes = {}      # name -> (module, ClassDef)
        self.order = []
        for m in MODULES:
            path = os.path.join(repo, 'eaopack', m + '.py')
            tree = ast.parse(open(path).read(), path)
            for node in tree.body:
                if isinstance(node, ast.ClassDef):
                    self.classes[node.name] = (m, node)
                    self.order.append(node.name)
        path = os.path.join(repo, 'eaopack', 'serialization.py')
        self.ser = ast.parse(open(path).read(), path)
        self.star_imports = [n.module for n in self.ser.body if isinstance(n, ast.ImportFrom)
                             and any(a.name == '*' for a in n.names)]

    def bases(self, c):
        return [ast.unparse(b) for b in self.classes[c][1].bases if ast.unparse(b) in self.classes]

    def mro(self, c):
        """linearisation for single inheritance (all eaopack classes); [c, base, base of base, ...]"""
        out = [c]
        while True:
            b = self.bases(out[-1])
            if not b:
                return out
            out.append(b[0])

    def method(self, c, name):
        """(owner class, FunctionDef) of the first definition along the chain"""
        for k in self.mro(c):
            for m in self.classes[k][1].body:
                if isinstance(m, ast.FunctionDef) and m.name == name:
                    return k, m
        return None, None

    def is_subclass(self, c, b):
        return b in self.mro(c)

    def resolvable(self, c):
        """is the class name reachable through `globals()` of serialization.py (star imports, no `__all__`)"""
        mod = self.classes[c][0]
        if c.startswith('_'):
            return False
        for m in self.star_imports:
            m = m.split('.')[-1]
            if m == mod:
                return True
            # names a module imported itself are re-exported by `import *` when there is no __all__
            tree = ast.parse(open(os.path.join(self.repo, 'eaopack', m + '.py')).read())
            if any(isinstance(n, ast.Assign) and any(isinstance(t, ast.Name) and t.id == '__all__' for t in n.targets)
                   for n in tree.body):
                continue
            for n in tree.body:
                if isinstance(n, ast.ImportFrom) and n.module and n.module.split('.')[-1] == mod \
                        and any(a.name in ('*', c) for a in n.names):
                    return True
        return False


# ------------------------------------------------------------------ constructor interpretation
class Interp:
    """abstract interpretation of `C.__init__` along the super chain, in terms of C's own keyword parameters"""

    def __init__(self, src, cls, assume_default=()):
        self.src = src
        self.cls = cls
        self.assume = set(assume_default)
        self.assign = {}       # attr -> list of (guards tuple, V)
        self.attr_order = []
        self.mutated = set()
        self.notes = []
        self.params = []       # [(name, required, default lit)]
        self.swallows = False
        self.definite = set()
        self._run()

    # ---- parameters
    @staticmethod
    def own_params(fn):
        a = fn.args
        pos = a.posonlyargs + a.args
        pos = pos[1:]  # self
        nd = len(a.defaults)
        out = []
        for i, p in enumerate(pos):
            j = i - (len(pos) - nd)
            out.append((p.arg, j < 0, None if j < 0 else a.defaults[j]))
        for p, d in zip(a.kwonlyargs, a.kw_defaults):
            out.append((p.arg, d is None, d))
        return out, (a.vararg.arg if a.vararg else None), (a.kwarg.arg if a.kwarg else None)

    def _run(self):
        owner, fn = self.src.method(self.cls, '__init__')
        if fn is None:
            return
        own, va, kw = self.own_params(fn)
        env = {}
        for (p, req, d) in own:
            if p in self.assume and not req:
                env[p] = V('const', lit=lit_of(d))
            else:
                env[p] = V('param', p=p)
            self.params.append((p, req, ('none',) if d is None else lit_of(d)))
        ctx = {'kwname': kw, 'extra': {}, 'open': kw is not None, 'forwarded': False}
        self.definite = self._stmts(owner, fn.body, env, (), ctx)
        if kw is not None and not ctx['forwarded']:
            self.swallows = True

    # ---- expressions
    def cur_attr(self, a):
        lst = self.assign.get(a)
        if not lst or a in self.mutated:
            return V('derived', deps=['self.' + a])
        ps = {v.p for _, v in lst if v.kind == 'param'}
        if all(v.kind == 'param' for _, v in lst) and len(ps) == 1:
            norms = set()
            for _, v in lst:
                norms |= set(v.norms)
            return V('param', p=ps.pop(), norms=norms)
        if len(lst) == 1 and lst[0][1].kind == 'const':
            return lst[0][1]
        return V('derived', deps=['self.' + a])

    def ev(self, node, env, guards):
        if isinstance(node, ast.Name):
            if node.id in env:
                return env[node.id]
            return V('derived', deps=[node.id])
        if is_self_attr(node):
            return self.cur_attr(node.attr)
        l = lit_of(node)
        if l[0] != 'other':
            return V('const', lit=l)
        if isinstance(node, (ast.Dict, ast.List, ast.Tuple)) and not names_in(node):
            return V('const', lit=l)
        # N2: [p] under isinstance(p, T)
        if isinstance(node, ast.List) and len(node.elts) == 1:
            v = self.ev(node.elts[0], env, guards)
            if v.kind == 'param' and any(g[0] == 'isinstance' and g[1] == ast.unparse(node.elts[0]) and g[2] for g in guards):
                return v.with_norm('N2')
        # N7: pd.Timestamp(x[, tz=self.tz])
        if isinstance(node, ast.Call) and ast.unparse(node.func) in ('pd.Timestamp', 'pandas.Timestamp') and len(node.args) == 1:
            v = self.ev(node.args[0], env, guards)
            kws = {k.arg: ast.unparse(k.value) for k in node.keywords}
            if v.kind == 'param' and (not kws or (set(kws) == {'tz'} and kws['tz'] == 'self.tz'
                                                   and any(g[0] == 'naive' and g[1] == ast.unparse(node.args[0]) and g[2] for g in guards))):
                return v.with_norm('N7')
            if v.kind == 'param' and not kws:
                return v.with_norm('N7')
        deps = set()
        for n in names_in(node):
            if n in env:
                e = env[n]
                if e.kind == 'param':
                    deps.add(e.p)
                elif e.kind == 'derived':
                    deps |= set(e.deps)
            elif n.startswith('self.'):
                c = self.cur_attr(n[5:])
                if c.kind == 'param':
                    deps.add(c.p)
                elif c.kind == 'derived':
                    deps |= set(c.deps)
        return V('derived', deps=deps)

    def static_test(self, test, env):
        """True / False when the test is decided by constants, else None"""
        nt = none_test(test)
        if nt is not None:
            x, pol = nt
            if isinstance(x, ast.Name) and x.id in env and env[x.id].kind == 'const' and env[x.id].lit[0] != 'other':
                is_none = env[x.id].lit == ('none',)
                return is_none == pol
        if isinstance(test, ast.UnaryOp) and isinstance(test.op, ast.Not) and isinstance(test.operand, ast.Name):
            v = env.get(test.operand.id)
            if v is not None and v.kind == 'const' and v.lit[0] == 'bool':
                return not v.lit[1]
        if isinstance(test, ast.Name):
            v = env.get(test.id)
            if v is not None and v.kind == 'const' and v.lit[0] == 'bool':
                return v.lit[1]
        return None

    def guard_of(self, test, env, pol):
        nt = none_test(test)
        if nt is not None:
            x, p = nt
            if isinstance(x, ast.Attribute) and x.attr == 'tzinfo':
                return ('naive', ast.unparse(x.value), p == pol)
            return ('none', ast.unparse(x), p == pol)
        it = isinstance_test(test)
        if it is not None:
            return ('isinstance', it[0], it[1] == pol)
        return ('other', ast.unparse(test), pol)

    # ---- statements; returns the set of attributes definitely assigned
    def _record(self, attr, guards, v):
        if attr not in self.assign:
            self.assign[attr] = []
            self.attr_order.append(attr)
        self.assign[attr].append((guards, v))

    def _stmts(self, owner, body, env, guards, ctx):
        definite = set()
        for st in body:
            definite |= self._stmt(owner, st, env, guards, ctx)
        return definite

    def _stmt(self, owner, st, env, guards, ctx):
        if isinstance(st, ast.Expr):
            if isinstance(st.value, ast.Constant):
                return set()
            call = st.value
            if isinstance(call, ast.Call):
                sup = self._super_call(call)
                if sup:
                    return self._do_super(owner, call, env, guards, ctx)
                # method call on an attribute (self.a.append(..)) mutates it
                f = call.func
                if isinstance(f, ast.Attribute) and is_self_attr(f.value):
                    self.mutated.add(f.value.attr)
            return set()
        if isinstance(st, (ast.Assert, ast.Pass, ast.Raise, ast.Import, ast.ImportFrom)):
            return set()
        if isinstance(st, ast.Assign) or isinstance(st, ast.AnnAssign) or isinstance(st, ast.AugAssign):
            targets = st.targets if isinstance(st, ast.Assign) else [st.target]
            value = st.value
            definite = set()
            for tg in targets:
                if is_self_attr(tg):
                    v = self.ev(value, env, guards) if not isinstance(st, ast.AugAssign) else V('derived', deps=names_in(value))
                    self._record(tg.attr, guards, v)
                    definite.add(tg.attr)
                elif isinstance(tg, ast.Name):
                    v = self.ev(value, env, guards)
                    old = env.get(tg.id)
                    if old is not None and old.kind == 'param' and old.p == tg.id \
                            and any(g[0] == 'isinstance' and g[1] == tg.id for g in guards):
                        env[tg.id] = old.with_norm('N1')          # N1
                    else:
                        env[tg.id] = v if v.kind != 'param' or isinstance(value, ast.Name) else V('derived', deps=[v.p])
                elif isinstance(tg, (ast.Tuple, ast.List)):
                    v = self.ev(value, env, guards)
                    deps = [v.p] if v.kind == 'param' else list(v.deps)
                    for e in tg.elts:
                        if isinstance(e, ast.Name):
                            env[e.id] = V('derived', deps=deps)
                        elif is_self_attr(e):
                            self._record(e.attr, guards, V('derived', deps=deps))
                            definite.add(e.attr)
                elif isinstance(tg, ast.Subscript):
                    base = tg.value
                    while isinstance(base, ast.Subscript):
                        base = base.value
                    if is_self_attr(base):
                        self.mutated.add(base.attr)
                    elif isinstance(base, ast.Name) and base.id in env and env[base.id].kind == 'param':
                        bsrc = base.id
                        ok = any(g[0] == 'isinstance' and g[1].startswith(bsrc + '[') and g[2] for g in guards)
                        wrap = isinstance(value, ast.List) and len(value.elts) == 1 and ast.unparse(value.elts[0]) == ast.unparse(tg)
                        if ok and wrap:
                            env[bsrc] = env[bsrc].with_norm('N6')  # N6
                        else:
                            env[bsrc] = V('derived', deps=[env[bsrc].p])
                            self.notes.append('parameter %s mutated in place at line %d' % (bsrc, st.lineno))
            return definite
        if isinstance(st, ast.If):
            sv = self.static_test(st.test, env)
            if sv is True:
                return self._stmts(owner, st.body, env, guards, ctx)
            if sv is False:
                return self._stmts(owner, st.orelse, env, guards, ctx)
            e1, e2 = dict(env), dict(env)
            d1 = self._stmts(owner, st.body, e1, guards + (self.guard_of(st.test, env, True),), ctx)
            d2 = self._stmts(owner, st.orelse, e2, guards + (self.guard_of(st.test, env, False),), ctx)
            for k in set(e1) | set(e2):
                a, b = e1.get(k), e2.get(k)
                if a is None or b is None:
                    env[k] = V('derived', deps=[k])
                elif a.kind == b.kind == 'param' and a.p == b.p:
                    env[k] = V('param', p=a.p, norms=set(a.norms) | set(b.norms))
                elif a.kind == b.kind == 'const' and a.lit == b.lit:
                    env[k] = a
                else:
                    deps = set()
                    for x in (a, b):
                        deps |= {x.p} if x.kind == 'param' else set(x.deps)
                    env[k] = V('derived', deps=deps)
            return d1 & d2
        if isinstance(st, (ast.For, ast.While, ast.With, ast.Try)):
            g = guards + (('loop', str(st.lineno), True),)
            if isinstance(st, ast.For):
                for n in ast.walk(st.target):
                    if isinstance(n, ast.Name):
                        env[n.id] = V('derived', deps=names_in(st.iter))
            for blk in ('body', 'orelse', 'finalbody'):
                self._stmts(owner, getattr(st, blk, []) or [], env, g, ctx)
            for h in getattr(st, 'handlers', []) or []:
                self._stmts(owner, h.body, env, g, ctx)
            return set()
        self.notes.append('statement not interpreted at line %d: %s' % (st.lineno, type(st).__name__))
        return set()

    def _super_call(self, call):
        f = call.func
        if isinstance(f, ast.Attribute) and f.attr == '__init__':
            v = f.value
            if isinstance(v, ast.Call) and isinstance(v.func, ast.Name) and v.func.id == 'super':
                return True
            if isinstance(v, ast.Name) and v.id in self.src.classes:
                return True
        return False

    def _do_super(self, owner, call, env, guards, ctx):
        """bind the base constructor's parameters from the call and interpret the base constructor.
        ctx: kwname = name of this constructor's **kwargs (or None); extra = keys known to be inside it
        (passed by a subclass); open = it may also hold further keys of the deserialiser's call"""
        f = call.func.value
        if isinstance(f, ast.Name):
            base_owner, bfn = self.src.method(f.id, '__init__')
        else:
            b = self.src.bases(owner)
            base_owner, bfn = self.src.method(b[0], '__init__') if b else (None, None)
        if bfn is None:
            return set()
        bown, bva, bkw = self.own_params(bfn)
        bnames = [p for p, _, _ in bown]
        benv, bextra = {}, {}
        pos = [a for a in call.args if not isinstance(a, ast.Starred)]
        if isinstance(call.func.value, ast.Name):
            pos = pos[1:]   # Base.__init__(self, ...)
        for (p, req, d), a in zip(bown, pos):
            benv[p] = self.ev(a, env, guards)
        forwards = False
        for k in call.keywords:
            if k.arg is None:
                if isinstance(k.value, ast.Name) and k.value.id == ctx['kwname']:
                    forwards = True
                else:
                    self.notes.append('** of %s in super call of %s' % (ast.unparse(k.value), owner))
            elif k.arg in bnames:
                benv[k.arg] = self.ev(k.value, env, guards)
            elif bkw is not None:
                bextra[k.arg] = self.ev(k.value, env, guards)
            else:
                self.notes.append('%s passes unknown keyword %s to its base constructor' % (owner, k.arg))
        bopen = False
        if forwards:
            ctx['forwarded'] = True
            for k, v in ctx['extra'].items():
                if k in bnames:
                    if k not in benv:
                        benv[k] = v
                elif bkw is not None:
                    bextra[k] = v
                else:
                    self.notes.append('%s forwards unknown keyword %s to %s' % (owner, k, base_owner))
            bopen = ctx['open']
        own_names = {p for p, _, _ in self.params}
        for (p, req, d) in bown:
            if p in benv:
                continue
            if bopen and p not in own_names:
                # reaches the base through **kwargs: it is a keyword parameter of the class
                if p in self.assume and not req:
                    benv[p] = V('const', lit=lit_of(d))
                else:
                    benv[p] = V('param', p=p)
                self.params.append((p, req, ('none',) if d is None else lit_of(d)))
                own_names.add(p)
            elif req:
                benv[p] = V('derived', deps=['<missing required %s>' % p])
                self.notes.append('required base parameter %s not passed by %s' % (p, owner))
            else:
                benv[p] = V('const', lit=lit_of(d))
        bctx = {'kwname': bkw, 'extra': bextra, 'open': bopen and bkw is not None, 'forwarded': False}
        res = self._stmts(base_owner, bfn.body, benv, guards, bctx)
        if bkw is not None and bctx['open'] and not bctx['forwarded']:
            self.swallows = True
        return res

    # ---- classification
    def classify(self, attr):
        lst = self.assign[attr]
        cond = attr not in self.definite
        if attr in self.mutated:
            return 'derived', '', cond, ('other', 'mutated after assignment'), []
        vals = [v for _, v in lst]
        norms = sorted({n for v in vals for n in v.norms})
        ps = [v for v in vals if v.kind == 'param']
        cs = [v for v in vals if v.kind == 'const']
        ds = [v for v in vals if v.kind == 'derived']
        pnames = {v.p for v in ps}

        def res_same(p, extra=()):
            return ('same' if p == attr else 'renamed'), p, cond, ('none',), sorted(set(norms) | set(extra))
        if ds:
            return 'derived', '', cond, ('other', ','.join(sorted({d for v in ds for d in v.deps}))[:120]), []
        if ps and not cs and len(pnames) == 1:
            return res_same(ps[0].p)
        if ps and len(pnames) == 1 and all(c.lit == ('none',) for c in cs):
            p = ps[0].p
            ok = True
            extra = set()
            for g, v in lst:
                if v.kind == 'const':
                    if not g:
                        # N3: unguarded None first, parameter assigned later under `p is not None`
                        later = [gg for gg, vv in lst if vv.kind == 'param']
                        if all(any(x[0] == 'none' and x[1] == p and x[2] is False for x in gg) for gg in later):
                            extra.add('N3')
                        else:
                            ok = False
                    else:
                        # N4: None forced under `q is None` for a parameter q; parameter assigned under its negation
                        gl = g[-1]
                        if gl[0] == 'none' and gl[2] is True and all(
                                any(x[0] == 'none' and x[1] == gl[1] and x[2] is False for x in gg)
                                for gg, vv in lst if vv.kind == 'param'):
                            extra.add('N4')
                        else:
                            ok = False
            if ok:
                return res_same(p, extra)
            return 'derived', '', cond, ('other', 'mixed None / parameter'), []
        if ps and not cs and len(pnames) == 2 and lst[0][1].kind == 'param' and not lst[0][0]:
            # N5: self.a = p ; if self.a is None: self.a = self.b   (b bound to another parameter)
            p = lst[0][1].p
            ok = True
            for g, v in lst[1:]:
                if v.p == p:
                    continue
                if not (g and g[-1][0] == 'none' and g[-1][1] in ('self.' + attr, p) and g[-1][2] is True):
                    ok = False
            if ok:
                return res_same(p, ['N5'])
            return 'derived', '', cond, ('other', 'two parameters'), []
        if cs and not ps:
            lits = {c.lit for c in cs}
            if len(lits) == 1:
                return 'const', '', cond, cs[0].lit, []
            return 'derived', '', cond, ('other', 'several constants'), []
        return 'derived', '', cond, ('other', 'unclassified'), []


# ------------------------------------------------------------------ computed attributes
def computed_attrs(src, cls):
    """attributes assigned (self.x = / self.x[..] = / augmented) in methods other than __init__, along the chain"""
    out = []
    for k in src.mro(cls):
        for m in src.classes[k][1].body:
            if isinstance(m, (ast.FunctionDef, ast.AsyncFunctionDef)) and m.name != '__init__':
                for n in ast.walk(m):
                    tgs = []
                    if isinstance(n, ast.Assign):
                        tgs = n.targets
                    elif isinstance(n, (ast.AugAssign, ast.AnnAssign)):
                        tgs = [n.target]
                    elif isinstance(n, ast.Call) and isinstance(n.func, ast.Name) and n.func.id == 'setattr' \
                            and n.args and isinstance(n.args[0], ast.Name) and n.args[0].id == 'self':
                        if len(n.args) > 1 and isinstance(n.args[1], ast.Constant):
                            out.append((str(n.args[1].value), k + '.' + m.name))
                        else:
                            out.append(('<setattr>', k + '.' + m.name))
                    for tg in tgs:
                        for e in ([tg] if not isinstance(tg, (ast.Tuple, ast.List)) else tg.elts):
                            b = e
                            while isinstance(b, ast.Subscript):
                                b = b.value
                            if is_self_attr(b) and (b is e):
                                out.append((b.attr, k + '.' + m.name))
    seen, res = set(), []
    for a, w in out:
        if a not in seen:
            seen.add(a)
            res.append((a, w))
    return res


# ------------------------------------------------------------------ serialiser / deserialiser
def find_fn(tree, name):
    for n in tree.body:
        if isinstance(n, ast.FunctionDef) and n.name == name:
            return n
    raise KeyError(name)


def if_chain(fn):
    """top-level if/elif chain of a function -> [(test, body)], else-body"""
    for st in fn.body:
        if isinstance(st, ast.If):
            out = []
            cur = st
            while True:
                out.append((cur.test, cur.body))
                if len(cur.orelse) == 1 and isinstance(cur.orelse[0], ast.If):
                    cur = cur.orelse[0]
                else:
                    return out, cur.orelse
    return [], []


def isinstance_classes(test):
    out = []
    for n in ast.walk(test):
        if isinstance(n, ast.Call) and isinstance(n.func, ast.Name) and n.func.id == 'isinstance' and len(n.args) == 2:
            t = n.args[1]
            for e in (t.elts if isinstance(t, ast.Tuple) else [t]):
                out.append(ast.unparse(e))
    return out


def const_str(n):
    return n.value if isinstance(n, ast.Constant) and isinstance(n.value, str) else None


def obj_attr(n):
    """obj.a / obj.__dict__['a'] -> a"""
    if isinstance(n, ast.Attribute) and isinstance(n.value, ast.Name) and n.value.id == 'obj':
        return n.attr
    if isinstance(n, ast.Subscript) and ast.unparse(n.value) == 'obj.__dict__':
        return const_str(n.slice)
    return None


def serialiser_view(src, cls):
    """what json_serialize_objects does for an instance of exactly `cls`"""
    fn = find_fn(src.ser, 'json_serialize_objects')
    chain, _ = if_chain(fn)
    view = {'branch': None, 'dictcopy': False, 'explicit': [], 'pops': [], 'adds': [], 'tag': '', 'unparsed': []}
    for test, body in chain:
        cs = [c for c in isinstance_classes(test) if c in src.classes]
        if not any(src.is_subclass(cls, c) for c in cs):
            continue
        view['branch'] = ' / '.join(cs)
        _ser_body(src, cls, body, view)
        break
    return view


def _ser_body(src, cls, body, view):
    for st in body:
        ok = False
        if isinstance(st, ast.Assign) and len(st.targets) == 1:
            tg, val = st.targets[0], st.value
            if isinstance(tg, ast.Name) and tg.id == 'res':
                if ast.unparse(val) == 'obj.__dict__.copy()':
                    view['dictcopy'] = True
                    ok = True
                elif isinstance(val, ast.Dict):
                    ok = True
                    for k, v in zip(val.keys, val.values):
                        ks = const_str(k)
                        a = obj_attr(v)
                        if ks is None:
                            ok = False
                        elif a is not None:
                            view['explicit'].append((ks, a, False))
                        elif const_str(v) is not None:
                            view['adds'].append((ks, const_str(v)))
                            if ks == '__class__':
                                view['tag'] = const_str(v)
                        else:
                            ok = False
            elif isinstance(tg, ast.Subscript) and ast.unparse(tg.value) == 'res' and const_str(tg.slice) is not None:
                ks = const_str(tg.slice)
                a = obj_attr(val)
                if a is not None:
                    view['explicit'].append((ks, a, view.get('_cond', False)))
                    ok = True
                elif const_str(val) is not None or ast.unparse(val) == 'obj.__class__.__name__':
                    view['adds'].append((ks, const_str(val) if const_str(val) is not None else cls))
                    if ks == '__class__':
                        view['tag'] = const_str(val)
                    ok = True
        elif isinstance(st, ast.Expr) and isinstance(st.value, ast.Call) and ast.unparse(st.value.func) == 'res.pop' \
                and st.value.args and const_str(st.value.args[0]) is not None:
            view['pops'].append(const_str(st.value.args[0]))
            ok = True
        elif isinstance(st, ast.For) and isinstance(st.iter, (ast.List, ast.Tuple)) and isinstance(st.target, ast.Name) \
                and all(const_str(e) is not None for e in st.iter.elts) and len(st.body) == 1 \
                and isinstance(st.body[0], ast.Expr) and isinstance(st.body[0].value, ast.Call) \
                and ast.unparse(st.body[0].value.func) == 'res.pop' and st.body[0].value.args \
                and isinstance(st.body[0].value.args[0], ast.Name) and st.body[0].value.args[0].id == st.target.id:
            view['pops'] += [const_str(e) for e in st.iter.elts]
            ok = True
        elif isinstance(st, ast.If) and not st.orelse:
            t = st.test
            # if res['asset_type'] == 'X':   (exact class name)
            if isinstance(t, ast.Compare) and len(t.ops) == 1 and isinstance(t.ops[0], ast.Eq) \
                    and ast.unparse(t.left) == "res['asset_type']" and const_str(t.comparators[0]) is not None:
                if const_str(t.comparators[0]) == cls:
                    _ser_body(src, cls, st.body, view)
                ok = True
            # if hasattr(obj, 'a'):
            elif isinstance(t, ast.Call) and isinstance(t.func, ast.Name) and t.func.id == 'hasattr' \
                    and ast.unparse(t.args[0]) == 'obj' and const_str(t.args[1]) is not None:
                view['_cond'] = True
                _ser_body(src, cls, st.body, view)
                view['_cond'] = False
                ok = True
        elif isinstance(st, ast.Expr) and isinstance(st.value, ast.Constant):
            ok = True
        if not ok:
            view['unparsed'].append('serialiser line %d: %s' % (st.lineno, ast.unparse(st)[:80]))


def deserialiser_view(src, cls, tag):
    """what json_deserialize_objects does with a dict tagged `tag`"""
    fn = find_fn(src.ser, 'json_deserialize_objects')
    view = {'pops': [], 'mode': '', 'ctor_keys': [], 'setters': [], 'dispatch': '', 'unparsed': []}
    outer = [st for st in fn.body if isinstance(st, ast.If)]
    if not outer:
        view['unparsed'].append('deserialiser: no branch chain')
        return view
    holder = ast.FunctionDef(name='x', args=None, body=outer[0].body, decorator_list=[])
    chain, _ = if_chain(holder)
    for test, body in chain:
        if not (isinstance(test, ast.Compare) and ast.unparse(test.left) == "obj['__class__']"
                and const_str(test.comparators[0]) == tag):
            continue
        view['mode'] = 'found'
        _deser_body(src, cls, body, view)
        return view
    view['unparsed'].append('deserialiser: no branch for tag %r' % tag)
    return view


def _deser_body(src, cls, body, view):
    for st in body:
        ok = False
        if isinstance(st, ast.Expr) and isinstance(st.value, ast.Call) and ast.unparse(st.value.func) == 'obj.pop' \
                and st.value.args and const_str(st.value.args[0]) is not None:
            view['pops'].append(const_str(st.value.args[0]))
            ok = True
        elif isinstance(st, ast.Assign) and len(st.targets) == 1 and isinstance(st.targets[0], ast.Name):
            tg, val = st.targets[0].id, st.value
            if tg != 'res' and isinstance(val, ast.Subscript) and ast.unparse(val.value) == 'obj' and const_str(val.slice):
                view['dispatch'] = const_str(val.slice)     # asset_type = obj['asset_type']
                view['_dispvar'] = tg
                ok = True
            elif tg == 'res' and isinstance(val, ast.Call):
                f = ast.unparse(val.func)
                target_ok = (f in src.classes and src.is_subclass(cls, f) and f == cls) or \
                            (f == 'globals()[%s]' % view.get('_dispvar', '?'))
                star = [k for k in val.keywords if k.arg is None and ast.unparse(k.value) == 'obj']
                if target_ok and star and not val.args and len(val.keywords) == 1:
                    view['mode'] = 'kwargs'
                    ok = True
                elif target_ok and not val.keywords and all(
                        isinstance(a, ast.Subscript) and ast.unparse(a.value) == 'obj' and const_str(a.slice) for a in val.args):
                    view['mode'] = 'positional'
                    view['ctor_keys'] = [const_str(a.slice) for a in val.args]
                    ok = True
        elif isinstance(st, ast.If) and not st.orelse:
            t = st.test
            # if 'k' in obj: res.m(obj['k'])
            if isinstance(t, ast.Compare) and len(t.ops) == 1 and isinstance(t.ops[0], ast.In) \
                    and const_str(t.left) is not None and ast.unparse(t.comparators[0]) == 'obj' and len(st.body) == 1:
                c = st.body[0]
                if isinstance(c, ast.Expr) and isinstance(c.value, ast.Call) and isinstance(c.value.func, ast.Attribute) \
                        and ast.unparse(c.value.func.value) == 'res' and len(c.value.args) == 1 \
                        and ast.unparse(c.value.args[0]) == "obj['%s']" % const_str(t.left):
                    key = const_str(t.left)
                    attr = setter_attr(src, cls, c.value.func.attr)
                    if attr is not None:
                        view['setters'].append((key, attr))
                        ok = True
        if not ok:
            view['unparsed'].append('deserialiser line %d: %s' % (st.lineno, ast.unparse(st)[:80]))


def setter_attr(src, cls, mname):
    """`def m(self, x): self.a = x` (first statement after the doc string) -> a"""
    _, fn = src.method(cls, mname)
    if fn is None or len(fn.args.args) != 2:
        return None
    p = fn.args.args[1].arg
    for st in fn.body:
        if isinstance(st, ast.Expr) and isinstance(st.value, ast.Constant):
            continue
        if isinstance(st, ast.Assign) and len(st.targets) == 1 and is_self_attr(st.targets[0]) \
                and isinstance(st.value, ast.Name) and st.value.id == p:
            return st.targets[0].attr
        return None
    return None


# ------------------------------------------------------------------ schema assembly
def serialisable_classes(src):
    fn = find_fn(src.ser, 'json_serialize_objects')
    chain, _ = if_chain(fn)
    roots = []
    for test, _ in chain:
        roots += [c for c in isinstance_classes(test) if c in src.classes]
    return [c for c in src.order if any(src.is_subclass(c, r) for r in roots)]


def class_schema(src, cls):
    ser = serialiser_view(src, cls)
    des = deserialiser_view(src, cls, ser['tag'])
    it = Interp(src, cls)
    # optional parameters that can never come back from the stored keys are at their default on reload
    stored_keys = stored_of(ser, [a for a in it.attr_order], [])
    setter_keys = [k for k, _ in des['setters']]
    assume = [p for p, req, _ in it.params if not req and p not in [k for k, _ in stored_keys] and p not in setter_keys]
    if assume:
        it = Interp(src, cls, assume_default=assume)
    attrs = []
    for a in it.attr_order:
        kind, p, cond, lit, norms = it.classify(a)
        attrs.append({'name': a, 'kind': kind, 'src': p, 'cond': cond, 'lit': lit, 'norms': norms})
    comp = computed_attrs(src, cls)
    params = [{'name': p, 'required': req, 'default': d} for p, req, d in it.params]
    if des['mode'] == 'positional':
        # only the listed keys reach the constructor, by position
        _, fn = src.method(cls, '__init__')
        own, _, _ = Interp.own_params(fn)
        if len(des['ctor_keys']) > len(own) or any(own[i][0] != k for i, k in enumerate(des['ctor_keys'])):
            des['unparsed'].append('positional constructor call does not match parameter names')
    return {
        'name': cls, 'module': src.classes[cls][0], 'tag': ser['tag'], 'bases': src.mro(cls)[1:],
        'params': params, 'swallows': it.swallows, 'assumedDefault': assume,
        'setters': des['setters'], 'attrs': attrs,
        'computed': [a for a, _ in comp], 'computed_where': dict(comp),
        'dictcopy': ser['dictcopy'], 'explicit': ser['explicit'], 'pops': ser['pops'], 'adds': ser['adds'],
        'deserPops': des['pops'], 'ctorMode': des['mode'], 'ctorKeys': des['ctor_keys'], 'dispatch': des['dispatch'],
        'resolvable': src.resolvable(cls),
        'unparsed': ser['unparsed'] + des['unparsed'] + it.notes,
    }


def stored_of(ser, init_attrs, computed):
    """[(key, attr)] written for an object whose __dict__ holds init_attrs + computed (python twin of `storedOf`)"""
    if not ser['dictcopy']:
        return [(k, a) for k, a, _ in ser['explicit']]
    out = []
    for a in list(init_attrs) + [c for c in computed if c not in init_attrs]:
        if a not in ser['pops']:
            out.append((a, a))
    return out + [(k, a) for k, a, _ in ser['explicit']]


def stored_keys(cs, after_setup=False):
    """keys the schema predicts in the JSON dict of an instance (without the added keys)"""
    ser = {'dictcopy': cs['dictcopy'], 'explicit': cs['explicit'], 'pops': cs['pops']}
    return stored_of(ser, [a['name'] for a in cs['attrs']], cs['computed'] if after_setup else [])


def schema(repo='/repo'):
    src = Src(repo)
    return [class_schema(src, c) for c in serialisable_classes(src)]


# ------------------------------------------------------------------ Lean emission
def lstr(s):
    return '"' + s.replace('\\', '\\\\').replace('"', '\\"').replace('\n', '\\n') + '"'


def llist(xs):
    return '[' + ', '.join(xs) + ']'


def llit(l):
    if l[0] == 'none':
        return '.none'
    if l[0] == 'bool':
        return '(.bool %s)' % ('true' if l[1] else 'false')
    if l[0] == 'int':
        return '(.int (%d))' % l[1]
    if l[0] == 'num':
        return '(.num (%d) %d)' % (l[1], l[2])
    if l[0] == 'str':
        return '(.str %s)' % lstr(l[1])
    return '(.other %s)' % lstr(l[1])


def emit_class(cs):
    L = []
    ident = 'c_' + cs['name']
    L.append('/-- `%s` (%s.py); bases %s%s -/' % (cs['name'], cs['module'], ', '.join(cs['bases']) or '-',
                                                  ('; assumed at default on reload: ' + ', '.join(cs['assumedDefault'])) if cs['assumedDefault'] else ''))
    L.append('def %s : ClassSchema where' % ident)
    L.append('  name := %s' % lstr(cs['name']))
    L.append('  tag := %s' % lstr(cs['tag']))
    L.append('  bases := %s' % llist(lstr(b) for b in cs['bases']))
    L.append('  params := [')
    L.append(',\n'.join('    ⟨%s, %s, %s⟩' % (lstr(p['name']), 'true' if p['required'] else 'false', llit(p['default']))
                        for p in cs['params']) + ']')
    L.append('  swallows := %s' % ('true' if cs['swallows'] else 'false'))
    L.append('  assumedDefault := %s' % llist(lstr(x) for x in cs['assumedDefault']))
    L.append('  setters := %s' % llist('(%s, %s)' % (lstr(k), lstr(a)) for k, a in cs['setters']))
    L.append('  attrs := [')
    L.append(',\n'.join('    ⟨%s, .%s, %s, %s, %s, %s⟩' % (lstr(a['name']), a['kind'], lstr(a['src']),
                                                          'true' if a['cond'] else 'false', llit(a['lit']),
                                                          llist(lstr(n) for n in a['norms']))
                        for a in cs['attrs']) + ']')
    L.append('  computed := %s' % llist(lstr(x) for x in cs['computed']))
    L.append('  dictCopy := %s' % ('true' if cs['dictcopy'] else 'false'))
    L.append('  explicit := %s' % llist('⟨%s, %s, %s⟩' % (lstr(k), lstr(a), 'true' if c else 'false') for k, a, c in cs['explicit']))
    L.append('  pops := %s' % llist(lstr(x) for x in cs['pops']))
    L.append('  adds := %s' % llist('(%s, %s)' % (lstr(k), lstr(v)) for k, v in cs['adds']))
    L.append('  deserPops := %s' % llist(lstr(x) for x in cs['deserPops']))
    L.append('  positional := %s' % ('true' if cs['ctorMode'] == 'positional' else 'false'))
    L.append('  ctorKeys := %s' % llist(lstr(x) for x in cs['ctorKeys']))
    L.append('  dispatch := %s' % lstr(cs['dispatch']))
    L.append('  resolvable := %s' % ('true' if cs['resolvable'] else 'false'))
    L.append('  unparsed := %s' % llist(lstr(x) for x in cs['unparsed']))
    return ident, '\n'.join(L)


def generate(repo='/repo'):
    sch = schema(repo)
    out = ['import EAO.Model.Schema',
           '/-!',
           '# EAO.Generated.Schema — GENERATED by harness/schema_gen.py from the eaopack sources; do not edit.',
           '',
           'Regenerated on every run of the C11 check; `EAO.C11.schema_roundtrip` is re-checked by the kernel over',
           'this table.  Classes: ' + ', '.join(c['name'] for c in sch),
           '-/',
           'namespace EAO.Schema', '']
    idents = []
    for cs in sch:
        i, txt = emit_class(cs)
        idents.append(i)
        out.append(txt)
        out.append('')
    out.append('/-- every class the serialiser knows, in source order -/')
    out.append('def classes : List ClassSchema :=\n  [' + ', '.join(idents) + ']')
    out.append('')
    out.append('end EAO.Schema')
    return '\n'.join(out) + '\n'


def main(argv=None):
    ap = argparse.ArgumentParser()
    ap.add_argument('--repo', default='/repo')
    ap.add_argument('--out', default=None)
    ap.add_argument('--json', action='store_true', help='print the schema as JSON instead')
    a = ap.parse_args(argv)
    if a.json:
        import json
        print(json.dumps(schema(a.repo), indent=1, default=list))
        return 0
    txt = generate(a.repo)
    if a.out is None:
        sys.stdout.write(txt)
        return 0
    old = open(a.out).read() if os.path.exists(a.out) else None
    if old != txt:                      # keep the time stamp when nothing changed (no rebuild)
        os.makedirs(os.path.dirname(os.path.abspath(a.out)), exist_ok=True)
        tmp = a.out + '.tmp%d' % os.getpid()
        open(tmp, 'w').write(txt)
        os.replace(tmp, a.out)
    return 0


if __name__ == '__main__':
    sys.exit(main())
