#!/usr/bin/env python
"""entry: /venv/bin/python harness/check.py <Cxx> [--tier quick|thorough] [--replay file]"""
import argparse
import os
import sys

ROOT = os.path.dirname(os.path.dirname(os.path.abspath(__file__)))
sys.path.insert(0, ROOT)
sys.path.insert(0, os.environ.get('EAO_REPO', '/repo'))   # EAO_REPO: development only (seeded changes in a scratch worktree); the registered commands use /repo
import warnings
warnings.filterwarnings('ignore')
os.environ.setdefault('PYTHONWARNINGS', 'ignore')
os.environ.setdefault('OMP_NUM_THREADS', '1')
os.environ.setdefault('OPENBLAS_NUM_THREADS', '1')
os.environ.setdefault('MKL_NUM_THREADS', '1')


def main():
    ap = argparse.ArgumentParser()
    ap.add_argument('prop')
    ap.add_argument('--tier', default=os.environ.get('VERIF_TIER', 'quick'))
    ap.add_argument('--replay', default=None)
    a = ap.parse_args()
    seed = int(os.environ.get('VERIF_SEED', '0'))
    from harness import core
    rc = core.run_property('harness.props.' + a.prop.lower(), a.tier, seed, replay=a.replay)
    sys.exit(rc)


if __name__ == '__main__':
    main()
