"""C04 (value accounting): the FORMS in which `optimize` accepts its arguments.

`OptimProblem.optimize(target, samples, interface, solver, make_soft_problem, solver_params)` reads some of its arguments
after normalising them (the target through `.lower()`, make_soft_problem through its truth value, the samples through indexing /
iteration only) and `SplitOptimProblem.optimize(*args, **kwargs)` hands whatever it gets to every interval.  Each accepted form
of a call produces an optimised portfolio, and C04's statement (reported value = sum of the DCF table = - c . x, per asset and
in total) has to hold for its result as for the plain call.  This module

  * draws call forms from the seed (`draw_form`): the target in any letter case ('value' / 'robust' with every letter upper or
    lower), the cost samples of the robust target as list / tuple / 2-d array (also handed over next to the value target, where
    they are ignored), 0 .. 5 leading arguments given positionally (the others by keyword or left at their default), the
    interface spelled out or defaulted, a solver named explicitly among those installed that solve the problem class exactly,
    make_soft_problem as True / 1 / numpy bool, positionally or by keyword,
  * makes the call (`call_optimize`), takes the snapshot of c04read and reads the result out (`solve_form`),
  * runs a case (`run_case`): one portfolio, several forms on the monolithic problem (robust ones with cost samples from
    perturbed prices, i.e. different from the cost vector of the problem), several on the split problem set up on the same
    objects, the property's oracle (comp/c04gen.orc_value_accounting) on every result.

Forms the code does not accept are not generated: solver names are looked up as they are written (getattr(cvxpy, solver)), the
interface is compared as written, a split problem hands the same samples to every interval (robust target: shapes differ).
"""
import random

import numpy as np

import eaopack as eao
from .. import gen, pf, impl
from ..impl import Quiet
from . import c04gen as G
from . import c04read as R

ARG_ORDER = ['target', 'samples', 'interface', 'solver', 'make_soft_problem']
SAMPLE_FORMS = ['list', 'list', 'tuple', 'array']
SOFT_FORMS = ['true', 'true', 'one', 'np_true']
_SOLVERS = None


def solvers():
    """(exact LP solvers, exact MIP solvers) among those cvxpy has installed"""
    global _SOLVERS
    if _SOLVERS is None:
        try:
            import cvxpy as CVX
            inst = set(CVX.installed_solvers())
        except Exception:
            inst = set()
        _SOLVERS = ([s for s in ('SCIPY', 'CLARABEL', 'HIGHS', 'GLPK') if s in inst],
                    [s for s in ('SCIPY', 'SCIP', 'HIGHS', 'GLPK_MI') if s in inst])
    return _SOLVERS


def spell(rnd, word):
    """the word in a letter case the package reads as the same word: lower, upper, capitalised, or letter by letter"""
    k = rnd.choice(['lower', 'upper', 'capital', 'mixed', 'mixed'])
    if k == 'lower':
        return word
    if k == 'upper':
        return word.upper()
    if k == 'capital':
        return word.capitalize()
    w = ''.join(ch.upper() if rnd.random() < 0.5 else ch for ch in word)
    return w if w != word else word[:-1] + word[-1].upper()


def draw_form(rnd, robust, mip, split=False, soft=None):
    """one accepted form of the call.  robust: the robust target (needs samples; not for split problems);
    mip: the problem has boolean variables; soft: relax them (None: drawn, only for problems with booleans)"""
    f = {'target': spell(rnd, 'robust' if robust else 'value')}
    if rnd.random() < 0.15 and not robust:
        f['target'] = None                              # left at its default
    f['samples'] = rnd.choice(SAMPLE_FORMS) if robust or (not split and rnd.random() < 0.2) else None
    f['interface'] = 'cvxpy' if rnd.random() < 0.4 else None
    if soft is None:
        soft = mip and rnd.random() < 0.5
    f['soft'] = rnd.choice(SOFT_FORMS) if soft else ('false' if rnd.random() < 0.2 else None)
    lp, mi = solvers()
    pool = mi if (mip and not soft) else lp
    f['solver'] = rnd.choice(pool) if pool and rnd.random() < 0.4 else None
    f['npos'] = rnd.choice([0, 0, 1, 1, 2, 2, 3, 4, 5])
    if f['target'] is None:
        f['npos'] = 0
    return f


def form_tag(f):
    return 'target=%r samples=%s interface=%s solver=%s make_soft_problem=%s, %d positional' % (
        f['target'], f['samples'], f['interface'], f['solver'], f['soft'], f['npos'])


def _samples_in_form(cs, how):
    if cs is None or how is None:
        return None
    cs = [np.asarray(c, dtype=float) for c in cs]
    if how == 'tuple':
        return tuple(cs)
    if how == 'array':
        return np.vstack(cs)
    return list(cs)


def _soft_value(how):
    return {'true': True, 'one': 1, 'np_true': np.bool_(True), 'false': False, None: False}[how]


def call_args(f, cs):
    """(args, kwargs) of the call in the form f; arguments left out take the default of `optimize`"""
    vals = {'target': f['target'] if f['target'] is not None else 'value',
            'samples': _samples_in_form(cs, f['samples']),
            'interface': f['interface'] or 'cvxpy',
            'solver': f['solver'],
            'make_soft_problem': _soft_value(f['soft'])}
    given = {'target': f['target'] is not None, 'samples': f['samples'] is not None, 'interface': f['interface'] is not None,
             'solver': f['solver'] is not None, 'make_soft_problem': f['soft'] is not None}
    args = [vals[k] for k in ARG_ORDER[:f['npos']]]
    kwargs = {k: vals[k] for k in ARG_ORDER[f['npos']:] if given[k]}
    return args, kwargs


def call_optimize(op, f, cs=None):
    """op.optimize in the form f; a solver that gives up with an exception counts as unsolved"""
    args, kwargs = call_args(f, cs)
    try:
        with Quiet():
            return op.optimize(*args, **kwargs)
    except Exception as e:
        if type(e).__name__ != 'SolverError':
            raise
        return 'solver error'


def solve_form(rec, f, cs=None):
    """a record like c04read.solve_snap's for the call in the form f on rec's problem object"""
    rr = {k: rec[k] for k in ('portf', 'tg', 'prices', 'op') if k in rec}
    rr['snap'], rr['out'] = None, None
    if len(rr['op'].c) == 0:
        rr['res'] = 'empty problem'
        return rr
    res = call_optimize(rr['op'], f, cs)
    rr['res'] = res
    if isinstance(res, str):
        return rr
    rr['snap'] = R.Snap(rr['op'], res)
    with Quiet():
        rr['out'] = eao.io.extract_output(rr['portf'], rr['op'], res, rr['prices'])
    return rr


def cost_samples(rec, rnd, n=None):
    """cost vectors of the portfolio under perturbed prices (every price series 'p..' moved step by step), as
    Portfolio.create_cost_samples gives them: the samples of the robust target, different from the problem's cost vector"""
    samples = []
    for _ in range(n or rnd.choice([1, 2, 3])):
        ps = {}
        for k, v in rec['prices'].items():
            v = np.asarray(v, dtype=float)
            ps[k] = v + np.array([gen.q8(rnd, -6, 6) for _ in range(len(v))]) if str(k).startswith('p') else v.copy()
        samples.append(ps)
    with Quiet():
        return rec['portf'].create_cost_samples(samples, rec['tg'])


def form_features(f, prefix='call'):
    out = []
    t = f['target']
    if t is None:
        out.append('target-default')
    else:
        out.append('target-%s-%s' % (t.lower(), 'lower' if t == t.lower() else 'upper' if t == t.upper() else 'mixed'))
    if f['samples']:
        out.append('samples-' + f['samples'])
    out.append('positional-%d' % f['npos'])
    if f['interface']:
        out.append('interface-explicit')
    if f['solver']:
        out.append('solver-' + f['solver'])
    if f['soft']:
        out.append('soft-' + f['soft'] + ('-positional' if f['npos'] >= 5 else ''))
    return ['%s:%s' % (prefix, q) for q in out]


def apply_forms(rec, tag, blocks, forms, rnd, feats, split=False):
    """every form of the call on rec's problem; C04's oracle on each result.  Returns (violations, evaluated, solved non-plain)"""
    viol, n, hit = [], 0, 0
    cs = None
    for f in forms:
        if f['samples'] is not None and cs is None:
            cs = cost_samples(rec, rnd)
        try:
            rr = solve_form(rec, f, cs if f['samples'] is not None else None)
        except Exception as e:
            feats.append('%s:call-error:%s' % (tag, impl.err_class(e)))
            continue
        n += 1
        if isinstance(rr['res'], str):
            feats.append('%s:unsolved' % tag)
            continue
        feats.extend(form_features(f, tag))
        v = G.orc_value_accounting(rr, '%s [optimize(%s)]' % (tag, form_tag(f)), blocks)
        for w in v:
            w['facts'].update({'mode': tag, 'call_form': dict(f), 'target_lower': (f['target'] or 'value').lower(),
                               'target_as_documented': f['target'] in (None, 'value', 'robust')})
        viol += v
        plain = f['target'] in (None, 'value', 'robust') and f['npos'] == 0 and f['samples'] in (None, 'list') and not f['soft']
        hit += 0 if plain else 1
        if v:
            break
    return viol, n, hit


# ------------------------------------------------------------------ the stream
def gen_case(rnd, tmax=10):
    """a portfolio (every third one with yes/no decisions that cost money) and the forms of the calls made on it"""
    if rnd.random() < 0.35:
        s = R.gen_costly_bools(random.Random(rnd.getrandbits(48)), tmax=min(tmax, 8))
    else:
        s = gen.gen_portfolio(random.Random(rnd.getrandbits(48)), tmax=tmax, tmin=3, max_assets=4,
                              kinds=['simple', 'contract', 'transport', 'storage', 'storage2', 'multi', 'orderbook', 'scaled',
                                     'structured', 'plant', 'ext_transport'])
    s['stream'] = 'call-forms'
    s['call_seed'] = rnd.getrandbits(30)
    s['mode'] = 'split' if rnd.random() < 0.5 else 'mono'
    return s


def run_case(scn, drv=None):
    r = {'evaluated': 1, 'nontrivial': False, 'features': ['stream:call-forms'], 'disagreements': [], 'violations': []}
    feats = r['features']
    try:
        rec = pf.setup_mono(scn)
    except Exception as e:
        feats.append('setup-error:' + impl.err_class(e))
        return r
    rnd = random.Random(scn['call_seed'])
    mip = pf.is_mip(rec['op'])
    feats.append('mip' if mip else 'lp')
    # the plain call first: is there a solution, and do at least two assets have cash flows
    R.solve_snap(rec)
    if isinstance(rec['res'], str):
        feats.append('unsolved:' + rec['res'])
        if not mip:
            return r
    else:
        feats.append('solved')
        r['violations'] += G.orc_value_accounting(rec, 'mono', pf.asset_blocks(rec))
    nz = 0 if rec.get('out') is None else int((np.abs(rec['out']['DCF'].values).sum(axis=0) > 1e-9).sum())
    forms = [draw_form(rnd, robust=True, mip=mip), draw_form(rnd, robust=True, mip=mip), draw_form(rnd, robust=False, mip=mip)]
    if mip:
        forms.append(draw_form(rnd, robust=rnd.random() < 0.5, mip=True, soft=True))
    rnd.shuffle(forms)
    hit = 0
    if not r['violations']:
        v, n, hit = apply_forms(rec, 'mono', pf.asset_blocks(rec), forms, rnd, feats)
        r['violations'] += v
        r['evaluated'] += n
    if scn.get('mode') == 'split' and not r['violations']:
        try:
            rs = pf.setup_split(scn, scn.get('split_interval') or pf.split_interval(scn, rec['tg']), objects=(rec['portf'], rec['tg'], rec['prices']))
            smip = pf.is_mip(rs['op'])
            sforms = [draw_form(rnd, robust=False, mip=smip, split=True)]
            sforms.append(draw_form(rnd, robust=False, mip=smip, split=True, soft=True if smip else None))
            if len(rs['op'].ops) == 1 and len(rs['op'].c) == len(rec['op'].c):
                # one interval only: the robust target is accepted (the samples have the size of the only interval)
                sforms.append(draw_form(rnd, robust=True, mip=smip))
                feats.append('split:single-interval-robust')
            v, n, h = apply_forms(rs, 'split', pf.asset_blocks(rs), sforms, rnd, feats, split=True)
            r['violations'] += v
            r['evaluated'] += n
            hit += h
        except Exception as e:
            feats.append('split-error:' + impl.err_class(e))
    r['nontrivial'] = nz >= 2 and hit >= 1
    r['observed'] = {'assets_with_cash_flow': nz, 'calls_in_other_forms_solved': hit}
    return r
