"""Component correspondence + property oracle for `eaopack.assets.Storage` (property C05).

A case is a plain JSON value:
  {grid: {start, end, freq, unit, tz, ...}, nodes: [names], name, args: {Storage kwargs; datetimes as {"$dt": iso}},
   prices: {key: [floats]}, market: {node: {price: key, cap: float}}, order: 'first'|'last', seed-free}

* run_impl(case)      real code: constructor, set_timegrid, setup_optim_problem (asset level); then the storage inside a
                      small portfolio with one market contract per node, optimised, io.extract_output
* request(case, impl) JSON request for the Lean driver (op `storage`); readout_request for op `storage_readout`
* compare(...)        disagreement strings (exact for dyadic inputs and wacc = 0, else 1e-9)
* oracle(...)         C05 on the real code alone: physical level recomputed from x and the storage's PARAMETERS

Block boundaries: the positions `aa` at which time blocks start depend on pandas' `date_range` (calendar logic).  They
are computed here with the same pandas expression as in the code and passed to the model as an input ("modelled as
input"); for tick block sizes the model's own `blockStartsTick` is compared in addition.
"""
import copy
import random
from fractions import Fraction

import numpy as np
import pandas as pd

import eaopack as eao
from .. import gen, scen
from ..impl import Quiet, problem_json, err_class, mapping_rows
from ..lean import fs
from ..pf import cmp_problem, cmp_rows, feq
from .common import grid_json, prices_json, instant

NAME = 'storage'
TOL = 1e-9

# ------------------------------------------------------------------ registered theorems about the storage builder
# (module, theorem, one-line reading); audited with `#print axioms` by the property checks that list them
THEOREMS_C08_STORAGE = [
    ('EAO.Properties.C08Storage', 'EAO.C08.storage_built_wf',
     'whatever buildStorage returns (all options) is well formed: one bound pair per variable, row columns and mapping variables below the number of variables, own name, dispatch rows at its own nodes and at steps of the restricted grid, no N rows'),
    ('EAO.Properties.C08Storage', 'EAO.C08.empty_window_always_ok_storage',
     'on a restricted grid without steps the set-up succeeds for any parameters, price data and block positions and returns the empty problem'),
    ('EAO.Properties.C08Storage', 'EAO.C08.empty_window_inert_storage',
     'a storage whose window misses the horizon has no variable, no row and no mapping row'),
    ('EAO.Properties.C08Storage', 'EAO.C08.vars_only_in_window_storage',
     'every mapping row of a storage (dispatch in/out and both kinds of boolean) sits at a step of the restricted grid = window clipped to the horizon'),
    ('EAO.Properties.C08Storage', 'EAO.C08.no_dispatch_outside_window_storage',
     'for every x, node and step outside the restricted grid the dispatch read-out of the storage is 0'),
    ('EAO.Properties.C08Storage', 'EAO.C08.no_charge_outside_window_storage',
     'for every x the reported charge and discharge are 0 at every step outside the window'),
    ('EAO.Properties.C08Storage', 'EAO.C08.fill_level_constant_outside_window_storage',
     'for every x the reported fill level does not change at a step outside the window (start level before, last level after)'),
]
THEOREMS_C12_STORAGE = [
    ('EAO.Properties.C12Storage', 'EAO.C12.limits_follow_dt_storage',
     'the bounds of the storage dispatch variables are -cap_in*dt_t (charge) and cap_out*dt_t (discharge) with dt_t the length of step t, in both variable forms and with all options'),
    ('EAO.Properties.C12Storage', 'EAO.C12.limits_total_storage',
     'the per-step limits add up to rate x elapsed time whatever the step lengths'),
    ('EAO.Properties.C12Storage', 'EAO.C12.unit_change_storage',
     'step lengths times k > 0, cap_in/cap_out/inflow/cost_store times 1/k, max_store_duration times k, everything else untouched: buildStorage returns literally the same result (all fields, or the same error)'),
    ('EAO.Properties.C12Storage', 'EAO.C12.guards_rescale',
     'the constructor guards accept the rescaled storage iff they accept the original'),
    ('EAO.Properties.C12Storage', 'EAO.C12.unit_change_mk_storage',
     'constructor guards plus set-up give the same result in both units'),
    ('EAO.Properties.C12Storage', 'EAO.C12.unit_change_fill_level',
     'the reported fill level is the same function of mapping and x in both units'),
    ('EAO.Properties.C12Storage', 'EAO.C12.unit_change_charge',
     'the reported charge and discharge are the same in both units'),
]

# ------------------------------------------------------------------ generator
BLOCKS = ['4h', '8h', 'd', '6h', '2h', '12h', '3h']
TICK_S = {'4h': 4 * 3600, '8h': 8 * 3600, '6h': 6 * 3600, '2h': 2 * 3600, '12h': 12 * 3600, '3h': 3 * 3600}


def gen_case(rnd, mip_prob=0.3, malformed_prob=0.06):
    big = rnd.random() < 0.15
    g = gen.gen_grid(rnd, tmin=1 if rnd.random() < 0.1 else 2, tmax=24 if big else 12, tz_prob=0.3)
    T = g['T_nominal']
    step_u = g['step_s'] / pd.Timedelta(1, g['unit']).total_seconds()   # nominal step in main time units
    two = rnd.random() < 0.3
    nodes = ['n1', 'n2'] if two else ['n1']
    prices = {}
    size = gen.q8(rnd, 0, 8) if rnd.random() < 0.9 else 0.0
    # rates in volume per main time unit; scale so that a few steps fill the storage

    pow2 = step_u in (0.25, 0.5, 1, 2, 4)

    def per_unit(v):
        """a volume per nominal step -> rate per main time unit, kept dyadic where the step length is"""
        if pow2:
            return v / step_u
        if step_u in (24, 60):
            return v / 64.0      # 24/64, 60/64 per step: still exact
        return v * 16.0          # step = 1/24 of the unit: tolerant stream anyway

    def rate():
        if rnd.random() < 0.06:
            return 0.0
        return per_unit(rnd.randint(1, 32) / 8.0)
    args = {'size': size, 'cap_in': rate(), 'cap_out': rate()}
    r = rnd.random()
    if r < 0.3:
        lvl = gen.q8(rnd, 0, size)
        args['start_level'] = lvl
        args['end_level'] = lvl
    elif r < 0.75:
        args['start_level'] = gen.q8(rnd, 0, size)
        args['end_level'] = gen.q8(rnd, 0, size)
    if rnd.random() < 0.4:
        args['eff_in'] = rnd.choice([0.5, 0.75, 0.875, 0.25, 1.0, 1.25])
    if rnd.random() < 0.25:
        args['cost_in'] = gen.q8(rnd, 0, 1)
    if rnd.random() < 0.25:
        args['cost_out'] = gen.q8(rnd, 0, 1)
    if rnd.random() < 0.3:
        args['cost_store'] = gen.q8(rnd, 0, 0.5)
    if rnd.random() < 0.35:
        args['inflow'] = per_unit(gen.q8(rnd, 0, 1) if rnd.random() < 0.9 else gen.q8(rnd, -0.25, 0))
    if rnd.random() < 0.3:
        args['price'] = gen.price_key(rnd, prices, T)
    if rnd.random() < 0.15:
        args['wacc'] = rnd.choice([0.05, 0.1, 0.5])
    mip = rnd.random() < mip_prob
    if mip and rnd.random() < 0.6:
        args['no_simult_in_out'] = True
        if rnd.random() < 0.8 and not two and 'eff_in' not in args and 'cost_in' not in args and 'cost_out' not in args:
            args['eff_in'] = 0.5
    if mip and (rnd.random() < 0.6 or 'no_simult_in_out' not in args):
        k = rnd.randint(1, 4)
        dy = pow2 or step_u in (24, 60)
        # limit in main time units: whole steps (boundary case, only where step lengths are exact) or between steps
        args['max_store_duration'] = float(k * step_u) if (dy and rnd.random() < 0.5) else float((k + 0.5) * step_u)
    if rnd.random() < 0.3 and g['step_s'] <= 4 * 3600:
        args['block_size'] = rnd.choice(BLOCKS)
    w = gen.window(rnd, g)
    wk = gen.put_window(args, w)
    feats = ['window:' + wk]
    # malformed inputs
    if rnd.random() < malformed_prob:
        m = rnd.choice(['neg_cap_in', 'neg_cap_out', 'start_gt_size', 'missing_price', 'price_len', 'three_nodes'])
        feats.append('malformed:' + m)
        if m == 'neg_cap_in':
            args['cap_in'] = -0.5
        elif m == 'neg_cap_out':
            args['cap_out'] = -0.25
        elif m == 'start_gt_size':
            args['start_level'] = size + 0.5
        elif m == 'missing_price':
            args['price'] = 'nokey'
        elif m == 'price_len':
            args['price'] = 'short'
            prices['short'] = [1.0] * (T + 1)
        elif m == 'three_nodes':
            nodes = ['n1', 'n2', 'n3']
    # market per node (oracle portfolio)
    market = {}
    for n in nodes[:2]:
        key = 'm_' + n
        lo = -4 if rnd.random() < 0.4 else 1
        prices[key] = [gen.q8(rnd, lo, 20) for _ in range(T)]
        market[n] = {'price': key, 'cap': per_unit(64.0)}
    return {'grid': g, 'nodes': nodes, 'name': rnd.choice(['sto', 'sto', 's 1', '7']), 'args': args, 'prices': prices,
            'market': market, 'order': rnd.choice(['first', 'last', 'middle']), 'features': feats}


def focus_holding(case, rnd):
    """raise the density of a combination the random draw rarely hits: holding costs together with discounting, in
    the one-variable form (no charging loss, no in/out costs) or the two-variable form"""
    a = case['args']
    a['cost_store'] = gen.q8(rnd, 0.125, 0.5)
    a['wacc'] = rnd.choice([0.05, 0.1, 0.5, 1.0])
    if rnd.random() < 0.7:
        for k in ('eff_in', 'cost_in', 'cost_out', 'no_simult_in_out'):
            a.pop(k, None)
    case.setdefault('features', []).append('focus:holding')
    return case


def focus_blocks(case, rnd):
    """several time blocks inside the window, start level above end level, no MIP options: every block after the first
    starts from the END level, so selling early in a block is limited by it"""
    a = case['args']
    g = case['grid']
    if g['step_s'] > 4 * 3600 or g['T_nominal'] < 4:
        return case
    size = max(1.0, float(a.get('size', 4.0)))
    a['size'] = size
    k = rnd.choice([2, 2, 3, 4])
    if rnd.random() < 0.6:
        k = max(1, min(k, g['T_nominal'] // 3))       # at least three blocks
        a['inflow'] = gen.q8(rnd, 0.125, 0.5) * (3600.0 / g['step_s'] if g['step_s'] <= 3600 else 0.25)
    tot = g['step_s'] * k
    a['block_size'] = ('%dmin' % (tot // 60)) if tot % 3600 else ('%dh' % (tot // 3600))
    a['start_level'] = gen.q8(rnd, size / 2, size)
    a['end_level'] = gen.q8(rnd, 0, size / 4)
    for o in ('no_simult_in_out', 'max_store_duration', 'start', 'end'):
        a.pop(o, None)
    if a.get('cap_out', 0) == 0:
        a['cap_out'] = 1.0
    case['features'] = [f for f in case.get('features', []) if not f.startswith('window:')] + ['window:none', 'focus:blocks']
    # selling is attractive at the beginning of the horizon and of every block
    for key in list(case['prices']):
        if key.startswith('m_'):
            T = len(case['prices'][key])
            case['prices'][key] = [(18.0 if t % k == 0 else 2.0) + gen.q8(rnd, 0, 1) for t in range(T)]
    return case


# ------------------------------------------------------------------ input FORMS of the numbers
# A whole number can reach the constructor as Python int, numpy integer, Python float or numpy float, a price series as an
# array of integer or float dtype (or, for contracts, as a list of ints).  The case keeps the exact VALUE in `args` /
# `prices` (that is what the model and the oracle read); the record `forms` = {'args': {param: form}, 'prices': {key: form}}
# only says in which form the real objects get it.  A form that cannot hold the value exactly is never applied.
FORM_PARAMS = ('size', 'cap_in', 'cap_out', 'start_level', 'end_level', 'eff_in', 'inflow', 'cost_in', 'cost_out',
               'cost_store', 'max_store_duration', 'wacc')
SCALAR_FORMS = {'float': float, 'np.float64': np.float64, 'int': int, 'np.int64': np.int64, 'np.int32': np.int32}
INT_FORMS = ('int', 'np.int64', 'np.int32')
ARRAY_FORMS = {'float64': lambda v: np.asarray(v, dtype=np.float64), 'int64': lambda v: np.asarray([int(x) for x in v], dtype=np.int64),
               'int32': lambda v: np.asarray([int(x) for x in v], dtype=np.int32), 'list-int': lambda v: [int(x) for x in v]}


def is_whole(v):
    return isinstance(v, (int, float)) and not isinstance(v, bool) and float(v) == int(v) and abs(v) < 2 ** 31


def to_form(v, form):
    """the number v in the given form; the value itself never changes (else the plain float is kept)"""
    if form in INT_FORMS and not is_whole(v):
        return float(v)
    out = SCALAR_FORMS[form](int(v) if form in INT_FORMS else v)
    return out if out == v else float(v)


def apply_forms(args, prices, forms):
    args = dict(args)
    for k, form in forms.get('args', {}).items():
        if k in args and isinstance(args[k], (int, float)) and not isinstance(args[k], bool):
            args[k] = to_form(args[k], form)
    prices = dict(prices)
    for k, form in forms.get('prices', {}).items():
        if k in prices:
            v = [float(x) for x in np.asarray(prices[k], dtype=float)]
            if form != 'float64' and not all(is_whole(x) for x in v):
                continue
            prices[k] = ARRAY_FORMS[form](v)
    return args, prices


def draw_forms(case, rnd, p_int=0.75):
    """per numeric parameter and per price series a form drawn from the seed: whole numbers as int / numpy integer with
    probability p_int, everything else as Python or numpy float.  Values are untouched."""
    a = case['args']
    fa, fp = {}, {}
    for k in FORM_PARAMS:
        if k not in a or a[k] is None:
            continue
        if is_whole(a[k]) and rnd.random() < p_int:
            fa[k] = rnd.choice(['int', 'int', 'int', 'np.int64', 'np.int32'])
        else:
            fa[k] = rnd.choice(['float', 'float', 'np.float64'])
    for k, v in case['prices'].items():
        if all(is_whole(x) for x in v) and rnd.random() < p_int:
            # Storage reads its own price series as an array (documented so); contracts also take lists
            fp[k] = rnd.choice(['int64', 'int64', 'int32'] + ([] if k == a.get('price') else ['list-int']))
        else:
            fp[k] = 'float64'
    case['forms'] = {'args': fa, 'prices': fp}
    return case


def focus_forms(case, rnd):
    """raise the density of WHOLE-NUMBER parameters (which a user writes as 4, not 4.0) next to fractional ones: whole size and
    start level with a fractional end level and vice versa, whole rates / costs / inflow / holding limit / price series; often
    without inflow and blocks (the plain level rows); then a form is drawn for every number (draw_forms)"""
    import math
    a = case['args']
    if rnd.random() < 0.85:
        a['size'] = float(rnd.randint(1, 8))
    size = a['size']
    n = int(math.floor(size))

    def whole():
        return float(rnd.randint(0, n))

    def frac():
        if size <= 0:
            return 0.0
        v = rnd.randint(0, max(0, int(math.ceil(size)) - 1)) + rnd.randint(1, 7) / 8.0
        return v if v <= size else gen.q8(rnd, 0, size)
    mode = rnd.choice(['whole-start/frac-end', 'whole-start/frac-end', 'frac-start/whole-end', 'both-whole', 'both-frac', 'as-drawn'])
    if mode == 'whole-start/frac-end':
        a['start_level'], a['end_level'] = whole(), frac()
    elif mode == 'frac-start/whole-end':
        a['start_level'], a['end_level'] = frac(), whole()
    elif mode == 'both-whole':
        a['start_level'], a['end_level'] = whole(), whole()
    elif mode == 'both-frac':
        a['start_level'], a['end_level'] = frac(), frac()
    else:
        # the generator keeps 0 <= level <= size (the constructor does not check the end level, see PARTIAL of C05)
        for k in ('start_level', 'end_level'):
            if a.get(k, 0.) > size:
                a[k] = gen.q8(rnd, 0, size)
    if rnd.random() < 0.6:
        a.pop('inflow', None)
        a.pop('block_size', None)
    elif 'inflow' in a and rnd.random() < 0.5:
        a['inflow'] = float(round(a['inflow']))          # whole, possibly an explicit 0
    for k in ('cap_in', 'cap_out'):
        if rnd.random() < 0.6:
            a[k] = float(max(1, math.ceil(a[k])))
    if 'eff_in' in a and rnd.random() < 0.3:
        a['eff_in'] = 1.0
    for k in ('cost_in', 'cost_out', 'cost_store'):
        if k in a and rnd.random() < 0.5:
            a[k] = float(rnd.randint(0, 2))
    if a.get('max_store_duration') is not None and rnd.random() < 0.5:
        a['max_store_duration'] = float(math.ceil(a['max_store_duration']))
    if 'wacc' in a and rnd.random() < 0.3:
        a['wacc'] = float(rnd.choice([0, 1]))
    for k in list(case['prices']):
        if rnd.random() < 0.5 and k != 'short':
            case['prices'][k] = [float(round(v)) for v in case['prices'][k]]
    case.setdefault('features', []).append('focus:forms:' + mode)
    return draw_forms(case, rnd, p_int=0.85)


def features(case):
    a = case['args']
    f = list(case.get('features', []))
    fo = case.get('forms')
    if fo:
        used = sorted(set(fo.get('args', {}).values()) | set('array:' + v for v in fo.get('prices', {}).values()))
        f += ['form:' + u for u in used]
        ia = [k for k, v in fo.get('args', {}).items() if v in INT_FORMS]
        if 'start_level' in ia and 'size' in ia:
            f.append('form:int-size-and-start')
            if not is_whole(a.get('end_level', 0.)) and not a.get('inflow') and 'block_size' not in a:
                f.append('form:int-size-and-start,frac-end,plain-rows')
        if 'end_level' in ia and not is_whole(a.get('start_level', 0.)):
            f.append('form:int-end,frac-start')
    f.append('nodes:%d' % len(case['nodes']))
    for k in ('eff_in', 'cost_in', 'cost_out', 'cost_store', 'inflow', 'price', 'wacc', 'no_simult_in_out',
              'max_store_duration', 'block_size'):
        if k in a and a[k] not in (None, False):
            f.append(k)
    if a.get('start_level', 0) != a.get('end_level', 0):
        f.append('start!=end')
    if case['grid'].get('tz'):
        f.append('tz')
    f.append('unit:%s/%s' % (case['grid']['freq'], case['grid']['unit']))
    return f


# ------------------------------------------------------------------ running the implementation
def block_starts(restr, block_size):
    """`aa` of Storage.setup_optim_problem after np.unique (same pandas expression as the code)"""
    try:
        buffer = pd.Timedelta(block_size)
    except Exception:
        buffer = pd.Timedelta(1, block_size)
    ind = pd.date_range(start=restr.start - buffer, end=restr.end, freq=block_size)
    aa = []
    for myd in ind:
        b = restr.timepoints <= myd
        if any(b):
            aa.append(int(np.argwhere(b)[-1, -1]))
        else:
            aa.append(0)
        if all(b):
            break
    return sorted(set(aa))


def _objects(case):
    tg = scen.make_grid(case['grid'])
    nodes = {n: eao.Node(n) for n in case['nodes']}
    args = scen.dec(copy.deepcopy(case['args']))
    nn = [nodes[n] for n in case['nodes']]
    prices = {k: np.asarray(v, dtype=float) for k, v in case['prices'].items()}
    if case.get('forms'):
        # the same VALUES handed over in other Python / numpy number forms (int, np.int64, int arrays ...)
        args, prices = apply_forms(args, prices, case['forms'])
    return tg, nodes, args, nn, prices


def run_impl(case, solve=True):
    """returns dict: grid (restricted, JSON), T, aa, result {'problem'} | {'error'}, and the portfolio run"""
    tg, nodes, args, nn, prices = _objects(case)
    tz = case['grid'].get('tz')
    rec = {'T': int(tg.T), 'tz': tz}
    # restricted grid exactly as Asset.set_timegrid makes it (also available when the constructor rejects)
    with Quiet():
        tg.set_wacc(args.get('wacc', 0.))
        tg.set_restricted_grid(args.get('start'), args.get('end'), None)
    restr = tg.restricted
    rec['grid'] = grid_json(restr, tz)
    rec['rstart'] = instant(restr.start, tz)
    rec['rend'] = instant(restr.end, tz)
    rec['aa'] = None
    if args.get('block_size') is not None and restr.T > 0:
        try:
            rec['aa'] = block_starts(restr, args['block_size'])
        except Exception as e:   # pandas calendar arithmetic fails (e.g. daily blocks over a non-existent local hour)
            rec['aa_error'] = err_class(e)
    try:
        with Quiet():
            a = eao.assets.Storage(name=case['name'], nodes=nn[0] if len(nn) == 1 else nn, **args)
            a.set_timegrid(tg)
            rec['grid'] = grid_json(a.timegrid.restricted, tz)
            op = a.setup_optim_problem(prices, tg)
        rec['result'] = {'problem': problem_json(op, name=case['name'], nodes=list(case['nodes']))}
        rec['n_rows'] = 0 if op.A is None else op.A.shape[0]
    except Exception as e:
        rec['result'] = {'error': err_class(e)}
        return rec
    if not solve:
        return rec
    # --- the storage in a small portfolio: one market per node
    try:
        with Quiet():
            a = eao.assets.Storage(name=case['name'], nodes=nn[0] if len(nn) == 1 else nn, **args)
            mk = [eao.assets.SimpleContract(name='mkt_' + n, nodes=nodes[n], price=m['price'], min_cap=-m['cap'], max_cap=m['cap'])
                  for n, m in case['market'].items()]
            assets = {'first': [a] + mk, 'last': mk + [a], 'middle': mk[:1] + [a] + mk[1:]}[case['order']]
            portf = eao.portfolio.Portfolio(assets)
            op = portf.setup_optim_problem(prices, tg)
            is_mip = bool(args.get('no_simult_in_out')) or args.get('max_store_duration') is not None
            res = op.optimize(solver='SCIPY') if is_mip else op.optimize()
            rec['portf'] = {'status': res if isinstance(res, str) else 'ok'}
            if not isinstance(res, str):
                out = eao.io.extract_output(portf, op, res, prices)
                iv = out['internal_variables']
                nm = case['name']
                rec['portf'].update({
                    'x': [float(v) for v in res.x], 'mapping': mapping_rows(op.mapping),
                    'fill_level': [float(v) for v in iv[nm + '_fill_level'].values],
                    'charge': [float(v) for v in iv[nm + '_charge'].values],
                    'discharge': [float(v) for v in iv[nm + '_discharge'].values],
                    'fill_level_method': [float(v) for v in a.fill_level(op, res)],
                    'tp': [instant(t, tz) for t in tg.timepoints], 'dt': [float(v) for v in tg.dt],
                    'value': float(res.value)})
    except Exception as e:
        rec['portf'] = {'status': 'error:' + err_class(e) + ':' + str(e)[:200]}
    return rec


# ------------------------------------------------------------------ requests for the model
def params_json(case, aa):
    a = case['args']
    return {'name': case['name'], 'nodes': list(case['nodes']), 'size': fs(a['size']), 'cap_in': fs(a['cap_in']),
            'cap_out': fs(a['cap_out']), 'start_level': fs(a.get('start_level', 0.)), 'end_level': fs(a.get('end_level', 0.)),
            'cost_in': fs(a.get('cost_in', 0.)), 'cost_out': fs(a.get('cost_out', 0.)), 'cost_store': fs(a.get('cost_store', 0.)),
            'eff_in': fs(a.get('eff_in', 1.)), 'inflow': fs(a.get('inflow', 0.)), 'price': a.get('price'),
            'no_simult': bool(a.get('no_simult_in_out', False)),
            'max_store_duration': None if a.get('max_store_duration') is None else fs(a['max_store_duration']),
            'blocks': aa}


def request(case, rec):
    return {'op': 'storage', 'params': params_json(case, rec['aa']), 'grid': rec['grid'], 'T': rec['T'],
            'prices': prices_json(case['prices'])}


def readout_request(case, rec):
    p = rec['portf']
    return {'op': 'storage_readout', 'params': params_json(case, rec['aa']), 'grid': rec['grid'], 'T': rec['T'],
            'mapping': p['mapping'], 'x': [fs(v) for v in p['x']]}


def blocks_request(case, rec):
    bs = case['args'].get('block_size')
    if rec['aa'] is None or bs not in TICK_S:
        return None
    return {'op': 'storage_blocks_tick', 'grid': rec['grid'], 'start': rec['rstart'], 'end': rec['rend'], 'block_s': TICK_S[bs]}


# ------------------------------------------------------------------ comparison
ERR_EQUIV = {'assert': {'assert', 'nan'}, 'value': {'length', 'ill-posed'}, 'index': {'index'},
             'not-implemented': {'not-implemented'}}


def is_exact(case, rec):
    if case['args'].get('wacc', 0.) != 0:
        return False
    return all(Fraction(v).denominator <= 64 for v in rec['grid']['dt'])


def compare(case, rec, model):
    """asset-level problem: model answer of op `storage` vs the real `setup_optim_problem`"""
    out = []
    im = rec['result']
    if 'error' in im or 'error' in model:
        if 'error' in im and 'error' in model:
            if model['error'] not in ERR_EQUIV.get(im['error'], {im['error']}):
                out.append('error class: %s (model) vs %s (impl)' % (model['error'], im['error']))
        else:
            out.append('outcome: %s (model) vs %s (impl)' % ('error ' + model['error'] if 'error' in model else 'problem',
                                                              'error ' + im['error'] if 'error' in im else 'problem'))
        return out
    tol = 0 if is_exact(case, rec) else TOL
    mp, ip = model['problem'], im['problem']
    out += cmp_problem('storage', mp, ip, tol, aspects=('c', 'l', 'u', 'rows', 'mapping'))
    if not out:
        # order and kinds of the rows as in the code
        d = cmp_rows('storage.rows(ordered)', mp['rows'], ip['rows'], tol, ordered=True)
        if d:
            out.append(d)
        if [m['var'] for m in mp['mapping']] != [m['var'] for m in ip['mapping']]:
            out.append('storage.mapping: order of rows differs')
    if mp['name'] != ip['name'] or mp['nodes'] != ip['nodes']:
        out.append('storage: name/nodes %r %r vs %r %r' % (mp['name'], mp['nodes'], ip['name'], ip['nodes']))
    return out


def compare_readout(case, rec, model):
    out = []
    p = rec['portf']
    for k in ('fill_level', 'charge', 'discharge'):
        a, b = model[k], p[k]
        if len(a) != len(b):
            out.append('readout.%s: length %d (model) vs %d (impl)' % (k, len(a), len(b)))
            continue
        for t, (x, y) in enumerate(zip(a, b)):
            if not feq(Fraction(x), Fraction(float(y)), TOL):
                out.append('readout.%s step %d: %s (model) vs %s (impl)' % (k, t, float(Fraction(x)), y))
                break
    for t, (x, y) in enumerate(zip(model['fill_level'], p['fill_level_method'])):
        if not feq(Fraction(x), Fraction(float(y)), TOL):
            out.append('Storage.fill_level step %d: %s (model) vs %s (impl)' % (t, float(Fraction(x)), y))
            break
    return out


# ------------------------------------------------------------------ C05 oracle on the real code
def oracle(case, rec):
    """physical level recomputed from the returned x and the storage's parameters (not its rows)"""
    p = rec.get('portf')
    if not p or p.get('status') != 'ok':
        return []
    a = case['args']
    nm = case['name']
    tz = case['grid'].get('tz')
    size, cap_in, cap_out = a['size'], a['cap_in'], a['cap_out']
    start_l, end_l = a.get('start_level', 0.), a.get('end_level', 0.)
    eff, inflow = a.get('eff_in', 1.), a.get('inflow', 0.)
    msd = a.get('max_store_duration')
    tp, dt_all = p['tp'], p['dt']
    T = len(tp)
    # active window, independently of the asset's restricted grid
    s = instant(scen.dec(a['start']), tz) if 'start' in a else None
    e = instant(scen.dec(a['end']), tz) if 'end' in a else None
    act = [t for t in range(T) if (s is None or tp[t] >= s) and (e is None or tp[t] < e)]
    x = p['x']
    rows = [m for m in p['mapping'] if m['asset'] == nm and m['kind'] == 'd']
    seen = set()
    charge = np.zeros(T)
    dis = np.zeros(T)
    two_vars = any(m['var_name'] == 'disp_in' for m in rows)
    for m in rows:
        if m['var'] in seen:
            continue
        seen.add(m['var'])
        v = x[m['var']]
        t = m['step']
        if m['var_name'] == 'disp_in':
            charge[t] += -v
        elif m['var_name'] == 'disp_out':
            dis[t] += v
        else:
            charge[t] += max(0., -v)
            dis[t] += max(0., v)
    scale = max(1.0, abs(size), abs(start_l), abs(end_l), max([abs(cap_in * d) for d in dt_all] + [0]), max([abs(cap_out * d) for d in dt_all] + [0]))
    tol = 2e-5 * scale
    viol = []

    def add(orc, detail, **facts):
        f = dict(facts)
        f.update({'max_store_duration': msd is not None, 'start_level_nonzero': start_l != 0, 'inflow_nonzero': inflow != 0,
                  'blocks': 'block_size' in a, 'two_vars': two_vars, 'nodes': len(case['nodes'])})
        viol.append({'oracle': orc, 'detail': detail, 'facts': f})
    # nothing may happen outside the active window
    for t in range(T):
        if t not in act and (abs(charge[t]) > tol or abs(dis[t]) > tol):
            add('storage.window', 'step %d outside the active window has charge %.6g / discharge %.6g' % (t, charge[t], dis[t]))
            break
    lvl = {}
    cur = start_l
    for t in act:
        cur = cur + eff * charge[t] - dis[t] + inflow * dt_all[t]
        lvl[t] = cur
    for t in act:
        if lvl[t] < -tol or lvl[t] > size + tol:
            add('storage.level_bounds', 'physical level %.6g at step %d outside [0, %.6g]' % (lvl[t], t, size), step=t)
            break
    if act and abs(lvl[act[-1]] - end_l) > tol:
        add('storage.end_level', 'physical level %.6g at last active step %d, end level %.6g' % (lvl[act[-1]], act[-1], end_l))
    for t in act:
        if charge[t] > cap_in * dt_all[t] + tol or dis[t] > cap_out * dt_all[t] + tol or charge[t] < -tol or dis[t] < -tol:
            add('storage.rates', 'step %d: charge %.6g (limit %.6g), discharge %.6g (limit %.6g)' % (
                t, charge[t], cap_in * dt_all[t], dis[t], cap_out * dt_all[t]), step=t)
            break
    if a.get('no_simult_in_out') and two_vars:
        for t in act:
            if min(charge[t], dis[t]) > 10 * tol:
                add('storage.no_simult', 'step %d: charge %.6g and discharge %.6g at the same time' % (t, charge[t], dis[t]), step=t)
                break
    if msd is not None:
        # in every run of steps whose total length first exceeds the limit, the level must reach zero
        for i, t0 in enumerate(act):
            cum = 0.0
            win = []
            beyond = False
            for t in act[i:]:
                cum += dt_all[t]
                win.append(t)
                if cum > msd * (1 + 1e-12):
                    beyond = True
                    break
            if beyond and all(lvl[t] > 10 * tol for t in win):
                add('storage.max_hold', 'level non-zero on steps %d..%d (%.6g time units > limit %.6g); levels %s' % (
                    win[0], win[-1], cum, msd, [round(float(lvl[t]), 6) for t in win][:8]), step=t0)
                break
    # reported series
    # the solver respects the sign bounds only up to its feasibility tolerance; a variable at +/-1e-6 is booked by
    # the code on the other side (max(0,-x) / min(0,-x)), so the reported series are compared at solver tolerance
    rep_tol = tol
    exp_lvl = []
    cur = start_l
    for t in range(T):
        if t in lvl:
            cur = lvl[t]
        exp_lvl.append(cur)
    for t in range(T):
        if abs(p['fill_level'][t] - exp_lvl[t]) > rep_tol:
            add('storage.reported', 'reported fill level %.8g at step %d, physical level %.8g' % (p['fill_level'][t], t, exp_lvl[t]),
                what='fill_level', step=t)
            break
    for t in range(T):
        if abs(p['fill_level_method'][t] - exp_lvl[t]) > rep_tol:
            add('storage.reported', 'Storage.fill_level %.8g at step %d, physical level %.8g' % (p['fill_level_method'][t], t, exp_lvl[t]),
                what='fill_level_method', step=t)
            break
    for t in range(T):
        if abs(p['charge'][t] - charge[t]) > rep_tol:
            add('storage.reported', 'reported charge %.8g at step %d, charged %.8g' % (p['charge'][t], t, charge[t]), what='charge', step=t)
            break
    for t in range(T):
        if abs(p['discharge'][t] + dis[t]) > rep_tol:
            add('storage.reported', 'reported discharge %.8g at step %d, discharged %.8g (reported with negative sign)' % (
                p['discharge'][t], t, dis[t]), what='discharge', step=t)
            break
    return viol


def nontrivial(case, rec):
    """the optimum moves volume through the storage"""
    p = rec.get('portf')
    if not p or p.get('status') != 'ok':
        return False
    return max([abs(v) for v in p['charge']] + [abs(v) for v in p['discharge']] + [0]) > 1e-6


# ------------------------------------------------------------------ one case, self-test
def run_case(case, drv, solve=True):
    r = {'evaluated': 1, 'nontrivial': False, 'features': features(case), 'disagreements': [], 'violations': []}
    rec = run_impl(case, solve=solve)
    if rec.get('aa_error'):
        # block boundaries are an input of the model; when pandas cannot compute them the code must fail as well
        r['features'].append('blocks:pandas-error:' + rec['aa_error'])
        if 'error' not in rec['result']:
            r['disagreements'].append({'component': 'storage', 'detail': 'pandas date_range failed (%s) in the harness but set-up succeeded' % rec['aa_error']})
        return r
    ans = drv.ask(request(case, rec))
    if 'ok' not in ans:
        r['disagreements'].append({'component': 'storage', 'detail': 'driver: %s' % ans.get('err')})
        return r
    model = ans['ok']
    r['features'].append('result:' + ('error:' + rec['result']['error'] if 'error' in rec['result'] else
                                      ('empty' if not rec['result']['problem']['c'] else 'problem')))
    r['features'].append('exact' if is_exact(case, rec) else 'tolerant')
    for d in compare(case, rec, model):
        r['disagreements'].append({'component': 'storage', 'detail': d})
    br = blocks_request(case, rec)
    if br is not None:
        ans = drv.ask(br)
        if 'ok' not in ans or ans['ok']['aa'] != rec['aa']:
            r['disagreements'].append({'component': 'storage.blocks_tick', 'detail': 'aa %s (model) vs %s (pandas)' % (ans.get('ok', ans), rec['aa'])})
        r['features'].append('blocks_tick')
    p = rec.get('portf')
    if p:
        r['features'].append('solve:' + p['status'].split(':')[0] + (':' + p['status'].split(':')[1] if p['status'].startswith('error') else ''))
        if p['status'] == 'ok':
            ans = drv.ask(readout_request(case, rec))
            if 'ok' not in ans:
                r['disagreements'].append({'component': 'storage.readout', 'detail': 'driver: %s' % ans.get('err')})
            else:
                for d in compare_readout(case, rec, ans['ok']):
                    r['disagreements'].append({'component': 'storage.readout', 'detail': d})
            r['violations'] = oracle(case, rec)
            r['nontrivial'] = nontrivial(case, rec)
    return r


def selftest(n, seed, drv, solve=True, verbose=False):
    rnd = random.Random(seed)
    counts = {'cases': 0, 'disagreeing': 0, 'violating': 0, 'nontrivial': 0}
    feats = {}
    dis, viol = [], []
    for i in range(n):
        case = gen_case(random.Random(rnd.getrandbits(48)))
        r = run_case(case, drv, solve=solve)
        counts['cases'] += 1
        counts['nontrivial'] += int(r['nontrivial'])
        for f in r['features']:
            feats[f] = feats.get(f, 0) + 1
        if r['disagreements']:
            counts['disagreeing'] += 1
            dis.append((i, case, r['disagreements']))
            if verbose:
                print('DISAGREE', i, r['disagreements'][:2])
        if r['violations']:
            counts['violating'] += 1
            viol.append((i, case, r['violations']))
            if verbose:
                print('VIOLATION', i, [(v['oracle'], v['detail']) for v in r['violations']][:3])
    return {'counts': counts, 'features': feats, 'disagreements': dis, 'violations': viol}


# ------------------------------------------------------------------ C12: the holding-time limit under a change of the main time unit
# A "hold" case is unit-free: volumes per grid step, durations in whole grid steps.  `unit_hold_scenario(case, unit)` expresses it
# for one main time unit the way a user would: rate = volume per step / (step / unit), duration = steps x (step / unit), each
# rounded ONCE to the nearest float (k/24, k/96, k*60 ...).  Used by the stream "non-dyadic unit change" of harness/props/c12.py.
UNIT_S_C12 = {'s': 1, 'min': 60, 'h': 3600, 'd': 86400, 'W': 604800}


def unit_rate(vol_per_step, step_s, unit):
    """volume per grid step -> rate per main time unit (nearest float of the exact quotient)"""
    return float(Fraction(vol_per_step) * Fraction(UNIT_S_C12[unit], step_s))


def unit_duration(steps, step_s, unit):
    """a number of grid steps -> duration in main time units (nearest float of the exact quotient)"""
    return float(Fraction(steps) * Fraction(step_s, UNIT_S_C12[unit]))


def unit_grid(case, unit):
    s = pd.Timestamp(case['start'])
    return {'start': gen.iso(s), 'end': gen.iso(s + pd.Timedelta(seconds=case['step_s'] * case['T'])), 'freq': case['freq'],
            'unit': unit, 'tz': None}


def step_date(case, t):
    return {'$dt': gen.iso(pd.Timestamp(case['start']) + pd.Timedelta(seconds=case['step_s'] * t))}


def gen_unit_hold_case(rnd, freq, step_s, T, literal=False):
    """a storage whose only (or best) profitable cycle needs the FULL maximal holding time of D grid steps.
    literal: the two-contract situation in which the dependence on the unit was first seen (buy in one step, sell D steps later);
    else a market (bid-ask spread) with a price series: cheap block, dear block ending D steps after the first cheap step, optional
    further spikes at other distances, optional charging loss / holding cost / inflow / no-simultaneous-in-out / window / discounting."""
    c = {'family': 'hold', 'freq': freq, 'step_s': step_s, 'T': T, 'start': '2021-01-01T00:00:00', 'focus': 'max_store_duration'}
    if literal:
        D = rnd.randint(1, T - 1)
        c.update({'form': 'two-contracts', 'D': D, 't0': rnd.randint(0, T - 1 - D) if rnd.random() < 0.5 else 0, 'size': 10.0,
                  'fill_in': 1, 'fill_out': 1, 'buy': 10.0, 'sell': 100.0, 'opts': {}})
        return c
    c['start'] = rnd.choice(['2021-01-01T00:00:00', '2021-06-14T00:00:00', '2022-02-03T06:00:00'])
    fin, fout = rnd.choice([(1, 1), (1, 1), (2, 1), (1, 2), (2, 2)])
    D = rnd.randint(1, T - 2)
    if D < fin + fout - 1:
        fin = fout = 1
    t0 = rnd.randint(0, T - 1 - D)
    size = rnd.choice([4.0, 8.0, 10.0])
    p = [50.0 + gen.q8(rnd, 0, 2) for _ in range(T)]
    for t in range(t0, t0 + fin):
        p[t] = 10.0 + gen.q8(rnd, 0, 2)
    for t in range(t0 + D - fout + 1, t0 + D + 1):
        p[t] = 100.0 + gen.q8(rnd, 0, 2)
    for _ in range(rnd.choice([0, 0, 1, 2])):
        # further spikes: a cheap and a dear step at another distance (longer ones cannot be used, shorter ones are distractors)
        a = rnd.randint(0, T - 2)
        b = min(T - 1, a + max(1, D + rnd.choice([-2, -1, 1, 2, 3])))
        if p[a] >= 50 and p[b] < 100 and a != b:
            p[a] = 20.0 + gen.q8(rnd, 0, 2)
            p[b] = max(p[b], 80.0 + gen.q8(rnd, 0, 2))
    opts = {}
    if rnd.random() < 0.3:
        opts['eff_in'] = rnd.choice([0.5, 0.75, 0.875])
    if rnd.random() < 0.3:
        opts['cost_store_step'] = rnd.choice([0.125, 0.25, 0.5])      # cost per stored volume and grid step
    if rnd.random() < 0.2:
        opts['inflow_step'] = rnd.choice([0.125, 0.25, 0.5])          # volume per grid step
    if rnd.random() < 0.2:
        opts['no_simult_in_out'] = True
    if rnd.random() < 0.25:
        opts['window'] = [rnd.randint(0, t0), rnd.randint(t0 + D + 1, T)]
    if rnd.random() < 0.15:
        opts['wacc'] = rnd.choice([0.05, 0.1])                        # discounting: the exponent converts main time units to days
    c.update({'form': 'market', 'D': D, 't0': t0, 'size': size, 'fill_in': fin, 'fill_out': fout, 'p': p, 'spread': rnd.choice([8.0, 16.0, 24.0]), 'opts': opts})
    return c


def unit_hold_scenario(case, unit, shift=0):
    """the hold case expressed for main time unit `unit` (scenario for harness/scen.build); shift: the holding limit in grid steps
    is D + shift (used to see whether the limit binds)"""
    s, T = case['step_s'], case['T']
    o = case.get('opts', {})
    st = {'size': case['size'], 'cap_in': unit_rate(case['size'] / case['fill_in'], s, unit), 'cap_out': unit_rate(case['size'] / case['fill_out'], s, unit),
          'start_level': 0.0, 'end_level': 0.0, 'max_store_duration': unit_duration(case['D'] + shift, s, unit)}
    if 'eff_in' in o:
        st['eff_in'] = o['eff_in']
    if 'cost_store_step' in o:
        st['cost_store'] = unit_rate(o['cost_store_step'], s, unit)
    if 'inflow_step' in o:
        st['inflow'] = unit_rate(o['inflow_step'], s, unit)
    if o.get('no_simult_in_out'):
        st['no_simult_in_out'] = True
    if 'window' in o:
        st['start'], st['end'] = step_date(case, o['window'][0]), step_date(case, o['window'][1])
    wacc = {'wacc': o['wacc']} if 'wacc' in o else {}
    st.update(wacc)
    assets = [{'type': 'Storage', 'name': 'st', 'nodes': ['n'], 'args': st}]
    if case['form'] == 'two-contracts':
        cap = unit_rate(case['size'], s, unit)
        t0, D = case['t0'], case['D']
        prices = {'buy': [case['buy']] * T, 'sell': [case['sell']] * T}
        assets.append({'type': 'SimpleContract', 'name': 'src', 'nodes': ['n'], 'args': {
            'price': 'buy', 'min_cap': 0.0, 'max_cap': cap, 'start': step_date(case, t0), 'end': step_date(case, t0 + 1)}})
        assets.append({'type': 'SimpleContract', 'name': 'snk', 'nodes': ['n'], 'args': {
            'price': 'sell', 'min_cap': -cap, 'max_cap': 0.0, 'start': step_date(case, t0 + D), 'end': step_date(case, t0 + D + 1)}})
    else:
        # a market with a bid-ask spread (selling and buying back in the same step is not free: else no holding limit ever binds)
        cap = unit_rate(2 * case['size'], s, unit)
        prices = {'ask': [v + case['spread'] / 2 for v in case['p']], 'bid': [v - case['spread'] / 2 for v in case['p']]}
        assets.append({'type': 'SimpleContract', 'name': 'buy', 'nodes': ['n'], 'args': dict({'price': 'ask', 'min_cap': 0.0, 'max_cap': cap}, **wacc)})
        assets.append({'type': 'SimpleContract', 'name': 'sell', 'nodes': ['n'], 'args': dict({'price': 'bid', 'min_cap': -cap, 'max_cap': 0.0}, **wacc)})
    return {'grid': unit_grid(case, unit), 'nodes': ['n'], 'prices': prices, 'assets': assets}
