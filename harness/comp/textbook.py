"""C02 reference equivalence: an independently written TEXTBOOK linear programme for portfolios of
contracts, transports, storages and multi-commodity contracts, solved with scipy/HiGHS, against eaopack.

The reference is built ONLY from the scenario (parameters, prices, grid start/end/freq/unit/tz); it does
not touch an eaopack object.  It is formulated over PHYSICAL quantities (the Lean twin of this file is
`EAO/Spec/Textbook.lean`):

  grid        points p_0 < ... < p_T from pandas.date_range; dt_t = (p_{t+1}-p_t)/unit, the time between the two INSTANTS (a
              daily step of a zone with daylight saving lasts 23 or 25 hours when the clocks change; stream `dst`);
              df_t = (1+wacc)^(-(elapsed days to the END of step t)/365), wacc per asset
  window      an asset lives on the steps t with  start <= p_t < end  (defaults: the horizon)
  contract    net volume q_t in [min_t, max_t]*dt_t, flow +q_t into its node,
              cash -df_t*(price_t*q_t + ec_t*|q_t|);
              takes: for a period [s,e) with volume V:  sum_{t active, s<=p_t<e} q_t  (<= | >=)  V*covered/(e-s),
              covered = sum of dt over those steps (e-s in main time units); no such step -> no restriction
  multi       a contract whose flow into node k is factor_k*q_t (takes act on q)
  transport   a line between node 0 and node 1; [min,max] bound the signed rate "from node 0 to node 1".  PHYSICAL form: the
              flow is split into a forward part fw_t in [max(min,0), max(max,0)]*dt_t SENT from node 0 (eff*fw_t arrives at
              node 1) and a backward part bw_t in [max(-max,0), max(-min,0)]*dt_t SENT from node 1 (eff*bw_t arrives at
              node 0): delivered = eff x sent, whatever the direction; cash -df_t*cost_t*(fw_t + bw_t) (costs per unit sent);
              takes on the net volume leaving node 0, fw_t - eff*bw_t.
              With min >= 0 (bw = 0) or eff = 1 this is the signed single-variable form f = fw - bw, flows (-f, +eff*f), cash
              -df*cost*|f| of `EAO/Spec/Textbook.lean` (TransportS); with min < 0 and eff != 1 the two differ (finding F-02c
              of eaopack: a reversed flow is DIVIDED by the efficiency; see `run_case`)
  storage     charge ch_t in [0,cap_in*dt_t], discharge di_t in [0,cap_out*dt_t],
              L_t = L_{t-1} + eff*ch_t - di_t + inflow*dt_t, L_{-1} = start level, 0 <= L_t <= size, L_last = end level,
              flow di_t - ch_t (two nodes: -ch_t at node 0, +di_t at node 1),
              cash df_t*(price_t*(di_t-ch_t) - cost_in*ch_t - cost_out*di_t) - cost_store*dt_t*df_t*L_t
  portfolio   at every node and step the flows of all assets add up to zero; maximise total cash.

|q| is modelled by an epigraph variable a >= q, a >= -q (needs a non-negative coefficient); the two parts of a transport are
non-negative, so their costs are linear.

eaopack leaves the holding cost of the start level and of the accumulated inflow out of its value (docstring
of Storage: "constant contribution not part of output NPV"); the exact constant is
    K = cost_store * sum_t dt_t*df_t*(start + inflow*sum_{i<=t} dt_i),          V_eaopack = V_textbook + K.

A case is a portfolio scenario of harness.gen (plain JSON).
"""
import copy
import random
import traceback

import numpy as np
import pandas as pd
import scipy.sparse as sp
from scipy.optimize import linprog

KINDS = ['simple', 'contract', 'transport', 'ext_transport', 'storage', 'storage2', 'multi']
VALUE_TOL = 2e-6
FEAS_TOL = 1e-6

# registry entries for the property module (module, theorem, reading)
THEOREMS_C02 = [
    ('EAO.Properties.C02', 'EAO.C02.portfolio_refines', 'if every asset problem and its textbook semantics dominate each other (same flows, no less cash, both directions), then every feasible point of the assembled problem maps to a textbook-feasible portfolio point with the same flows per asset and no less value, and vice versa; hence the same upper bounds of the value sets = the same optimum (no optimum assumed to exist)'),
    ('EAO.Properties.C02', 'EAO.C02.storage_refines_two', 'plain LP storage, two variables per step (efficiency, in/out costs, two nodes): the problem buildStorage returns and the textbook storage (rates, level recursion with efficiency on the charge side, 0<=L<=size, L_last=end, flows -ch/+di, cash incl. holding cost on the level) have the SAME attainable (flows, cash) pairs; eaopack value = textbook cash + holdingConstant'),
    ('EAO.Properties.C02', 'EAO.C02.storage_refines_one', 'the same for the one-variable form (x = di - ch)'),
    ('EAO.Properties.C02', 'EAO.C02.transport_refines', 'buildTransport vs the textbook transport in its SIGNED form (Spec/Textbook.lean TransportS: f in [min,max]*dt, flows -f / +eff*f, cash -df*cost*|f|): same attainable pairs, incl. the sign flip of the costs when all capacities are <= 0.  The signed form is the physical line (delivered = eff x sent in either direction; reference LP of the oracle) only under the hypothesis min_cap >= 0 or eff = 1, evaluated per case (hypotheses_failing: forward-or-lossless); outside it the theorem still ties the code to the signed form, and the oracle shows that this form is not the physical one (finding F-02c)'),
    ('EAO.Properties.C02', 'EAO.C02.contract_refines_one', 'buildSimpleContract in its one-variable form vs textbook contract (q in [min_t,max_t]*dt_t with the rates make_vector returns, flow +q, cash -df*(price*q + ec*|q|)): same attainable pairs'),
    ('EAO.Properties.C02', 'EAO.C02.contract_refines_two', 'buildSimpleContract in its two-variable form, under ec_t >= 0 and df_t >= 0: problem and textbook contract dominate each other (Refines): textbook -> model by splitting q into negative and positive part (same flow, same cash), model -> textbook by netting x_in + x_out (same flow, no less cash)'),
    ('EAO.Properties.C02', 'EAO.C02.take_rows_spec', 'the take rows of buildContract hold at x iff the textbook take constraints sum_{t in period and window} q_t (<=|>=) V*covered/((e-s)/unit) hold, q = x (one variable) resp. x_in + x_out (two variables); periods covering no step give no row'),
    ('EAO.Properties.C02', 'EAO.C02.contract_take_refines', 'buildContract (capacities, spread, min/max takes) vs the textbook contract with the same periods: same attainable pairs in the one-variable form, mutual domination in the two-variable form under ec >= 0, df >= 0'),
    ('EAO.Properties.C02', 'EAO.C02.multi_refines', 'buildMulti vs the textbook multi-commodity contract: flows factor_k*q_t at node k, feasible set (capacities, takes on q) and cash of the underlying contract; exact resp. Refines as for contracts'),
    ('EAO.Properties.C02', 'EAO.C02.take_rows_spec_transport', 'the take rows of buildExtTransport (at the first node, factor -1, negated volume, L for a maximum and U for a minimum) hold iff the textbook take constraints on the volume f leaving the first node hold (two different nodes)'),
    ('EAO.Properties.C02', 'EAO.C02.ext_transport_refines', 'buildExtTransport vs the textbook transport (signed form, as for transport_refines: physical under min_cap >= 0 or eff = 1) with take periods: same attainable (flows, cash) pairs'),
    ('EAO.Properties.C02', 'EAO.C02.empty_window_refines', 'on a window without a step every contract/transport builder returns the problem without variables, which attains exactly (no flow, no cash), as does every textbook contract and transport on that window'),
    ('EAO.Properties.C02', 'EAO.C02.empty_window_refines_storage', 'the same for buildStorage (any options)'),
    ('EAO.Properties.C02', 'EAO.C02.simple_data', 'inversion of buildSimpleContract: sampled price, spread, rates lo/hi that make_vector returns, volume limits = rate*dt, one- or two-variable problem'),
    ('EAO.Properties.C02', 'EAO.C02.Ex.ec_nonneg_needed', 'witness that the two-variable contract needs ec >= 0: spread -1 lets the model earn 2 with zero net flow, the textbook contract earns 0'),
]
COMPONENTS_C02 = ['oracle textbook: independent scipy/HiGHS LP over physical quantities (transports as lines with a forward and a backward part; step lengths = time between the instants of consecutive grid points) vs eaopack optimum (2e-6 rel.) and feasibility of eaopack\'s dispatch in it (1e-6); repeated set-up on the same objects; violations explained by a finding the reference can reproduce (F-19c, F-02c) carry that finding\'s fact `kind`',
                  'builder correspondences: harness/comp/contract.py, harness/comp/storage.py']


# =========================================================================================== the reference
def forever_overflows(tz):
    """known finding F-19c of eaopack (Timegrid.values_to_grid): interval data with a single start and no end is
    'valid for ever', implemented as end = pd.Timestamp.max, which is then localised to the grid's zone; in a zone
    west of UTC that overflows int64 and wraps to the distant past, so the value is silently dropped"""
    if tz is None:
        return False
    try:
        return bool(pd.to_datetime([pd.Timestamp.max]).tz_localize(tz).asi8[0] < 0)
    except Exception:
        return False


class Grid:
    def __init__(self, g, follow=()):
        self.tz = g.get('tz')
        self.follow = frozenset(follow)     # ids of findings of eaopack the reference REPRODUCES instead of the documented meaning
        self.follow_f19c = 'F-19c' in self.follow
        self.f19c_hits = 0                  # number of parameters to which F-19c applies
        self.f02c_hits = []                 # transports to which F-02c applies (negative capacity with efficiency != 1)
        s = pd.Timestamp(g['start'], tz=self.tz)
        e = pd.Timestamp(g['end'], tz=self.tz)
        self.start, self.end = s, e
        self.pts = pd.date_range(start=s, end=e, freq=g['freq'])
        self.unit = pd.Timedelta(1, g.get('unit', 'h'))
        self.T = len(self.pts) - 1
        self.dt = np.array([(self.pts[i + 1] - self.pts[i]) / self.unit for i in range(self.T)], dtype=float)
        # elapsed time from the start of the horizon to the END of each step, in days
        self.days_end = np.cumsum(self.dt) * (self.unit / pd.Timedelta(days=1))

    def loc(self, v):
        """a user date as an instant: naive dates are local times of the grid's zone"""
        if isinstance(v, dict):
            v = v.get('$dt', v.get('$ts'))
        t = pd.Timestamp(v)
        if t.tzinfo is None and self.tz is not None:
            try:
                t = t.tz_localize(self.tz)
            except Exception as e:      # ambiguous or non-existent local time (daylight saving switch)
                raise ValueError('not a local time of the zone: %s' % t)
        return t

    def discount(self, wacc):
        return (1.0 + wacc) ** (-self.days_end / 365.0)

    def active(self, args):
        s = self.loc(args['start']) if args.get('start') is not None else self.start
        e = self.loc(args['end']) if args.get('end') is not None else self.end
        return [t for t in range(self.T) if s <= self.pts[t] < e]


def _naive(v):
    if isinstance(v, dict):
        v = v.get('$dt', v.get('$ts'))
    return pd.Timestamp(v)


def series(G, value, prices, steps, default=None):
    """value of a parameter (number | key of a price series | interval data) at the given steps"""
    if isinstance(value, (int, float)):
        return np.full(len(steps), float(value))
    if isinstance(value, str):
        arr = np.asarray(prices[value], dtype=float)
        if len(arr) != G.T:
            raise ValueError('series %s has the wrong length' % value)
        return arr[steps] if len(steps) else np.zeros(0)
    # interval data: value v_i holds on [start_i, end_i); missing ends: next start, the last one twice the last gap
    starts = [_naive(x) for x in value['start']]
    if 'end' in value:
        ends = [_naive(x) for x in value['end']]
    elif len(starts) > 1:
        ends = starts[1:] + [starts[-1] + 2 * (starts[-1] - starts[-2])]
    else:
        ends = [None]
        if forever_overflows(G.tz):
            G.f19c_hits += 1
            if G.follow_f19c:
                starts, ends = [], []
    out = np.full(len(steps), np.nan)
    for s, e, v in zip(starts, ends, value['values']):
        s = G.loc(s)
        e = G.loc(e) if e is not None else None
        for k, t in enumerate(steps):
            if s <= G.pts[t] and (e is None or G.pts[t] < e):
                if not np.isnan(out[k]):
                    raise ValueError('overlapping intervals')
                out[k] = v
    if default is not None:
        out[np.isnan(out)] = default
    return out


class LP:
    """maximise cash . z  subject to rows and bounds; columns are appended asset by asset"""

    def __init__(self):
        self.lo, self.hi, self.cash = [], [], []
        self.rows = []          # (coeffs {col: a}, sense '<=' | '>=' | '=', rhs, label)
        self.flows = {}         # (node, step) -> {col: factor}
        self.names = []

    def var(self, lo, hi, cash=0.0, name=''):
        self.lo.append(lo)
        self.hi.append(hi)
        self.cash.append(cash)
        self.names.append(name)
        return len(self.lo) - 1

    def row(self, coeffs, sense, rhs, label=''):
        self.rows.append((coeffs, sense, rhs, label))

    def flow(self, node, step, col, factor):
        d = self.flows.setdefault((node, step), {})
        d[col] = d.get(col, 0.0) + factor

    def absvar(self, col, bound, coef, name):
        """epigraph variable a >= |z_col| with cash -coef*a (coef >= 0)"""
        a = self.var(0.0, bound, -coef, name)
        self.row({a: 1.0, col: -1.0}, '>=', 0.0, name + ' >= +')
        self.row({a: 1.0, col: 1.0}, '>=', 0.0, name + ' >= -')
        return a

    def solve(self):
        n = len(self.lo)
        ub_r, ub_c, ub_v, ub_b = [], [], [], []
        eq_r, eq_c, eq_v, eq_b = [], [], [], []
        allrows = list(self.rows) + [(d, '=', 0.0, 'balance %s@%d' % k) for k, d in self.flows.items()]
        for coeffs, sense, rhs, _ in allrows:
            if sense == '=':
                i = len(eq_b)
                for c, a in coeffs.items():
                    eq_r.append(i), eq_c.append(c), eq_v.append(a)
                eq_b.append(rhs)
            else:
                sg = 1.0 if sense == '<=' else -1.0
                i = len(ub_b)
                for c, a in coeffs.items():
                    ub_r.append(i), ub_c.append(c), ub_v.append(sg * a)
                ub_b.append(sg * rhs)
        if n == 0:
            return {'status': 'optimal', 'value': 0.0, 'z': np.zeros(0)}
        kw = {}
        if ub_b:
            kw['A_ub'] = sp.csr_matrix((ub_v, (ub_r, ub_c)), shape=(len(ub_b), n))
            kw['b_ub'] = np.asarray(ub_b)
        if eq_b:
            kw['A_eq'] = sp.csr_matrix((eq_v, (eq_r, eq_c)), shape=(len(eq_b), n))
            kw['b_eq'] = np.asarray(eq_b)
        if any(l > h for l, h in zip(self.lo, self.hi)):
            return {'status': 'infeasible', 'value': None, 'z': None}
        res = linprog(-np.asarray(self.cash), bounds=list(zip(self.lo, self.hi)), method='highs', **kw)
        if res.status == 0:
            return {'status': 'optimal', 'value': float(-res.fun), 'z': np.asarray(res.x)}
        return {'status': {2: 'infeasible', 3: 'unbounded'}.get(res.status, 'failed:%s' % res.status), 'value': None, 'z': None}


def take_rows(G, lp, take, sense, cols, steps, label):
    """sum over the active steps inside [s,e) of the volume (<=|>=) V prorated to the covered time; the volume of a step is
    one column or a linear expression {column: factor}"""
    if take is None:
        return
    for s, e, v in zip(take['start'], take['end'], take['values']):
        s, e = G.loc(s), G.loc(e)
        inside = [k for k, t in enumerate(steps) if s <= G.pts[t] < e]
        if not inside:
            continue
        covered = sum(G.dt[steps[k]] for k in inside)
        total = (e - s) / G.unit
        co = {}
        for k in inside:
            for col, fac in (cols[k].items() if isinstance(cols[k], dict) else [(cols[k], 1.0)]):
                co[col] = co.get(col, 0.0) + fac
        lp.row(co, sense, float(v) * covered / total, label)


def add_contract(G, lp, spec, prices, phys):
    a = spec['args']
    steps = G.active(a)
    df = G.discount(a.get('wacc', 0.0))
    price = series(G, a['price'], prices, steps) if a.get('price') is not None else np.zeros(len(steps))
    lo = series(G, a.get('min_cap', 0.0), prices, steps)
    hi = series(G, a.get('max_cap', 0.0), prices, steps)
    ec = series(G, a.get('extra_costs', 0.0), prices, steps, default=0.0)
    if np.isnan(lo).any() or np.isnan(hi).any():
        raise ValueError('capacity undefined on part of the window')
    if (ec < 0).any():
        raise Unsupported('negative extra costs')
    factors = a.get('factors_commodities') if spec['type'] == 'MultiCommodityContract' else [1.0]
    cols = []
    for k, t in enumerate(steps):
        l, h = lo[k] * G.dt[t], hi[k] * G.dt[t]
        q = lp.var(l, h, -df[t] * price[k], '%s.q[%d]' % (spec['name'], t))
        if ec[k] != 0:
            lp.absvar(q, max(abs(l), abs(h)), df[t] * ec[k], '%s.|q|[%d]' % (spec['name'], t))
        for node, fac in zip(spec['nodes'], factors):
            lp.flow(node, t, q, float(fac))
        cols.append(q)
    if spec['type'] != 'SimpleContract':
        take_rows(G, lp, a.get('max_take'), '<=', cols, steps, spec['name'] + ' max take')
        take_rows(G, lp, a.get('min_take'), '>=', cols, steps, spec['name'] + ' min take')
    phys[spec['name']] = {'kind': 'contract', 'steps': steps, 'q': cols, 'lo': lo * G.dt[steps] if steps else lo,
                          'hi': hi * G.dt[steps] if steps else hi, 'price': price, 'ec': ec, 'df': df}


def add_transport(G, lp, spec, prices, phys):
    """the physical line: forward part fw (sent from node 0) and backward part bw (sent from node 1), both >= 0; each loses
    (1 - eff) of what is SENT in its own direction; costs per unit sent.  When the reference is asked to reproduce finding
    F-02c of eaopack (`'F-02c' in G.follow`), the backward part of a transport with a negative capacity and eff != 1 gets the
    factors of eaopack's single signed variable instead: bw arrives at node 0 and eff*bw leaves node 1 (a reversed flow is
    divided by the efficiency instead of multiplied)"""
    a = spec['args']
    steps = G.active(a)
    df = G.discount(a.get('wacc', 0.0))
    cost = np.full(len(steps), float(a.get('costs_const', 0.0)))
    if a.get('costs_time_series') is not None:
        cost = cost + series(G, a['costs_time_series'], prices, steps)
    if (cost < 0).any():
        raise Unsupported('negative transport costs')
    lo = series(G, a.get('min_cap', 0.0), prices, steps)
    hi = series(G, a.get('max_cap', 0.0), prices, steps)
    eff = float(a.get('efficiency', 1.0))
    lossy_reverse = bool(len(steps)) and eff != 1.0 and bool((lo < 0).any())
    if lossy_reverse:
        G.f02c_hits.append(spec['name'])
    # factors of the backward part at (node 0, node 1)
    bfac = (1.0, -eff) if (lossy_reverse and 'F-02c' in G.follow) else (eff, -1.0)
    fw, bw, net = [], [], []
    for k, t in enumerate(steps):
        l, h = lo[k] * G.dt[t], hi[k] * G.dt[t]
        f = lp.var(max(l, 0.0), max(h, 0.0), -df[t] * cost[k], '%s.fw[%d]' % (spec['name'], t))
        b = lp.var(max(-h, 0.0), max(-l, 0.0), -df[t] * cost[k], '%s.bw[%d]' % (spec['name'], t))
        # (an empty capacity interval l > h leaves one of the two parts with an empty interval, too)
        lp.flow(spec['nodes'][0], t, f, -1.0)
        lp.flow(spec['nodes'][1], t, f, eff)
        lp.flow(spec['nodes'][0], t, b, bfac[0])
        lp.flow(spec['nodes'][1], t, b, bfac[1])
        fw.append(f), bw.append(b)
        net.append({f: 1.0, b: -bfac[0]})       # net volume leaving node 0
    if spec['type'] == 'ExtendedTransport':
        take_rows(G, lp, a.get('max_take'), '<=', net, steps, spec['name'] + ' max take')
        take_rows(G, lp, a.get('min_take'), '>=', net, steps, spec['name'] + ' min take')
    phys[spec['name']] = {'kind': 'transport', 'steps': steps, 'fw': fw, 'bw': bw, 'lo': lo * G.dt[steps] if steps else lo,
                          'hi': hi * G.dt[steps] if steps else hi, 'cost': cost, 'df': df, 'eff': eff, 'bfac': bfac,
                          'lossy_reverse': lossy_reverse}


def add_storage(G, lp, spec, prices, phys):
    a = spec['args']
    for o in ('no_simult_in_out', 'max_store_duration', 'block_size'):
        if a.get(o):
            raise Unsupported('storage option ' + o)
    steps = G.active(a)
    df = G.discount(a.get('wacc', 0.0))
    price = series(G, a['price'], prices, steps) if a.get('price') is not None else np.zeros(len(steps))
    size, cap_in, cap_out = float(a['size']), float(a['cap_in']), float(a['cap_out'])
    start, end = float(a.get('start_level', 0.0)), float(a.get('end_level', 0.0))
    eff, inflow = float(a.get('eff_in', 1.0)), float(a.get('inflow', 0.0))
    c_in, c_out, c_st = float(a.get('cost_in', 0.0)), float(a.get('cost_out', 0.0)), float(a.get('cost_store', 0.0))
    nodes = spec['nodes']
    ch, di, lv = [], [], []
    const = 0.0     # holding cost of start level + accumulated inflow, which eaopack leaves out of its value
    cum_inflow = 0.0
    for k, t in enumerate(steps):
        d = G.dt[t]
        last = (k == len(steps) - 1)
        c = lp.var(0.0, cap_in * d, df[t] * (-price[k] - c_in), '%s.ch[%d]' % (spec['name'], t))
        o = lp.var(0.0, cap_out * d, df[t] * (price[k] - c_out), '%s.di[%d]' % (spec['name'], t))
        L = lp.var(max(0.0, end) if last else 0.0, min(size, end) if last else size, -c_st * d * df[t], '%s.L[%d]' % (spec['name'], t))
        # level recursion
        co = {L: 1.0, c: -eff, o: 1.0}
        rhs = inflow * d
        if k == 0:
            rhs += start
        else:
            co[lv[-1]] = -1.0
        lp.row(co, '=', rhs, '%s level[%d]' % (spec['name'], t))
        lp.flow(nodes[0], t, c, -1.0)
        lp.flow(nodes[-1], t, o, 1.0)
        ch.append(c), di.append(o), lv.append(L)
        cum_inflow += inflow * d
        const += c_st * d * df[t] * (start + cum_inflow)
    phys[spec['name']] = {'kind': 'storage', 'steps': steps, 'ch': ch, 'di': di, 'L': lv, 'const': const, 'df': df,
                          'size': size, 'cap_in': cap_in, 'cap_out': cap_out, 'start': start, 'end': end, 'eff': eff,
                          'inflow': inflow, 'price': price, 'c_in': c_in, 'c_out': c_out, 'c_st': c_st}


class Unsupported(Exception):
    pass


BUILDERS = {'SimpleContract': add_contract, 'Contract': add_contract, 'MultiCommodityContract': add_contract,
            'Transport': add_transport, 'ExtendedTransport': add_transport, 'Storage': add_storage}


def textbook(scn, follow=()):
    """(Grid, LP, physical-variable directory) of the scenario; `follow`: ids of findings of eaopack to reproduce (see Grid)"""
    G = Grid(scn['grid'], follow)
    lp = LP()
    phys = {}
    for spec in scn['assets']:
        if spec['type'] not in BUILDERS:
            raise Unsupported('asset type ' + spec['type'])
        for o in ('freq', 'periodicity', 'profile'):
            if spec['args'].get(o) is not None:
                raise Unsupported('option ' + o)
        BUILDERS[spec['type']](G, lp, spec, scn.get('prices', {}), phys)
    return G, lp, phys


def constant(phys):
    return sum(p.get('const', 0.0) for p in phys.values())


# =========================================================================================== eaopack's dispatch in physical terms
def physical_of_eao(scn, G, phys, blocks, x):
    """eaopack's variable blocks mapped to the physical quantities of the reference:
    storage  2n variables: charge = -x_in, discharge = x_out; n variables: charge = max(-x,0), discharge = max(x,0)
    contract 2n variables: q = x_in + x_out;  n variables: q = x
    transport: the variable is the signed volume the capacities bound: forward part = max(x,0), backward part = max(-x,0)"""
    out = {}
    for spec in scn['assets']:
        p = phys[spec['name']]
        n = len(p['steps'])
        (lo, hi), = blocks[spec['name']]
        xa = np.asarray(x[lo:hi], dtype=float)
        if len(xa) not in (n, 2 * n):
            raise ValueError('asset %s has %d variables for %d active steps' % (spec['name'], len(xa), n))
        two = (len(xa) == 2 * n and n > 0)
        if p['kind'] == 'storage':
            if two:
                ch, di = -xa[:n], xa[n:]
            else:
                ch, di = np.maximum(-xa, 0.0), np.maximum(xa, 0.0)
            out[spec['name']] = {'ch': ch, 'di': di}
        elif p['kind'] == 'contract':
            out[spec['name']] = {'q': xa[:n] + xa[n:] if two else xa}
        else:
            if two:
                raise ValueError('transport %s with two variables per step' % spec['name'])
            out[spec['name']] = {'fw': np.maximum(xa, 0.0), 'bw': np.maximum(-xa, 0.0)}
    return out


def check_physical(scn, G, phys, pq, tol=FEAS_TOL):
    """violations of the textbook constraints by physical quantities pq (asset -> arrays); returns
    (list of strings, textbook cash of the point)"""
    bad = []
    flows = {}
    cash = 0.0
    scale = 1.0
    for v in pq.values():
        for arr in v.values():
            if len(arr):
                scale = max(scale, float(np.abs(arr).max()))
    eps = tol * scale

    def add_flow(node, t, v):
        flows[(node, t)] = flows.get((node, t), 0.0) + v

    def box(name, what, t, v, l, h):
        if v < l - eps or v > h + eps:
            bad.append('%s: %s at step %d is %.9g outside [%.9g, %.9g]' % (name, what, t, v, l, h))

    def takes(name, take, sense, vals, steps):
        if take is None:
            return
        for s, e, v in zip(take['start'], take['end'], take['values']):
            s, e = G.loc(s), G.loc(e)
            inside = [k for k, t in enumerate(steps) if s <= G.pts[t] < e]
            if not inside:
                continue
            lim = float(v) * sum(G.dt[steps[k]] for k in inside) / ((e - s) / G.unit)
            tot = float(sum(vals[k] for k in inside))
            e2 = eps * max(1, len(inside))
            if (sense == '<=' and tot > lim + e2) or (sense == '>=' and tot < lim - e2):
                bad.append('%s: volume %.9g in take period %s..%s violates %s %.9g' % (name, tot, s, e, sense, lim))

    for spec in scn['assets']:
        name, p, a = spec['name'], phys[spec['name']], spec['args']
        steps = p['steps']
        if p['kind'] == 'contract':
            q = pq[name]['q']
            facs = a.get('factors_commodities') if spec['type'] == 'MultiCommodityContract' else [1.0]
            for k, t in enumerate(steps):
                box(name, 'volume', t, q[k], p['lo'][k], p['hi'][k])
                for node, fac in zip(spec['nodes'], facs):
                    add_flow(node, t, fac * q[k])
                cash += -p['df'][t] * (p['price'][k] * q[k] + p['ec'][k] * abs(q[k]))
            if spec['type'] != 'SimpleContract':
                takes(name, a.get('max_take'), '<=', q, steps)
                takes(name, a.get('min_take'), '>=', q, steps)
        elif p['kind'] == 'transport':
            fw, bw = pq[name]['fw'], pq[name]['bw']
            b0, b1 = p['bfac']
            for k, t in enumerate(steps):
                box(name, 'volume sent forward', t, fw[k], max(p['lo'][k], 0.0), max(p['hi'][k], 0.0))
                box(name, 'volume sent backward', t, bw[k], max(-p['hi'][k], 0.0), max(-p['lo'][k], 0.0))
                add_flow(spec['nodes'][0], t, -fw[k] + b0 * bw[k])
                add_flow(spec['nodes'][1], t, p['eff'] * fw[k] + b1 * bw[k])
                cash += -p['df'][t] * p['cost'][k] * (fw[k] + bw[k])
            if spec['type'] == 'ExtendedTransport':
                net = [fw[k] - b0 * bw[k] for k in range(len(steps))]
                takes(name, a.get('max_take'), '<=', net, steps)
                takes(name, a.get('min_take'), '>=', net, steps)
        else:
            ch, di = pq[name]['ch'], pq[name]['di']
            L = p['start']
            for k, t in enumerate(steps):
                d = G.dt[t]
                box(name, 'charge', t, ch[k], 0.0, p['cap_in'] * d)
                box(name, 'discharge', t, di[k], 0.0, p['cap_out'] * d)
                L = L + p['eff'] * ch[k] - di[k] + p['inflow'] * d
                e2 = eps * (k + 1)
                if L < -e2 or L > p['size'] + e2:
                    bad.append('%s: level after step %d is %.9g outside [0, %.9g]' % (name, t, L, p['size']))
                if k == len(steps) - 1 and abs(L - p['end']) > e2:
                    bad.append('%s: final level %.9g differs from end level %.9g' % (name, L, p['end']))
                add_flow(spec['nodes'][0], t, -ch[k])
                add_flow(spec['nodes'][-1], t, di[k])
                cash += p['df'][t] * (p['price'][k] * (di[k] - ch[k]) - p['c_in'] * ch[k] - p['c_out'] * di[k]) - p['c_st'] * d * p['df'][t] * L
    for (node, t), v in sorted(flows.items()):
        if abs(v) > eps * 4:
            bad.append('node %s step %d: physical flows add up to %.9g' % (node, t, v))
    return bad, cash


# =========================================================================================== property-module interface
def gen_case(rnd):
    from .. import gen
    scn = gen.gen_portfolio(rnd, kinds=KINDS, allow_mip=False, allow_freq=False, allow_periodic=False, allow_blocks=False)
    # raise the density of the combinations the property is about (options drawn from the same ranges as harness.gen)
    for a in scn['assets']:
        args = a['args']
        if a['type'] == 'Storage' and rnd.random() < 0.35:
            if 'eff_in' not in args and rnd.random() < 0.6:
                args['eff_in'] = rnd.choice([0.5, 0.75, 0.875, 0.9])
            if 'inflow' not in args and rnd.random() < 0.6:
                args['inflow'] = gen.q8(rnd, 0, 0.5)
            if 'cost_store' not in args and rnd.random() < 0.6:
                args['cost_store'] = gen.q8(rnd, 0.125, 0.5)
            if 'start_level' not in args and rnd.random() < 0.5:
                args['start_level'] = gen.q8(rnd, 0, args['size'])
                args['end_level'] = gen.q8(rnd, 0, args['size'])
        if a['type'] == 'Storage' and args.get('cost_store') and 'wacc' not in args and rnd.random() < 0.6:
            # holding costs are the one cost of a storage that accrues per time, not per flow: discounting matters
            args['wacc'] = rnd.choice([0.1, 0.5, 1.0, 3.0])
        if 'wacc' not in args and rnd.random() < 0.2:
            args['wacc'] = rnd.choice([0.05, 0.1, 0.5, 0.07])
    forward_or_lossless(scn)
    return scn


def forward_or_lossless(scn):
    """harness.gen.gen_transport draws 20 % of the transports with capacities [-c, 0] (used from the second to the first node)
    and, independently, an efficiency from {0.25, 0.5, 0.75, 0.875, 1, 1.5}.  With a negative capacity AND efficiency != 1
    eaopack does not describe a physical line (finding F-02c); the general streams keep such transports LOSSLESS (efficiency 1:
    the reversed direction with the sign flip of the costs stays covered, efficiencies stay covered by the 80 % forward
    transports); reversed lossy lines are the subject of the probe stream `gen_reversed_case`.  No random draw is consumed."""
    for a in scn['assets']:
        if a['type'] in ('Transport', 'ExtendedTransport'):
            args = a['args']
            lo = args.get('min_cap', 0.0)
            if (not isinstance(lo, (int, float)) or lo < 0) and args.get('efficiency', 1.0) != 1.0:
                args['efficiency'] = 1.0
    return scn


def gen_reversed_case(rnd):
    """probe stream `reversed`: a line with losses (efficiency in (0,1)) between two nodes whose capacities allow a flow from its
    SECOND to its first node (capacities <= 0, or of both signs - then without costs, as eaopack demands), or, as a control,
    only forward; Transport or ExtendedTransport (takes limit the volume taken back at the first node); prices around the
    two thresholds at which the reversed flow pays (eaopack's: p_first > eff*p_second + cost; a physical line's:
    eff*p_first > p_second + cost), one- or two-sided markets at the two nodes, sometimes a further contract, window, wacc"""
    from .. import gen
    g = gen.gen_grid(rnd, tmin=2, tmax=8)
    T = gen.real_T(g)
    n0, n1 = 'N1', 'N2'                      # the transport's node list is [n0, n1]
    prices = {}
    direction = rnd.choice(['reverse', 'reverse', 'reverse', 'both', 'both', 'forward'])
    eff = rnd.choice([0.5, 0.75, 0.8, 0.875, 0.9, 0.25, round(rnd.uniform(0.1, 0.99), 3)])
    targs = {'efficiency': eff}
    c = gen.q8(rnd, 0.5, 6)
    if direction == 'reverse':
        targs['min_cap'], targs['max_cap'] = -c, (0.0 if rnd.random() < 0.75 else -gen.q8(rnd, 0, c))
    elif direction == 'both':
        targs['min_cap'], targs['max_cap'] = -c, gen.q8(rnd, 0.5, 6)
    else:
        targs['min_cap'], targs['max_cap'] = (0.0 if rnd.random() < 0.75 else gen.q8(rnd, 0, c)), c
    cmax = 0.0
    if direction != 'both':                  # eaopack accepts capacities of both signs only without costs
        if rnd.random() < 0.5:
            targs['costs_const'] = gen.q8(rnd, 0, 2)
            cmax += targs['costs_const']
        if rnd.random() < 0.3:
            prices['tc'] = [gen.q8(rnd, 0, 2) for _ in range(T)]
            targs['costs_time_series'] = 'tc'
            cmax += 2.0
    ext = rnd.random() < 0.45
    if ext:
        if rnd.random() < 0.6 and direction != 'forward':
            targs['min_take'] = gen.take_dict(rnd, g, -20, -1)       # at most so much taken back at the first node
        if rnd.random() < 0.4:
            targs['max_take'] = gen.take_dict(rnd, g, 0, 10) if direction != 'reverse' else gen.take_dict(rnd, g, 0, 0)
    if rnd.random() < 0.3:
        gen.put_window(targs, gen.window(rnd, g, kinds=['inside', 'start_only', 'end_only', 'straddle_end', 'straddle_start']))
    if rnd.random() < 0.2:
        targs['wacc'] = rnd.choice([0.05, 0.1, 0.5])
    # prices: the source node is where the flow the capacities allow starts
    src, dst = (n0, n1) if direction == 'forward' else (n1, n0)
    if direction == 'both':
        prices['p_' + n0] = [gen.q8(rnd, 1, 12) for _ in range(T)]
        prices['p_' + n1] = [gen.q8(rnd, 1, 12) for _ in range(T)]
    else:
        ps = [gen.q8(rnd, 1, 10) for _ in range(T)]
        prices['p_' + src] = ps
        prices['p_' + dst] = [gen.q8(rnd, max(0.0, eff * p - 1), (p + cmax) / eff + 6) for p in ps]
    assets = []
    for nd in (n0, n1):
        r = rnd.random()
        if direction == 'both' or r < 0.35:
            lo, hi = -40.0, 40.0             # two-sided market
        elif nd == src:
            lo, hi = 0.0, rnd.choice([100.0, 40.0, gen.q8(rnd, 1, 8)])       # supply only
        else:
            lo, hi = -rnd.choice([100.0, 40.0, gen.q8(rnd, 1, 8)]), 0.0      # demand only
        a = {'type': 'SimpleContract', 'name': 'mkt_' + nd, 'nodes': [nd], 'args': {'min_cap': lo, 'max_cap': hi, 'price': 'p_' + nd}}
        if rnd.random() < 0.2:
            a['args']['extra_costs'] = gen.q8(rnd, 0.125, 1)
        assets.append(a)
    assets.insert(rnd.randint(0, 2), {'type': 'ExtendedTransport' if ext else 'Transport', 'name': 'line', 'nodes': [n0, n1], 'args': targs})
    if rnd.random() < 0.3:
        assets.append(gen.gen_simple_contract(rnd, g, prices, T, 'sc', rnd.choice([n0, n1])))
    return {'grid': g, 'nodes': [n0, n1], 'prices': prices, 'assets': assets, 'probe': {'direction': direction, 'efficiency': eff}}


# ------------------------------------------------------------------------------------------- stream `dst`
# grids whose steps are whole calendar days of a zone with daylight saving: pandas steps such a grid from local wall-clock time
# to the same wall-clock time n days later, so the step that contains a clock change is shorter or longer than n x 24 h.
# The reference (class Grid) takes every step length from the INSTANTS of the two grid points.
DST_ZONES = ['CET', 'Europe/Berlin', 'Europe/London', 'Europe/Lisbon', 'US/Eastern', 'America/Chicago', 'US/Pacific',
             'America/St_Johns', 'Australia/Sydney', 'Australia/Lord_Howe', 'Pacific/Auckland', 'Africa/Casablanca']
PLAIN_ZONES = ['UTC', 'Asia/Tokyo', None]
# (frequency, days per step, weight); 'W' is replaced by the weekly frequency anchored at the weekday of the start
DAY_FREQS = [('d', 1, 6), ('2d', 2, 3), ('3d', 3, 2), ('7d', 7, 3), ('W', 7, 2), ('14d', 14, 1), ('30d', 30, 1), ('1D', 1, 1)]
_CHANGES = {}


def clock_changes(tz, first='2021-01-01', last='2023-12-31'):
    """local dates around which the clocks of the zone change: [(date, seconds gained (+: longer day))], found by comparing the
    instants of consecutive local noons (a local noon always exists)"""
    if tz not in _CHANGES:
        noons = pd.date_range(pd.Timestamp(first + ' 12:00'), pd.Timestamp(last + ' 12:00'), freq='D').tz_localize(tz)
        sec = np.diff(noons.asi8) // 10 ** 9
        _CHANGES[tz] = [(noons[i + 1].tz_localize(None).normalize(), int(sec[i] - 86400)) for i in np.nonzero(sec != 86400)[0]]
    return _CHANGES[tz]


def gen_day_grid(rnd, tmin=2, tmax=9):
    """a grid of whole-day steps ('d', '2d', '3d', '7d', weekly, '14d', '30d') in main time unit h / d / min; in 90 % of the
    draws in a zone with daylight saving and placed so that a clock change (spring or autumn, either hemisphere, 30-minute and
    Ramadan changes included) falls into a randomly chosen step of the horizon (first and last included), sometimes two changes;
    start at local midnight or at another hour of the day that exists on every day.  Controls: zones without daylight saving,
    no zone, horizon away from the change."""
    from .. import gen
    for _ in range(20):
        freq, mult, _w = rnd.choices(DAY_FREQS, weights=[w for _, _, w in DAY_FREQS])[0]
        unit = rnd.choice(['h', 'h', 'h', 'd', 'd', 'min'])
        dst = rnd.random() < 0.9
        tz = rnd.choice(DST_ZONES) if dst else rnd.choice(PLAIN_ZONES)
        T = rnd.randint(tmin, tmax)
        if mult >= 14:
            T = rnd.randint(tmin, max(tmin, tmax - 2)) + (rnd.choice([0, 0, 8]) if mult == 14 else 0)
        hour = rnd.choice([0, 0, 0, 0, 6, 12, 18, 22])
        changes = clock_changes(tz) if (dst and tz is not None) else []
        if changes:
            c, _gain = rnd.choice(changes[:-1])
            j = rnd.randint(0, T - 1)               # the step that shall contain the change
            r = rnd.randint(0, mult - 1)            # the day of that step
            start = c - pd.Timedelta(days=j * mult + r)
            if rnd.random() < 0.06:
                start = start + pd.Timedelta(days=(T + 3) * mult)      # control: the horizon starts after the change
        else:
            start = pd.Timestamp('2021-01-01') + pd.Timedelta(days=rnd.randint(0, 400))
        start = start.normalize() + pd.Timedelta(hours=hour)
        if freq == 'W':
            freq = 'W-' + start.day_name()[:3].upper()
        end = start + pd.Timedelta(days=T * mult)
        g = {'start': gen.iso(start), 'end': gen.iso(end), 'freq': freq, 'unit': unit, 'tz': tz, 'T_nominal': T, 'step_s': mult * 86400}
        try:
            gen.fix_grid(g)
        except Exception:       # a local time that does not exist / is ambiguous: draw again
            continue
        if g['T_nominal'] != T:
            continue
        return g
    raise RuntimeError('no grid drawn')


def gen_dst_case(rnd):
    """stream `dst`: a portfolio of the asset classes of the property on a grid of `gen_day_grid`, with the options that depend on
    the LENGTH of a step drawn densely: volume limits rate x step length that bind (small rates against a deep market, sizes of
    storages and take volumes of the order of a step's volume), takes over periods that cut the horizon (prorated), holding
    costs, inflow, discount rates"""
    from .. import gen
    g = gen_day_grid(rnd)
    T = g['T_nominal']
    unit_h = {'h': 1.0, 'd': 24.0, 'min': 1.0 / 60.0}[g['unit']]
    per_step = g['step_s'] / 3600.0 / unit_h          # nominal step length in main time units
    prices = {}
    nn = rnd.choice([1, 1, 2, 2, 3])
    nodes = ['N%d' % i for i in range(1, nn + 1)]
    assets = []
    for n in nodes:
        if rnd.random() < 0.92:
            cap = rnd.choice([40.0, 40.0, 40.0, 12.0, gen.q8(rnd, 2, 8)])
            a = {'type': 'SimpleContract', 'name': 'mkt%d' % (len(assets) + 1), 'nodes': [n],
                 'args': {'min_cap': -cap, 'max_cap': cap, 'price': gen.price_key(rnd, prices, T)}}
            if rnd.random() < 0.3:
                a['args']['extra_costs'] = gen.q8(rnd, 0.125, 1)
            assets.append(a)

    def rescale_take(args, by):
        for o in ('max_take', 'min_take'):
            if o in args:
                args[o]['values'] = [v * by for v in args[o]['values']]

    for _ in range(rnd.randint(1, 4)):
        kind = rnd.choice(KINDS)
        node = rnd.choice(nodes)
        two = rnd.sample(nodes, 2) if nn >= 2 else None
        name = '%s%d' % ({'simple': 'sc', 'contract': 'ct', 'transport': 'tr', 'ext_transport': 'xt', 'storage': 'st', 'storage2': 'st', 'multi': 'mc'}[kind], len(assets) + 1)
        if kind == 'simple':
            a = gen.gen_simple_contract(rnd, g, prices, T, name, node)
        elif kind == 'contract':
            a = gen.gen_contract(rnd, g, prices, T, name, node)
        elif kind in ('transport', 'ext_transport') and two:
            a = gen.gen_transport(rnd, g, prices, T, name, two[0], two[1], ext=(kind == 'ext_transport'))
        elif kind in ('storage', 'storage2'):
            a = gen.gen_storage(rnd, g, prices, T, name, two if (kind == 'storage2' and two) else [node], False, False)
        elif kind == 'multi' and two:
            a = gen.gen_multi(rnd, g, prices, T, name, two)
        else:
            continue
        args = a['args']
        # quantities measured in volumes (takes, sizes, levels) brought to the order of a step's volume
        if rnd.random() < 0.75:
            by = per_step * rnd.choice([0.25, 0.5, 1.0, 1.0, 2.0])
            rescale_take(args, by * rnd.choice([1, 1, 2, T]) / 8.0)
            if a['type'] == 'Storage':
                for o in ('size', 'start_level', 'end_level'):
                    if o in args:
                        args[o] = args[o] * by
        if a['type'] == 'Storage':
            if 'cost_store' not in args and rnd.random() < 0.5:
                args['cost_store'] = gen.q8(rnd, 0.125, 0.5) / max(1.0, per_step / 4)
            if 'inflow' not in args and rnd.random() < 0.3:
                args['inflow'] = gen.q8(rnd, 0, 0.5)
            if 'eff_in' not in args and rnd.random() < 0.3:
                args['eff_in'] = rnd.choice([0.5, 0.75, 0.875, 0.9])
        if rnd.random() < 0.35:
            gen.put_window(args, gen.window(rnd, g))
        if rnd.random() < 0.55:
            args['wacc'] = rnd.choice([0.05, 0.07, 0.1, 0.5, 1.0, 3.0])
        assets.append(a)
    if rnd.random() < 0.5:
        for a in assets:
            if a['name'].startswith('mkt') and rnd.random() < 0.7:
                a['args']['wacc'] = rnd.choice([0.05, 0.1, 0.5])
    if not assets:
        assets.append({'type': 'SimpleContract', 'name': 'mkt1', 'nodes': [nodes[0]], 'args': {'min_cap': -40.0, 'max_cap': 40.0, 'price': gen.price_key(rnd, prices, T)}})
    scn = {'grid': g, 'nodes': nodes, 'prices': prices, 'assets': assets}
    forward_or_lossless(scn)
    return scn


def day_grid_features(scn, G):
    """what the grid of a `dst` case exercises: lengths of its steps relative to the nominal one"""
    g = scn['grid']
    if not g.get('step_s') or G.T == 0:
        return []
    nominal = pd.Timedelta(seconds=g['step_s']) / G.unit
    d = np.round((G.dt - nominal) * (G.unit / pd.Timedelta(minutes=1)))
    f = []
    if (d < 0).any():
        f.append('day-grid:short-step')
    if (d > 0).any():
        f.append('day-grid:long-step')
    if not f:
        f.append('day-grid:uniform')
    if (d != 0).sum() > 1:
        f.append('day-grid:two-changes')
    return f


def features_of(scn):
    f = []
    for a in scn['assets']:
        t, args = a['type'], a['args']
        f.append('asset:' + t + ('2' if t == 'Storage' and len(a['nodes']) == 2 else ''))
        for o in ('wacc', 'start', 'end', 'max_take', 'min_take', 'extra_costs', 'efficiency', 'eff_in', 'inflow', 'cost_store',
                  'cost_in', 'cost_out', 'price', 'costs_const', 'costs_time_series'):
            if args.get(o) not in (None, 0, 0.0):
                f.append('opt:%s.%s' % (t, o))
        for o in ('min_cap', 'max_cap', 'extra_costs'):
            v = args.get(o)
            if isinstance(v, (str, dict)):
                f.append('form:%s.%s=%s' % (t, o, 'key' if isinstance(v, str) else 'dict'))
    g = scn['grid']
    f.append('grid:%s/%s' % (g['freq'], g.get('unit', 'h')))
    if g.get('tz'):
        f.append('tz')
    return sorted(set(f))


def kinds_of(scn):
    return sorted(set(a['type'] + ('2' if a['type'] == 'Storage' and len(a['nodes']) == 2 else '') for a in scn['assets']))


# findings of eaopack the reference can reproduce: id -> (fact `kind` of the violation, what the finding is)
FOLLOWABLE = {
    'F-19c': ('forever_end_overflow', 'interval data with a single start and no end is dropped on a grid in zone %(tz)s '
              '(pd.Timestamp.max overflows when localised)'),
    'F-02c': ('reversed_transport_gain', 'transport %(transports)s used in reverse (negative capacity) with efficiency %(efficiency)s: '
              'eaopack divides the reversed flow by the efficiency instead of multiplying (a line delivers efficiency x sent in '
              'either direction; with efficiency < 1 more arrives than is sent)'),
}


def run_case(case, drv=None):
    """property-module interface.  A violation that disappears when the reference REPRODUCES a finding of eaopack that applies
    to the case (F-19c, see `forever_overflows`; F-02c, see `add_transport`) is reported once, with the fact `kind` of that
    finding (kind='forever_end_overflow' / kind='reversed_transport_gain': what the `when` of the finding matches); findings
    are tried one by one, then together"""
    r = _run_case(case, ())
    hits = r.pop('_hits', {})
    if not r['violations']:
        return r
    cands = [k for k in ('F-19c', 'F-02c') if hits.get(k)]
    evaluated = 1
    for follow in [(k,) for k in cands] + ([tuple(cands)] if len(cands) > 1 else []):
        r2 = _run_case(case, follow)
        r2.pop('_hits', None)
        evaluated += 1
        if r2['violations'] or any(f.startswith(('reference-refuses', 'unsupported:')) for f in r2['features']):
            # (a reference that refuses the case when it follows the finding has compared nothing: that explains no violation)
            continue
        info = {'tz': case['grid'].get('tz'), 'transports': ', '.join(hits.get('F-02c') or []),
                'efficiency': ', '.join('%g' % e for e in hits.get('F-02c_eff', []))}
        first = r['violations'][0]
        detail = ' | '.join(v['detail'] for v in r['violations'][:2])
        r2['violations'] = []
        for k in follow:
            kind, text = FOLLOWABLE[k]
            facts = dict(first['facts'], kind=kind, whats=sorted(set(v['facts'].get('what') for v in r['violations'])))
            if k == 'F-02c':
                facts.update(transports=list(hits['F-02c']), efficiency=list(hits['F-02c_eff']), eff_lt_1=all(e < 1 for e in hits['F-02c_eff']),
                             eao_value=r['observed'].get('eao_value'), physical_value=r['observed'].get('textbook_value_plus_constant'),
                             value_with_finding_reproduced=r2['observed'].get('textbook_value_plus_constant'))
            r2['violations'].append({'oracle': 'textbook', 'detail': '%s: %s' % (text % info, detail), 'facts': facts})
            r2['features'].append('finding:' + k)
        r2['observed']['reference_reproduces'] = list(follow)
        r2['observed']['physical'] = {k: r['observed'].get(k) for k in ('textbook_value', 'textbook_value_plus_constant', 'cash_of_eao_dispatch_in_textbook')}
        r2['evaluated'] = evaluated
        return r2
    r['evaluated'] = evaluated
    return r


def step_length_probe(case):
    """the simplest portfolio on the grid of the case whose optimum shows every step length: a deep market (price 8, 10, 12, 8, ...
    per unit, wacc 10 %) and a source that delivers for free at a rate of at most 1.5 - the optimum sells 1.5 x step length in
    every step, discounted to the end of the step"""
    g = copy.deepcopy(case['grid'])
    T = Grid(g).T
    return {'grid': g, 'nodes': ['N1'], 'prices': {'pp': [8.0 + 2.0 * (t % 3) for t in range(T)]},
            'assets': [{'type': 'SimpleContract', 'name': 'mkt', 'nodes': ['N1'], 'args': {'min_cap': -40.0, 'max_cap': 40.0, 'price': 'pp', 'wacc': 0.1}},
                       {'type': 'SimpleContract', 'name': 'src', 'nodes': ['N1'], 'args': {'min_cap': 0.0, 'max_cap': 1.5}}]}


def _run_case(case, follow):
    """`_run_case_1` plus the treatment of step lengths: when eaopack's dt is not the time between the instants of its grid
    points, the violations of the case (optimum, dispatch) carry that fact; when the case itself shows none (nothing binds in the
    step concerned), the statement of the property is evaluated on the `step_length_probe` of the same grid"""
    r = _run_case_1(case, follow)
    d = r.get('observed', {}).get('step_length_difference')
    if d:
        note = 'step %d (%s .. %s) lasts %.9g main time units, eaopack\'s grid says %.9g' % (
            d['step'], d['point'], d['next_point'], d['dt_from_instants'], d['dt_eaopack'])
        if not r['violations']:
            g = case['grid']
            try:
                probe = step_length_probe(case)
                rp = _run_case_1(probe, follow)
                r['evaluated'] = r.get('evaluated', 1) + 1
                r['features'].append('step-length-probe')
                for v in rp['violations']:
                    v['detail'] = ('grid %s .. %s, freq %s, main time unit %s, zone %s; market (price %s, +-40, wacc 0.1) and a free source of rate <= 1.5 at one node: '
                                   % (g['start'], g['end'], g['freq'], g.get('unit', 'h'), g.get('tz'), probe['prices']['pp'][:4])) + v['detail']
                    v['facts']['probe_of_step_lengths'] = True
                    v['facts']['probe_case'] = probe
                    r['violations'].append(v)
                r['observed']['step_length_probe'] = {k: rp['observed'].get(k) for k in ('eao_value', 'textbook_value_plus_constant')}
            except Exception as e:
                r['features'].append('step-length-probe-error:' + type(e).__name__)
        if r['violations']:
            for v in r['violations']:
                v['detail'] += ' [' + note + ']'
                v['facts']['step_lengths_differ'] = True
        else:
            r['violations'].append({'oracle': 'textbook', 'detail': 'step lengths of eaopack\'s grid are not the time between its points: ' + note,
                                    'facts': {'what': 'step_length', 'kinds': kinds_of(case), 'step_lengths_differ': True}})
    return r


def _run_case_1(case, follow):
    from .. import pf, impl
    scn = case
    r = {'evaluated': 1, 'nontrivial': False, 'features': features_of(scn), 'disagreements': [], 'violations': [], 'observed': {}}
    feats = r['features']
    kinds = kinds_of(scn)

    def viol(what, detail, **facts):
        r['violations'].append({'oracle': 'textbook', 'detail': detail, 'facts': dict(what=what, kinds=kinds, **facts)})

    # ---- reference
    try:
        G, lp, phys = textbook(scn, follow)
        r['_hits'] = {'F-19c': G.f19c_hits, 'F-02c': list(G.f02c_hits), 'F-02c_eff': [phys[n]['eff'] for n in G.f02c_hits]}
    except Unsupported as e:
        feats.append('unsupported:' + str(e))
        return r
    except ValueError as e:
        # malformed input (undefined capacity, overlapping intervals): eaopack must refuse it too; not the subject here
        feats.append('reference-refuses:' + str(e)[:40])
        try:
            pf.setup_mono(copy.deepcopy(scn))
            feats.append('eaopack-accepts')
        except Exception:
            pass
        return r
    ref = lp.solve()
    K = constant(phys)
    r['observed'].update({'textbook_status': ref['status'], 'textbook_value': ref['value'], 'constant': K, 'T': G.T,
                          'n_phys_vars': len(lp.lo)})
    # ---- eaopack
    try:
        rec = pf.setup_mono(copy.deepcopy(scn))
    except Exception as e:
        feats.append('setup-error:' + impl.err_class(e))
        r['observed']['setup_error'] = '%s: %s' % (type(e).__name__, str(e)[:200])
        if ref['status'] == 'optimal':
            viol('value', 'eaopack cannot set up a portfolio (%s: %s) for which the textbook model has the optimum %.9g' % (
                type(e).__name__, str(e)[:120], ref['value'] + K), error=impl.err_class(e))
        return r
    feats.extend(day_grid_features(scn, G))
    if rec['tg'].T != G.T:
        viol('value', 'grid of eaopack has %d steps, the reference computes %d' % (rec['tg'].T, G.T))
        return r
    # step lengths: the reference takes them from the instants of the grid points.  A difference is not a violation by itself
    # (the property speaks about optimum and dispatch): it is carried as a fact of the violations it leads to, and reported on
    # its own only if the case shows no other violation
    dt_diff = None
    if np.abs(np.asarray(rec['tg'].dt, dtype=float) - G.dt).max(initial=0.0) > 1e-12:
        k = int(np.argmax(np.abs(np.asarray(rec['tg'].dt, dtype=float) - G.dt)))
        dt_diff = {'step': k, 'point': str(G.pts[k]), 'next_point': str(G.pts[k + 1]), 'dt_eaopack': float(rec['tg'].dt[k]), 'dt_from_instants': float(G.dt[k])}
        feats.append('step-lengths-differ')
        r['observed']['step_length_difference'] = dt_diff
    # ---- explicit hypotheses of the refinement theorems, evaluated on this case (EAO.C02.contract_refines_two,
    #      take_rows_spec: extra costs >= 0, discount factors >= 0, pairwise different steps of the grid; transport_refines /
    #      ext_transport_refines tie the code to the SIGNED textbook transport, which is the physical line only if the
    #      transport has no negative capacity on its window or efficiency 1)
    I_all = np.asarray(rec['tg'].I)
    hyp = []
    if len(set(I_all.tolist())) != len(I_all):
        hyp.append('IdxInj')
    for spec in scn['assets']:
        ec = spec.get('args', {}).get('extra_costs', 0)
        if isinstance(ec, (int, float)) and ec < 0:
            hyp.append('ec>=0:' + spec['name'])
        w = spec.get('args', {}).get('wacc', 0)
        if isinstance(w, (int, float)) and w <= -1:
            hyp.append('df>=0:' + spec['name'])
    for nm in G.f02c_hits:
        hyp.append('forward-or-lossless:' + nm)
    if G.f02c_hits:
        feats.append('hyp-outside:transport-reversed-with-loss')
    feats.append('hyp:holds' if not hyp else 'hyp:fails')
    r['observed']['hypotheses_failing'] = hyp
    if len(rec['op'].c) == 0:
        # no asset is active in the horizon: nothing to optimise (cvxpy refuses an empty variable; subject of C08)
        feats.append('empty-problem')
        return r
    pf.solve_rec(rec)
    res = rec['res']
    if isinstance(res, str) and ref['status'] == 'optimal':
        # a numerical failure of the default conic solver is not the subject: retry with the simplex code
        for s in ('SCIPY', 'CLARABEL'):
            try:
                pf.solve_rec(rec, solver=s)
            except Exception:
                continue
            if not isinstance(rec['res'], str):
                feats.append('eao-resolved-with:' + s)
                break
        res = rec['res']
    if isinstance(res, str):
        feats.append('eao-unsolved')
        r['observed']['eao_status'] = res
        if ref['status'] == 'optimal':
            viol('value', 'eaopack reports "%s" but the textbook model is feasible with optimum %.9g' % (res, ref['value'] + K))
        else:
            feats.append('both-infeasible')
        return r
    v_eao = float(res.value)
    r['observed'].update({'eao_value': v_eao})
    if ref['status'] != 'optimal':
        viol('value', 'eaopack finds the optimum %.9g but the textbook model is %s' % (v_eao, ref['status']))
        return r
    feats.append('solved')
    v_ref = ref['value'] + K
    r['observed']['textbook_value_plus_constant'] = v_ref
    scale = max(1.0, abs(v_eao), abs(v_ref))
    if abs(v_eao - v_ref) > VALUE_TOL * scale:
        viol('value', 'optimum of eaopack %.10g vs textbook %.10g (= %.10g + constant %.10g): difference %.3g' % (
            v_eao, v_ref, ref['value'], K, v_eao - v_ref), diff=float(v_eao - v_ref))
    # ---- eaopack's dispatch in the textbook model
    try:
        pq = physical_of_eao(scn, G, phys, pf.asset_blocks(rec), np.asarray(res.x, dtype=float))
    except ValueError as e:
        viol('dispatch_infeasible', 'variables of eaopack cannot be read as physical quantities: %s' % e)
        return r
    bad, cash = check_physical(scn, G, phys, pq)
    r['observed']['cash_of_eao_dispatch_in_textbook'] = float(cash + K)
    if bad:
        viol('dispatch_infeasible', 'optimal dispatch of eaopack violates the textbook model: ' + '; '.join(bad[:4]), n=len(bad))
    elif cash + K < v_eao - VALUE_TOL * 5 * scale:
        # with non-negative spreads netting can only raise the cash; the netted optimal dispatch must be worth the optimum
        viol('value', 'optimal dispatch of eaopack is worth %.10g in the textbook model, eaopack reports %.10g' % (cash + K, v_eao),
             diff=float(cash + K - v_eao))
    # ---- the statement holds for every set-up, also a repeated one with the same objects (re-optimisation)
    try:
        with impl.Quiet():
            op2 = rec['portf'].setup_optim_problem(rec['prices'], rec['tg'])
        op1 = rec['op']
        same = (len(op2.c) == len(op1.c) and np.array_equal(op2.c, op1.c) and np.array_equal(op2.l, op1.l)
                and np.array_equal(op2.u, op1.u) and np.array_equal(np.asarray(op2.b), np.asarray(op1.b))
                and op2.cType == op1.cType and (sp.csr_matrix(op2.A) != sp.csr_matrix(op1.A)).nnz == 0)
        if not same:
            feats.append('second-setup-differs')
            res2 = impl.solve(op2)
            v2 = None if isinstance(res2, str) else float(res2.value)
            if v2 is None or abs(v2 - v_ref) > VALUE_TOL * max(scale, abs(v2)):
                viol('value', 'second set-up of the same portfolio on the same grid: optimum of eaopack %s vs textbook %.10g' % (
                    'not found (%s)' % res2 if v2 is None else '%.10g' % v2, v_ref), second_setup=True,
                    diff=None if v2 is None else float(v2 - v_ref))
    except Exception as e:
        viol('value', 'second set-up of the same portfolio on the same grid fails: %s: %s' % (type(e).__name__, str(e)[:150]),
             second_setup=True, error=impl.err_class(e))
    active = 0
    for spec in scn['assets']:
        v = pq[spec['name']]
        if any(len(arr) and np.abs(arr).max() > 1e-7 for arr in v.values()):
            active += 1
    r['observed']['assets_dispatched'] = active
    r['nontrivial'] = bool(active >= 2 and abs(v_eao) > 1e-9)
    return r


def selftest(n=300, seed=1, verbose=False):
    rnd = random.Random(seed)
    tot = {'cases': 0, 'evaluated': 0, 'nontrivial': 0, 'solved': 0, 'violations': [], 'known_F19c': [], 'known_F02c': [], 'errors': [], 'features': {}}
    for i in range(n):
        sub = random.Random(rnd.getrandbits(48))
        case = gen_case(sub)
        tot['cases'] += 1
        try:
            r = run_case(case, None)
        except Exception as e:
            tot['errors'].append((i, '%s: %s' % (type(e).__name__, e), traceback.format_exc()[-800:]))
            continue
        tot['evaluated'] += r['evaluated']
        tot['nontrivial'] += int(r['nontrivial'])
        tot['solved'] += int('solved' in r['features'])
        for f in r['features']:
            tot['features'][f] = tot['features'].get(f, 0) + 1
        for v in r['violations']:
            key = {'forever_end_overflow': 'known_F19c', 'reversed_transport_gain': 'known_F02c'}.get(v['facts'].get('kind'), 'violations')
            tot[key].append((i, v, case))
            if verbose:
                print(i, key, v['detail'])
    return tot


if __name__ == '__main__':
    import sys
    import json
    sys.path.insert(0, os.environ.get('EAO_REPO', '/repo'))
    n = int(sys.argv[1]) if len(sys.argv) > 1 else 300
    seed = int(sys.argv[2]) if len(sys.argv) > 2 else 1
    t = selftest(n, seed, verbose=True)
    print(json.dumps({k: (v if k not in ('violations', 'errors', 'known_F19c', 'known_F02c') else len(v)) for k, v in t.items()}, indent=1, sort_keys=True))
    for i, e, tb in t['errors'][:5]:
        print('ERROR case', i, e, tb)
    for i, v, case in t['violations'][:10]:
        print('VIOLATION case', i, v['detail'], v['facts'])
