"""Portfolios in which variables are pinned by their bounds, and rolling re-optimisation with whole intervals pinned.

Two generators shared by C01 (nodal balance of every RETURNED solution) and C04 (value accounting):

 gen_case(rnd)        a portfolio of fixed-rate / fixed-profile / must-run assets (min_cap == max_cap: SimpleContract with a
                      scalar rate or a rate profile, Contract with loose takes, MultiCommodityContract, Transport with a fixed
                      flow), with non-zero prices, on 1-3 nodes.  The fixed base is balanced at every node and step by construction
                      (one balancing fixed contract per node).  Per node, drawn from the seed: nothing more (everything pinned and
                      balanced) | a further fixed contract ('gap', own window) that breaks the balance where it is active | a
                      flexible market contract with a window covering part of the horizon, with a gap contract in the same window
                      (feasible: the market closes the gap; outside the window everything is pinned) or in an independent window
                      (not closable where the market is not active) | the partial-window market alone.
                      The scenario carries the size of the split intervals ('split_interval'); windows are mostly unions of whole
                      split intervals so that a split optimisation has intervals WITHOUT any free variable next to free ones.
                      Where the pinned values do not balance the portfolio has no solution: the real code must not return one
                      (C01 has then nothing to check; counted as a feature), and whatever IS returned goes to the property oracles.

 refix_split(rs, seed) rolling re-optimisation of a solved split record: the same portfolio is set up again as a split problem with
                      fix_time_window covering whole intervals (a prefix = "the past", a drawn subset, or all; window given as
                      boolean mask, index array or date) pinned to the previous solution, prices of the other steps changed,
                      and solved again.  The result is an optimised portfolio like any other (C01, C04 oracles apply).

No oracle lives here: the property files feed the records to the generic oracles of harness/pf.py.
"""
import random

import numpy as np

from .. import gen, impl
from ..impl import Quiet

EFFS = [0.5, 0.75, 0.875, 0.25, 1.0, 1.5]
FACTORS = [1.0, 0.5, -1.0, 2.0, 0.25]


def nzq8(rnd, lo, hi):
    """non-zero multiple of 1/8 in [lo, hi]"""
    while True:
        v = gen.q8(rnd, lo, hi)
        if v != 0:
            return v


def nz_price(rnd, prices, T):
    """a new price series without zeros (every fixed flow has a cash flow); mostly positive, sometimes negative"""
    key = 'p%d' % len(prices)
    sgn = -1.0 if rnd.random() < 0.15 else 1.0
    prices[key] = [sgn * gen.q8(rnd, 0.5, 20) for _ in range(T)]
    return key


def interval_str(step_s, k):
    tot = int(step_s) * int(k)
    return ('%dmin' % (tot // 60)) if tot % 3600 else ('%dh' % (tot // 3600))


def draw_steps(rnd, T, k):
    """a non-empty step range [a, b): mostly a union of whole split intervals (never the whole horizon then), else any"""
    n_iv = -(-T // k)
    if n_iv >= 2 and rnd.random() < 0.75:
        i = rnd.randint(0, n_iv - 1)
        j = rnd.randint(i + 1, n_iv)
        if i == 0 and j == n_iv:
            if rnd.random() < 0.5:
                i = 1
            else:
                j = n_iv - 1
        return i * k, min(j * k, T)
    a = rnd.randint(0, T - 1)
    b = rnd.randint(a + 1, T)
    return a, b


def put_steps(args, g, ab):
    """asset window = steps [a, b) (start/end on grid points); returns the window set, or None when the local times are not legitimate"""
    if ab is None:
        return None
    a, b = ab
    s, e = gen.P(g, a), gen.P(g, b)
    if not (gen.ok_local(s, g) and gen.ok_local(e, g)):
        return None
    args['start'] = gen.dtv(s)
    args['end'] = gen.dtv(e)
    return (a, b)


def _active(win, T):
    return range(T) if win is None else range(win[0], win[1])


def gen_fixed_asset(rnd, g, prices, T, k, name, node, node_names):
    """one asset pinned by min_cap == max_cap; returns (spec, [(node, factor)], rate per step (0 outside its window))"""
    kind = rnd.choice(['simple', 'simple', 'profile', 'contract', 'multi'])
    if kind == 'multi' and len(node_names) < 2:
        kind = 'simple'
    args = {}
    if kind == 'profile':
        key = 'cap%d' % len(prices)
        same_sign = rnd.random() < 0.5
        sg = rnd.choice([-1.0, 1.0])
        prof = []
        for _ in range(T):
            v = nzq8(rnd, -4, 4) if rnd.random() < 0.85 else 0.0
            prof.append(sg * abs(v) if same_sign else v)
        prices[key] = prof
        args['min_cap'] = key
        args['max_cap'] = key
        rate = list(prof)
    else:
        r = nzq8(rnd, -6, 6)
        args['min_cap'] = r
        args['max_cap'] = r
        rate = [r] * T
    args['price'] = nz_price(rnd, prices, T)
    if rnd.random() < 0.3:
        args['extra_costs'] = gen.q8(rnd, 0.125, 2)
    if rnd.random() < 0.2:
        args['wacc'] = rnd.choice([0.05, 0.1, 0.5])
    win = put_steps(args, g, draw_steps(rnd, T, k)) if rnd.random() < 0.3 else None
    act = set(_active(win, T))
    rate = [rate[t] if t in act else 0.0 for t in range(T)]
    spec = {'type': 'SimpleContract', 'name': name, 'nodes': [node], 'args': args}
    contrib = [(node, 1.0)]
    if kind == 'contract' or (kind == 'multi' and rnd.random() < 0.5):
        lo, hi = gen.P(g, -2), gen.P(g, T + 2)
        if gen.ok_local(lo, g) and gen.ok_local(hi, g):
            # takes that do not bind (rows over pinned variables all the same)
            args['max_take'] = {'start': [gen.dtv(lo)], 'end': [gen.dtv(hi)], 'values': [65536.0]}
            if rnd.random() < 0.5:
                args['min_take'] = {'start': [gen.dtv(lo)], 'end': [gen.dtv(hi)], 'values': [-65536.0]}
        spec['type'] = 'Contract'
    if kind == 'multi':
        other = rnd.choice([n for n in node_names if n != node])
        f = [rnd.choice(FACTORS), rnd.choice(FACTORS)]
        spec['type'] = 'MultiCommodityContract'
        spec['nodes'] = [node, other]
        args['factors_commodities'] = f
        contrib = [(node, f[0]), (other, f[1])]
    return spec, contrib, rate


def gen_fixed_transport(rnd, g, prices, T, k, name, n1, n2):
    f = gen.q8(rnd, 0.5, 4)
    if rnd.random() < 0.2:
        f = -f
    e = rnd.choice(EFFS)
    args = {'min_cap': f, 'max_cap': f, 'efficiency': e, 'costs_const': gen.q8(rnd, 0.125, 2)}
    if rnd.random() < 0.3:
        key = 'tc%d' % len(prices)
        prices[key] = [gen.q8(rnd, 0, 2) for _ in range(T)]
        args['costs_time_series'] = key
    win = put_steps(args, g, draw_steps(rnd, T, k)) if rnd.random() < 0.3 else None
    act = set(_active(win, T))
    rate = [f if t in act else 0.0 for t in range(T)]
    return {'type': 'Transport', 'name': name, 'nodes': [n1, n2], 'args': args}, [(n1, -1.0), (n2, e)], rate


def gen_case(rnd, tmax=12):
    """see module docstring; returns a scenario in the standard format plus 'split_interval' and the drawn plan ('fixedpf')"""
    from .. import scen
    g = gen.gen_grid(rnd, tmin=min(4, tmax), tmax=tmax, tz_prob=0.15)
    T = scen.make_grid(g).T
    n_iv = rnd.choice([2, 2, 3, 3, 4])
    k = max(1, T // n_iv)
    prices = {}
    nn = rnd.choice([1, 1, 2, 2, 3])
    node_names = ['N%d' % i for i in range(1, nn + 1)]
    assets = []
    inj = {n: [0.0] * T for n in node_names}      # net pinned injection per node and step, as a RATE (the step length is a common factor)

    def add(spec, contrib, rate):
        assets.append(spec)
        for n, f in contrib:
            for t in range(T):
                inj[n][t] += f * rate[t]
    for n in node_names:
        for _ in range(rnd.randint(1, 3)):
            add(*gen_fixed_asset(rnd, g, prices, T, k, 'fx%d' % (len(assets) + 1), n, node_names))
    if nn >= 2:
        for _ in range(rnd.choice([0, 1, 1, 2])):
            n1, n2 = rnd.sample(node_names, 2)
            add(*gen_fixed_transport(rnd, g, prices, T, k, 'tr%d' % (len(assets) + 1), n1, n2))
    # one balancing fixed contract per node: after this the pinned base nets to zero at every node and step
    for n in node_names:
        need = [-v for v in inj[n]]
        if all(v == 0 for v in need) and rnd.random() < 0.5:
            continue
        args = {'price': nz_price(rnd, prices, T)}
        if len(set(need)) == 1 and rnd.random() < 0.6:
            args['min_cap'] = need[0]
            args['max_cap'] = need[0]
        else:
            key = 'cap%d' % len(prices)
            prices[key] = need
            args['min_cap'] = key
            args['max_cap'] = key
        if rnd.random() < 0.2:
            args['extra_costs'] = gen.q8(rnd, 0.125, 1)
        add({'type': 'SimpleContract', 'name': 'bal_%s' % n, 'nodes': [n], 'args': args}, [(n, 1.0)], need)
    # per node: gap and / or partial-window market
    plan = {}
    uncovered = 0       # (node, step) pairs with a pinned imbalance and no flexible asset: no solution can exist
    for n in node_names:
        r = rnd.random()
        shape = ('none' if r < 0.25 else 'gap' if r < 0.45 else 'market+gap_same' if r < 0.80 else
                 'market+gap_other' if r < 0.92 else 'market')
        mwin = gwin = None
        grate = None
        if shape.startswith('market'):
            margs = {'min_cap': -40.0, 'max_cap': 40.0, 'price': nz_price(rnd, prices, T)}
            mwin = put_steps(margs, g, draw_steps(rnd, T, k))
            if rnd.random() < 0.3:
                margs['extra_costs'] = gen.q8(rnd, 0.125, 1)
        if 'gap' in shape:
            grate = nzq8(rnd, -5, 5)
            gargs = {'min_cap': grate, 'max_cap': grate, 'price': nz_price(rnd, prices, T)}
            if shape == 'market+gap_same':
                if mwin is not None:
                    if rnd.random() < 0.3 and mwin[1] - mwin[0] >= 2:     # a sub-window of the market's
                        a = rnd.randint(mwin[0], mwin[1] - 1)
                        b = rnd.randint(a + 1, mwin[1])
                        gwin = put_steps(gargs, g, (a, b))
                        if gwin is None:
                            gwin = put_steps(gargs, g, mwin)
                    else:
                        gwin = put_steps(gargs, g, mwin)
            elif rnd.random() < 0.6:
                gwin = put_steps(gargs, g, draw_steps(rnd, T, k))
            assets.append({'type': 'SimpleContract', 'name': 'gap_%s' % n, 'nodes': [n], 'args': gargs})
        if shape.startswith('market'):
            if grate is not None and rnd.random() < 0.3:
                # one-sided market, on the side that can close the gap
                if grate > 0:
                    margs['max_cap'] = 0.0
                else:
                    margs['min_cap'] = 0.0
            assets.append({'type': 'SimpleContract', 'name': 'mkt_%s' % n, 'nodes': [n], 'args': margs})
        if grate is not None:
            mact = set(_active(mwin, T)) if shape.startswith('market') else set()
            uncovered += len([t for t in _active(gwin, T) if t not in mact])
        plan[n] = {'shape': shape, 'market_steps': list(mwin) if mwin else None, 'gap_steps': list(gwin) if gwin else None, 'gap_rate': grate}
    rnd.shuffle(assets)
    return {'grid': g, 'nodes': node_names, 'prices': prices, 'assets': assets, 'stream': 'fixedpf',
            'split_interval': interval_str(g['step_s'], k),
            'fixedpf': {'steps_per_interval': k, 'plan': plan, 'uncovered_node_steps': uncovered}}


def features(scn, rec=None, rs=None):
    """what the case exercised (evidence histogram only, no verdict)"""
    f = ['stream:fixedpf']
    meta = scn.get('fixedpf', {})
    for n, p in sorted(meta.get('plan', {}).items()):
        f.append('fixedpf:node-' + p['shape'])
    f.append('fixedpf:pinned-values-balance' if meta.get('uncovered_node_steps', 0) == 0 else 'fixedpf:pinned-values-do-not-balance')
    if rec is not None and rec.get('op') is not None and len(rec['op'].c):
        if bool(np.all(rec['op'].l == rec['op'].u)):
            f.append('fixedpf:mono-without-free-variable')
        if 'res' in rec:
            f.append('fixedpf:mono-no-solution' if isinstance(rec['res'], str) else 'fixedpf:mono-solution')
    if rs is not None and getattr(rs.get('op'), 'ops', None):
        nfix = sum(1 for o in rs['op'].ops if len(o.l) and bool(np.all(o.l == o.u)))
        if nfix:
            f.append('fixedpf:split-with-interval-without-free-variable')
            if nfix < len(rs['op'].ops):
                f.append('fixedpf:split-pinned-and-free-intervals')
        if 'res' in rs:
            f.append('fixedpf:split-no-solution' if isinstance(rs['res'], str) else 'fixedpf:split-solution')
    return f


# ------------------------------------------------------------------ rolling re-optimisation of a split problem
def refix_split(rs, seed):
    """rs: a solved record of pf.setup_split / pf.solve_rec.  Sets the SAME portfolio up again as a split problem with
    fix_time_window covering whole intervals, pinned to the solution of rs, with changed prices on the other steps, and solves.
    Returns the new record (keys as pf.setup_split, plus 'refix' = what was drawn) or None if rs has nothing to pin."""
    from .. import pf
    rnd = random.Random(seed)
    op0, res0, tg, portf = rs['op'], rs.get('res'), rs['tg'], rs['portf']
    ops = getattr(op0, 'ops', None)
    if not ops or res0 is None or isinstance(res0, str):
        return None
    sizes = [len(o.c) for o in ops]
    offs = np.cumsum([0] + sizes)
    m = op0.mapping
    idx = np.asarray(m.index, dtype=np.int64)
    stp = np.asarray(m['time_step'], dtype=np.int64)
    steps_iv = [sorted(set(int(t) for t in stp[(idx >= offs[j]) & (idx < offs[j + 1])])) for j in range(len(ops))]
    n = len(ops)
    r = rnd.random()
    if n == 1 or r < 0.15:
        chosen, which = list(range(n)), 'all'
    elif r < 0.7:
        chosen, which = list(range(rnd.randint(1, n - 1))), 'prefix'
    else:
        chosen, which = sorted(rnd.sample(range(n), rnd.randint(1, n - 1))), 'subset'
    steps = sorted(set(t for j in chosen for t in steps_iv[j]))
    if not steps:
        return None
    T = int(tg.T)
    mask = np.zeros(T, dtype=bool)
    mask[steps] = True
    form = rnd.choice(['mask', 'index', 'date'])
    if form == 'date' and steps == list(range(steps[-1] + 1)):
        I_arg = tg.timepoints[steps[-1]].to_pydatetime()       # "all dates up to the date are taken"
    elif form == 'index':
        I_arg = np.array(steps, dtype=int)
    else:
        form = 'mask'
        I_arg = mask.copy()
    # new price forecast for the steps that are not pinned (capacities and other series untouched)
    prices2 = {}
    for key, v in rs['prices'].items():
        v = np.array(v, dtype=float)
        if str(key).startswith('p') and len(v) == T:
            v = v + np.array([0.0 if mask[t] else gen.q8(rnd, -3, 3) for t in range(T)])
        prices2[key] = v
    rec = {'portf': portf, 'tg': tg, 'prices': prices2, 'scn': rs.get('scn'), 'split': rs['split']}
    with Quiet(), impl.Capture(portf) as cap:
        op = portf.setup_split_optim_problem(prices2, tg, interval_size=rs['split'],
                                             fix_time_window={'I': I_arg, 'x': np.array(res0.x, dtype=float)})
    rec['op'] = op
    rec['captured_list'] = cap.caught
    pinned = [bool(len(o.l) and np.all(o.l == o.u)) for o in op.ops]
    rec['refix'] = {'intervals': chosen, 'which': which, 'form': form, 'intervals_without_free_variable': int(sum(pinned)), 'n_intervals': len(op.ops)}
    pf.solve_rec(rec)
    return rec


def refix_features(rf):
    f = ['refix', 'refix:' + rf['refix']['which'], 'refix:I-as-' + rf['refix']['form']]
    if rf['refix']['intervals_without_free_variable']:
        f.append('refix:interval-without-free-variable')
    f.append('refix:no-solution' if isinstance(rf['res'], str) else 'refix:solution')
    return f
