"""C09 inside wrappers: names and order of the assets a StructuredAsset wraps (proof package `pkg-c09nested`).

Lean side: `EAO/Lemmas/NestedPerm.lean` (namespace `EAO.NestedPerm`) and `EAO/Properties/C09Nested.lean` (namespace
`EAO.C09N`, the theorems of `THEOREMS_C09_NESTED`).  No new model, no new driver op: the executable cross-check below goes
through the EXISTING op `structured` (`EAO/Driver/Scaled.lean`) on the inner problems CAPTURED from the real code
(`harness/comp/scaled.py` does the capturing and the plain correspondence).

A case = a structured case of `harness/comp/scaled.py` (`base`) and a variant of it: `perm` (the list the structured asset
wraps in another order) or `rename` (wrapper, wrapped assets and all nodes renamed injectively onto prefix-related / numeric
names).

  run_impl   the real set-up of both scenarios; the wrapped assets' problems and the structured asset's problem are captured
  request    two requests for the op `structured`
  compare    model vs real on the VARIANT (the existing correspondence) and the theorems' statement on the MODEL's two answers
  oracle     the theorems' statement on the REAL code's two problems (block permutation of variables / exact relabelling:
             `structured_inner_perm`, `structured_rename`), and for LP cases the optimal value of the whole portfolio

`collision_demo()` reproduces the finding of this package on the real code (see THEOREMS: `var_label_collision`): the written
variable name `<var>__<asset>` is not injective once wrappers are nested, and a LinkedAsset then links the wrong variables.
"""
import copy
import os
import random
import sys
import traceback
from fractions import Fraction

sys.path.insert(0, os.environ.get('EAO_REPO', '/repo'))

from .. import scen, impl  # noqa: E402
from ..impl import problem_json  # noqa: E402
from . import scaled as SC  # noqa: E402

M = 'EAO.Properties.C09Nested'
THEOREMS_C09_NESTED = [
    (M, 'EAO.C09N.structured_feasible_iff',
     'the feasible points of a structured asset are those of the inner assembly with the external nodes skipped (nodal rows of inner nodes as equalities), its cost vector is the inner one'),
    (M, 'EAO.C09N.structured_flow',
     'flow of a structured asset into node n at step t: at an external node the sum of the inner assets flows (each from its own block), 0 at every other node - whatever the inner nodes are called'),
    (M, 'EAO.C09N.structured_wf_local',
     'a structured asset of well-formed, local inner problems (C09.WF, C09.Local) is well-formed and local: the C09 theorems apply one level up'),
    (M, 'EAO.C09N.structured_inner_perm',
     'permuting the wrapped list: every feasible point of the structured problem rearranges block-wise into a feasible point of the problem built from the permuted list with the same cost, the same flow at every (node, step) and the same block for every wrapped asset'),
    (M, 'EAO.C09N.structured_inner_perm_optimal',
     'the rearranged point of an optimal point is optimal: the structured asset own optimum does not depend on the order of the wrapped list'),
    (M, 'EAO.C09N.structured_perm_sim',
     'structured_inner_perm in both directions as the relation Sim (same feasible sets up to a map keeping cost and all flows)'),
    (M, 'EAO.C09N.nested_perm_step',
     'wrappers in wrappers, induction step: permuting the wrapped list AND replacing every wrapped problem by a Sim-corresponding one (e.g. an inner structured asset with its own list permuted) gives a Sim-corresponding structured asset'),
    (M, 'EAO.C09N.nested_perm',
     'wrappers in wrappers, any depth (structural induction over object trees PTree, LPerm = equal up to the order of the wrapped lists at every level): leaves well-formed and local => the built problems correspond (Sim) entry by entry after a permutation of the top-level list'),
    (M, 'EAO.C09N.nested_perm_tree',
     'one object tree: the wrapper and the wrapper with the lists permuted at every level below correspond (Sim: feasible points map both ways with the same cost and the same flow at every node and step)'),
    (M, 'EAO.C09N.structured_rename',
     'exact form: for an injective renaming of nodes, any renaming of wrapped assets and any new wrapper name the structured problem has the same cost, bounds and rows, renamed external nodes, and the inner mapping rows relabelled and wrapped under the new names'),
    (M, 'EAO.C09N.structured_rename_rel',
     'as the portfolio sees it: the structured asset of entry-wise relabelled wrapped problems (AssetRel: same numbers, dispatch rows at renamed nodes, everything else free) is a relabelling in the same sense, whatever the two wrapper names are'),
    (M, 'EAO.C09N.rename_is_rel', 'C09.renameAsset is such a relabelling'),
    (M, 'EAO.C09N.rel_same_results',
     'a relabelling keeps the feasible set, the cost vector and the flow at every renamed (node, step)'),
    (M, 'EAO.C09N.scaled_rename',
     'a ScaledAsset with the same scales / norm / fix costs (any name, any first node) over a relabelled base is the relabelled scaled asset'),
    (M, 'EAO.C09N.scaled_rename_exact',
     'exact form for renameAsset: scaled asset of the renamed base = scaled asset with every mapping row relabelled, scale row at the renamed first node'),
    (M, 'EAO.C09N.assemble_relabel',
     'the portfolio around relabelled wrappers (generalises C09.assemble_rename): same cost, bounds, rows; nodal record renamed; mapping related row by row'),
    (M, 'EAO.C09N.structured_labels',
     'labels a wrapped row gets: node outNode (external kept, else <name>_internal_<node>), var_name outVar (<var>__<asset>, nan kept), asset = wrapper'),
    (M, 'EAO.C09N.node_labels_injective_iff',
     'EXACT condition: the node labelling is injective on the inner nodes iff no external node is called <name>_internal_<inner non-external node>'),
    (M, 'EAO.C09N.node_label_collision',
     'machine-checked collision of node labels (wrapper S, external node S_internal_a, inner node a); flows unaffected (structured_flow)'),
    (M, 'EAO.C09N.var_labels_injective',
     'SUFFICIENT condition: wrapped asset names without underscore - the written name <var>__<asset> determines (var, asset)'),
    (M, 'EAO.C09N.var_label_not_nan', 'the name of an unnamed variable (nan) is never a written name'),
    (M, 'EAO.C09N.var_label_collision',
     'machine-checked collision (the condition is needed): plant a in structure b and a plant called a__b both get bool_on__a__b; the look-up of LinkedAsset (findVars) finds BOTH, after renaming a__b to c only one; also (x_, _y) and (x__, y)'),
]


# ------------------------------------------------------------------ cases
NAME_POOLS = [
    lambda k: '1' * (k + 1),                         # '1', '11', '111' (prefixes of each other)
    lambda k: str(10 ** k),                          # numeric
    lambda k: 'n' + '_' * k,                         # differ by trailing underscores
    lambda k: ('x%d' % k) + '_internal_' + 'y',      # contain the wrapper's separator
    lambda k: 'a' + '__' * k + 'b',                  # contain the variable separator
    lambda k: ' ' * k + 'node',                      # leading blanks
]


def _target_spec(scn, name):
    return [a for a in scn['assets'] if a['name'] == name][0]


def gen_case(rnd, tmax=8):
    base = SC.gen_structured_case(rnd, tmax)
    base['build'] = 'shared'
    sa = _target_spec(base['scn'], base['target'])
    inner = sa['inner']
    kind = rnd.choice(['perm', 'perm', 'rename', 'rename'])
    case = {'base': base, 'kind': kind}
    if kind == 'perm':
        idx = list(range(len(inner)))
        if len(idx) >= 2:
            while idx == list(range(len(inner))):
                rnd.shuffle(idx)
        case['perm'] = idx
    else:
        pa, pn = rnd.choice(NAME_POOLS), rnd.choice(NAME_POOLS)
        names = [base['target']] + [a['name'] for a in inner]
        ks = list(range(len(names)))
        rnd.shuffle(ks)
        case['amap'] = {nm: 'A' + pa(k) for nm, k in zip(names, ks)}
        nodes = list(base['scn']['nodes'])
        kn = list(range(len(nodes)))
        rnd.shuffle(kn)
        case['nmap'] = {nd: 'N' + pn(k) for nd, k in zip(nodes, kn)}
    return case


def variant(case):
    """the structured case of the variant scenario"""
    base = case['base']
    v = copy.deepcopy(base)
    if case['kind'] == 'perm':
        sa = _target_spec(v['scn'], v['target'])
        sa['inner'] = [sa['inner'][i] for i in case['perm']]
    else:
        v['scn'] = scen.rename_scenario(v['scn'], case['amap'], case['nmap'])
        sa = _target_spec(v['scn'], case['amap'][base['target']])
        if 'inner_nodes' in sa:
            sa['inner_nodes'] = [case['nmap'].get(n, n) for n in sa['inner_nodes']]
        v['target'] = case['amap'][base['target']]
    return v


def run_impl(case):
    return {'base': SC.run_impl(case['base']), 'var': SC.run_impl(variant(case))}


def request(case, ir):
    return {'base': SC.request(case['base'], ir['base']), 'var': SC.request(variant(case), ir['var'])}


# ------------------------------------------------------------------ the theorems' statement on two problems (JSON form)
def _F(s):
    return Fraction(s)


def _canon_row(r, sigma=None):
    acc = {}
    for j, v in r['coeffs']:
        j = int(j) if sigma is None else sigma[int(j)]
        acc[j] = acc.get(j, 0) + _F(v)
    return (r['kind'].replace('N', 'S'), _F(r['rhs']), tuple(sorted((j, v) for j, v in acc.items() if v != 0)))


def _canon_map(m, sigma=None):
    return (int(m['var']) if sigma is None else sigma[int(m['var'])], m['asset'], m['node'], m['kind'], int(m['step']),
            _F(m['factor']), bool(m['bool']), m['var_name'])


def _close(a, b, tol):
    a, b = _F(a), _F(b)
    return a == b if tol == 0 else abs(float(a) - float(b)) <= tol * max(1.0, abs(float(a)), abs(float(b)))


def check_perm(P0, P1, sizes0, perm, tol=0):
    """`structured_inner_perm` as an equality of problems: P1 is P0 with the variable blocks in the order `perm`"""
    out = []
    n = sum(sizes0)
    if len(P0['c']) != n or len(P1['c']) != n:
        return ['perm: sizes %d / %d, blocks add up to %d' % (len(P0['c']), len(P1['c']), n)]
    off0 = [sum(sizes0[:i]) for i in range(len(sizes0))]
    sizes1 = [sizes0[i] for i in perm]
    off1 = {i: sum(sizes1[:k]) for k, i in enumerate(perm)}
    sigma = {}
    for i, sz in enumerate(sizes0):
        for j in range(sz):
            sigma[off0[i] + j] = off1[i] + j
    for f in ('c', 'l', 'u'):
        for j in range(n):
            if not _close(P0[f][j], P1[f][sigma[j]], tol):
                out.append('perm: %s[%d] = %s but %s[%d] = %s in the permuted problem' % (f, j, P0[f][j], f, sigma[j], P1[f][sigma[j]]))
                break
    if tol == 0:
        r0 = sorted(_canon_row(r, sigma) for r in P0['rows'])
        r1 = sorted(_canon_row(r) for r in P1['rows'])
        if r0 != r1:
            out.append('perm: rows differ as multisets after the block permutation (%d vs %d rows)' % (len(r0), len(r1)))
    elif len(P0['rows']) != len(P1['rows']):
        out.append('perm: %d vs %d rows' % (len(P0['rows']), len(P1['rows'])))
    m0 = sorted(_canon_map(m, sigma) for m in P0['mapping'])
    m1 = sorted(_canon_map(m) for m in P1['mapping'])
    if tol == 0 and m0 != m1:
        out.append('perm: mapping rows differ as multisets after the block permutation')
    return out


def relabel_row(m, name0, name1, ext0, inner_names, amap, nmap):
    """the row `structured_rename` predicts for the row `m` of the original structured problem (None: not decidable from
    the written labels - a collision of the kind `node_label_collision`)"""
    e = dict(m)
    e['asset'] = name1 if m['asset'] == name0 else m['asset']
    nd = m['node']
    if nd is not None:
        pre = name0 + '_internal_'
        if nd in ext0 and m['kind'] == 'd':
            e['node'] = nmap.get(nd, nd)
        elif nd in ext0 and nd.startswith(pre):
            return None
        elif nd in ext0:
            e['node'] = nmap.get(nd, nd)
        elif nd.startswith(pre):
            e['node'] = name1 + '_internal_' + nmap.get(nd[len(pre):], nd[len(pre):])
        else:
            return None
    vn = m['var_name']
    if vn != 'nan':
        cands = [a for a in inner_names if vn.endswith('__' + a)]
        e['var_name'] = [vn[:-len(a)] + amap.get(a, a) for a in cands]
    else:
        e['var_name'] = ['nan']
    return e


def check_rename(P0, P1, name0, name1, ext0, inner_names, amap, nmap, tol=0):
    """`structured_rename`: same numbers, mapping row k relabelled"""
    out = []
    for f in ('c', 'l', 'u'):
        if len(P0[f]) != len(P1[f]) or any(not _close(a, b, tol) for a, b in zip(P0[f], P1[f])):
            out.append('rename: %s differs' % f)
    if tol == 0 and [_canon_row(r) for r in P0['rows']] != [_canon_row(r) for r in P1['rows']]:
        out.append('rename: rows differ')
    if len(P0['mapping']) != len(P1['mapping']):
        return out + ['rename: %d vs %d mapping rows' % (len(P0['mapping']), len(P1['mapping']))]
    for k, (m0, m1) in enumerate(zip(P0['mapping'], P1['mapping'])):
        e = relabel_row(m0, name0, name1, ext0, inner_names, amap, nmap)
        if e is None:
            continue
        for f in ('var', 'asset', 'node', 'kind', 'step', 'bool'):
            if e[f] != m1[f]:
                out.append('rename: mapping row %d field %s: expected %r, got %r' % (k, f, e[f], m1[f]))
        if _F(e['factor']) != _F(m1['factor']):
            out.append('rename: mapping row %d factor' % k)
        if m1['var_name'] not in e['var_name']:
            out.append('rename: mapping row %d var_name: expected one of %r, got %r' % (k, e['var_name'], m1['var_name']))
        if len(out) > 6:
            break
    return out


def _facts(case, ir):
    """what the checks need: block sizes, names (None if one of the two set-ups did not get through)"""
    b, v = ir['base'], ir['var']
    if b.get('wrapped') is None or v.get('wrapped') is None:
        return None
    a0 = b['asset']
    if len(b['inner']) != len(a0.portfolio.assets) or len(v['inner']) != len(v['asset'].portfolio.assets):
        return None
    return {'sizes0': [len(op.c) for _, op in b['inner']], 'name0': a0.name, 'name1': v['asset'].name,
            'ext0': [n.name for n in a0.nodes], 'inner_names': sorted((x.name for x, _ in b['inner']), key=len, reverse=True)}


def check_pair(case, P0, P1, facts, tol=0):
    if case['kind'] == 'perm':
        return check_perm(P0, P1, facts['sizes0'], case['perm'], tol)
    return check_rename(P0, P1, facts['name0'], facts['name1'], facts['ext0'], facts['inner_names'], case['amap'],
                        case['nmap'], tol)


def compare(case, ir, mr):
    """correspondence on the variant + the theorems' statement on the model's two answers"""
    dis = []
    if mr is None or mr.get('var') is None:
        return dis
    dis += ['variant: ' + d for d in SC.compare(variant(case), ir['var'], mr['var'])]
    facts = _facts(case, ir)
    if facts is None or mr.get('base') is None or 'problem' not in mr['base'] or 'problem' not in mr['var']:
        return dis
    dis += ['model: ' + d for d in check_pair(case, mr['base']['problem'], mr['var']['problem'], facts, 0)]
    return dis


def _value(r):
    with impl.Quiet():
        res = r['op'].optimize()
    return None if isinstance(res, str) or res is None else float(res.value)


def oracle(case, ir, solve=True):
    """the statement on the REAL code: error classes agree, the two structured problems correspond, LP optimum agrees"""
    viol = []

    def v(detail, **facts):
        viol.append({'oracle': 'nested_names_and_order', 'detail': detail, 'facts': dict(facts, kind=case['kind'])})
    b, w = ir['base'], ir['var']
    if (b.get('error') is None) != (w.get('error') is None) or (b.get('error') and b.get('error') != w.get('error')):
        v('set-up: %r (original) vs %r (%s)' % (b.get('error'), w.get('error'), case['kind']), what='error')
        return viol
    facts = _facts(case, ir)
    if facts is None:
        return viol
    exact = SC.is_exact(case['base'])
    for d in check_pair(case, problem_json(b['wrapped']), problem_json(w['wrapped']), facts, 0 if exact else 1e-9):
        v(d, what='problem')
    if solve and 'op' in b and 'op' in w and not viol:
        m = b['op'].mapping
        if 'bool' not in m.columns or not any(bool(x) for x in m['bool'].values if x is not None and x == x):
            try:
                v0, v1 = _value(b), _value(w)
            except Exception:
                v0 = v1 = None
            if (v0 is None) != (v1 is None) or (v0 is not None and abs(v0 - v1) > 1e-6 * max(1.0, abs(v0))):
                v('optimal value %r (original) vs %r (%s)' % (v0, v1, case['kind']), what='value')
    return viol


def run_case(case, drv, with_oracle=True, solve=True):
    ir = run_impl(case)
    req = request(case, ir)
    mr = {k: (SC._ok(drv, q) if q is not None else None) for k, q in req.items()}
    return {'disagreements': compare(case, ir, mr), 'violations': oracle(case, ir, solve) if with_oracle else [],
            'compared': mr.get('var') is not None and mr.get('base') is not None, 'ir': ir}


def selftest(n, seed, drv, verbose=False):
    counts = {'cases': 0, 'perm': 0, 'rename': 0, 'compared': 0, 'errors': 0, 'impl_errors': 0}
    dis, viol = [], []
    for k in range(n):
        rnd = random.Random('%s/%d' % (seed, k))
        case = gen_case(rnd)
        counts['cases'] += 1
        counts[case['kind']] += 1
        try:
            r = run_case(case, drv, solve=(k % 4 == 0))
        except Exception:
            counts['errors'] += 1
            dis.append((k, 'harness: ' + traceback.format_exc()[-400:]))
            continue
        counts['compared'] += bool(r['compared'])
        counts['impl_errors'] += bool(r['ir']['base'].get('error'))
        for d in r['disagreements']:
            dis.append((k, d))
        for x in r['violations']:
            viol.append((k, x))
        if verbose and (r['disagreements'] or r['violations']):
            print(k, case['kind'], r['disagreements'][:2], r['violations'][:2])
    return {'counts': counts, 'disagreements': dis, 'violations': viol}


# ------------------------------------------------------------------ the finding, on the real code
def collision_demo(sib_name='a__b'):
    """optimal value of a portfolio with a LinkedAsset L wrapping [structure b around plant a, plant <sib_name>, contract c1],
    c1 linked to bool_on of plant <sib_name>.  With sib_name = 'c' (or any name without '__'): 1632.  With 'a__b': 5832 - the
    look-up `var_name == 'bool_on__a__b'` also finds bool_on of plant a inside b (written bool_on__a by b, bool_on__a__b by L)."""
    import datetime as dt
    import numpy as np
    from eaopack.portfolio import Portfolio, StructuredAsset, LinkedAsset
    from eaopack.assets import Node, Timegrid, SimpleContract, CHPAsset
    N = Node('N')
    tg = Timegrid(dt.date(2021, 1, 1), dt.date(2021, 1, 2), freq='6h', main_time_unit='h')
    prices = {'p': np.array([10., 50., 20., 60.]), 'z': np.zeros(4)}
    a = CHPAsset(name='a', nodes=[N, N], min_cap=1., max_cap=2., extra_costs=1., start_costs=0., running_costs=0.,
                 conversion_factor_power_heat=1., max_share_heat=0.)
    b = StructuredAsset(name='b', nodes=N, portfolio=Portfolio([a]))
    sib = CHPAsset(name=sib_name, nodes=[N, N], min_cap=1., max_cap=2., extra_costs=1000., start_costs=0., running_costs=0.,
                   conversion_factor_power_heat=1., max_share_heat=0.)
    c1 = SimpleContract(name='c1', nodes=N, price='z', min_cap=0., max_cap=5., extra_costs=0.)
    L = LinkedAsset(portfolio=Portfolio([b, sib, c1]), name='L', nodes=N, asset1_variable=('c1', 'disp', N),
                    asset2_variable=(sib_name, 'bool_on', None), asset2_time_already_running=100, time_back=0, time_forward=0)
    mkt = SimpleContract(name='mkt', nodes=N, price='p', min_cap=-20., max_cap=0.)
    pf = Portfolio([L, mkt])
    with impl.Quiet():
        op = pf.setup_optim_problem(prices, tg)
        res = op.optimize()
    m = op.mapping
    found = int(((m['var_name'] == 'bool_on__' + sib_name) & (m['time_step'] == 0)).sum())
    return float(res.value), found


if __name__ == '__main__':
    from ..lean import Driver
    n = int(sys.argv[1]) if len(sys.argv) > 1 else 100
    seed = sys.argv[2] if len(sys.argv) > 2 else 'nestedperm'
    drv = Driver()
    try:
        r = selftest(n, seed, drv, verbose=True)
    finally:
        drv.close()
    print(r['counts'])
    for k, d in r['disagreements'][:20]:
        print('DIS', k, d)
    for k, x in r['violations'][:20]:
        print('VIOL', k, x['detail'], x['facts'])
    print('collision_demo c   :', collision_demo('c'))
    print('collision_demo a__b:', collision_demo('a__b'))
