"""C13, stream "multiper": SEVERAL assets with their own periodicity / duration / coarse frequency in ONE portfolio, and several
set-ups on ONE Timegrid object.

The other streams of comp/periodic.py judge one focus asset per case on a time grid made for it.  Here a portfolio holds two to
four assets that carry the options, each with ITS OWN (periodicity, periodicity_duration, freq):

  share = 'period'    the periodic assets share the periodicity and differ in the duration (none / a duration / another one)
  share = 'duration'  they share the duration (none or one) and differ in the periodicity
  share = 'mixed'     both drawn per asset
  + with some probability a coarse asset (freq, no periodicity) and / or an asset that is coarse AND periodic (aligned) next to them

and the portfolio is set up on a Timegrid OBJECT on which, for many cases, another portfolio is set up as well (before or after):
the same assets made afresh with options exchanged / a duration added, dropped or replaced / another periodicity, or a part of the
assets only.  Everything that the package keeps between two set-ups on a grid object, or between two assets of one portfolio,
must not leak from one asset's options into another's.

Oracles (C13's own statement, per asset and per set-up; the reference is the SAME portfolio in which every asset with options is
replaced by its ordinary fine version plus ITS OWN equalities, `periodic.reference_asset`, on a grid object and float data of its
own):
  periodic_repeats               every periodic asset: same dispatch at the same position (by the clock) of every period within
                                 each of ITS duration blocks
  coarse_constant_rate           every coarse asset: constant rate within each of ITS coarse intervals
  value_vs_fine_with_equalities  optimal value of the portfolio = value of the fine portfolio with exactly these equalities
  periodic_builds                the set-up must not raise when no asset has a coarse frequency and the reference exists

The generator stays outside the known deviations (anchored period on a grid that does not start on the anchor, windows that are
no whole number of coarse steps, wacc / varying limits / cost_store on a coarse asset, coarse AND periodic not aligned): every
asset is classified by `periodic.kind_facts` all the same and the classification goes into the facts.
"""
import copy
import random

import numpy as np
import pandas as pd

import eaopack as eao
from eaopack.portfolio import Portfolio

from .. import scen, impl
from ..impl import Quiet, err_class
from . import periodic as PE

STREAM = 'multiper'

# fine step -> periodicities, durations (None = whole horizon), coarse frequencies
FAM = {
    'h': dict(per=['2h', '3h', '4h', '6h', '8h', '12h'], dur=['6h', '8h', '12h', 'd', '2d', '9h', '16h'], coarse=['2h', '3h', '4h', '6h']),
    '30min': dict(per=['h', '2h', '3h', '90min'], dur=['3h', '4h', '6h', '12h'], coarse=['h', '2h', '90min']),
    '15min': dict(per=['30min', 'h', '2h'], dur=['2h', '3h', '4h', '6h'], coarse=['30min', 'h']),
    '2h': dict(per=['4h', '6h', '8h', '12h', 'd'], dur=['12h', 'd', '2d', '16h', '3d'], coarse=['4h', '6h', '12h']),
    '4h': dict(per=['8h', '12h', 'd'], dur=['d', '2d', '3d', 'W', '4d'], coarse=['8h', '12h', 'd']),
    '6h': dict(per=['12h', 'd', '2d'], dur=['2d', '3d', 'W', '4d', '6d'], coarse=['12h', 'd']),
    '12h': dict(per=['d', '2d'], dur=['2d', '4d', 'W', '6d'], coarse=['d', '2d']),
    'd': dict(per=['2d', '3d', '7d', 'W'], dur=['6d', '14d', 'W', '2W', '4d'], coarse=['2d', '3d', '7d']),
}
TMAX = 96


def mult(freq, step):
    return max(1, int(round(PE.td(freq) / step)))


def opt_str(opt):
    return '%s|%s|%s' % (opt.get('periodicity', '-'), opt.get('periodicity_duration', '-'), opt.get('freq', '-'))


# ------------------------------------------------------------------ generator
def draw_options(rnd, fine):
    """list of option dicts (one per asset with options), the way they are related ('share') and whether a coarse step occurs"""
    tab = FAM[fine]
    step = PE.td(fine)
    n_per = rnd.choice([2, 2, 2, 3])
    share = rnd.choice(['period', 'period', 'period', 'duration', 'duration', 'mixed'])

    def durs_for(p):
        """durations that hold at least two periods; None = whole horizon"""
        return [None] + [d for d in tab['dur'] if PE.td(d) >= 2 * PE.td(p)]

    opts = []
    if share == 'period':
        p = rnd.choice(tab['per'])
        ds = durs_for(p)
        rnd.shuffle(ds)
        ds = ds[:n_per] if len(ds) >= n_per else ds + [rnd.choice(ds) for _ in range(n_per - len(ds))]
        if n_per == 3 and rnd.random() < 0.3:
            ds[2] = ds[0]                       # two assets with the same options next to one with another duration
        for d in ds:
            opts.append({'periodicity': p, 'periodicity_duration': d})
    elif share == 'duration':
        ps = list(tab['per'])
        rnd.shuffle(ps)
        ps = ps[:n_per]
        ok = [d for d in tab['dur'] if all(PE.td(d) >= 2 * PE.td(p) for p in ps)]
        d = rnd.choice([None] + ok + ok)
        for p in ps:
            opts.append({'periodicity': p, 'periodicity_duration': d})
    else:
        for _ in range(n_per):
            p = rnd.choice(tab['per'])
            opts.append({'periodicity': p, 'periodicity_duration': rnd.choice(durs_for(p))})
    # next to them: a coarse asset and / or an asset that is coarse AND periodic (period and duration whole multiples of its step)
    if rnd.random() < 0.4:
        opts.append({'freq': rnd.choice(tab['coarse'])})
    if rnd.random() < 0.15:
        o = copy.deepcopy(rnd.choice([x for x in opts if 'periodicity' in x]))
        ok = [c for c in tab['coarse'] if PE.td(o['periodicity']) % PE.td(c) == pd.Timedelta(0) and PE.td(c) < PE.td(o['periodicity'])
              and (o['periodicity_duration'] is None or PE.td(o['periodicity_duration']) % PE.td(c) == pd.Timedelta(0))]
        if ok:
            o['freq'] = rnd.choice(ok)
            opts.append(o)
    for o in opts:
        if o.get('periodicity_duration', 0) is None:
            del o['periodicity_duration']
    rnd.shuffle(opts)
    return opts, share


def draw_grid(rnd, fine, opts):
    """grid on which every duration that occurs has (if the size allows) two or more blocks; whole number of the coarse steps"""
    step = PE.td(fine)
    pm = [mult(o['periodicity'], step) for o in opts if 'periodicity' in o]
    dm = [mult(o['periodicity_duration'], step) for o in opts if 'periodicity_duration' in o]
    cm = [mult(o['freq'], step) for o in opts if 'freq' in o]
    block = max(dm + [2 * max(pm)])
    T = block * rnd.choice([2, 2, 3])
    while T > TMAX and T - block >= max(block, 2 * max(pm)):
        T -= block
    T = min(T, max(TMAX, 2 * max(pm)))
    unit = int(np.lcm.reduce(cm)) if cm else 1
    if cm:
        T = max(unit, (T // unit) * unit)
    elif rnd.random() < 0.2:
        T += rnd.randint(1, max(1, min(pm) - 1))        # partial last period
    anchored = any(o.get('periodicity') == 'W' for o in opts)
    day0 = pd.Timestamp('2021-01-03')                  # a Sunday: weeks ('W') begin there
    if anchored:
        start = day0
    else:
        start = day0 + rnd.choice([0, 0, 0, 1, 3, 5]) * pd.Timedelta(days=1)
        if fine != 'd':
            start = start + rnd.choice([0, 0, 0, 6, 12]) * pd.Timedelta(hours=1)
    tz = rnd.choice([None, None, None, 'UTC', 'CET'])    # January: no clock change
    return {'fine': fine, 'T': int(T), 'start': PE.iso(start), 'tz': tz}


def draw_asset(rnd, i, atype, opt, gridf):
    """asset number i with the given options: type parameters, window, takes and its own price series as `periodic.gen_case`
    draws them for a focus asset (no probe points).  Returns (spec, prices of the asset, forms of these series)."""
    kind = ('both' if 'periodicity' in opt else 'freq') if 'freq' in opt else 'per'
    if 'periodicity_duration' in opt:
        kind += 'dur'
    o = {}
    for k in ('freq', 'periodicity', 'periodicity_duration'):       # the frequency first: gen_case aligns windows / takes with it
        if k in opt:
            o[k] = opt[k]
    force = dict(gridf, opt=o)
    c = PE.gen_case(rnd, oracle=True, kind=kind, atype=atype, dst=False, force=force, probes=False)
    spec = copy.deepcopy(c['focus'])
    spec['name'] = 'X%d' % i
    prices, forms = {}, {}
    for arg, v in list(spec['args'].items()):
        if isinstance(v, str) and v in c['prices'] and arg in ('price', 'costs_time_series', 'min_cap', 'max_cap'):
            nk = '%s_%d' % (v, i)
            prices[nk] = list(c['prices'][v])
            forms[nk] = c['forms'].get(v, 'f8')
            spec['args'][arg] = nk
    return spec, prices, forms


def draw_second(rnd, fine, entries):
    """another portfolio for the SAME grid object, derived from the first: the same assets made afresh with changed options"""
    tab = FAM[fine]
    how = rnd.choice(['swap', 'duration', 'duration', 'duration', 'period', 'subset', 'plain'])
    ent = copy.deepcopy(entries)
    per = [e for e in ent if 'periodicity' in e['opt'] and 'freq' not in e['opt']]
    if how == 'swap' and len(per) >= 2:
        a, b = rnd.sample(per, 2)
        a['opt'], b['opt'] = b['opt'], a['opt']
    elif how == 'duration' and per:
        for e in rnd.sample(per, rnd.randint(1, len(per))):
            p = e['opt']['periodicity']
            ds = [d for d in [None] + tab['dur'] if (d is None or PE.td(d) >= 2 * PE.td(p)) and d != e['opt'].get('periodicity_duration')]
            d = rnd.choice(ds)
            e['opt'].pop('periodicity_duration', None)
            if d is not None:
                e['opt']['periodicity_duration'] = d
    elif how == 'period' and per:
        e = rnd.choice(per)
        d = e['opt'].get('periodicity_duration')
        ps = [p for p in tab['per'] if p != e['opt']['periodicity'] and p != 'W' and (d is None or PE.td(d) >= 2 * PE.td(p))]
        if ps:
            e['opt']['periodicity'] = rnd.choice(ps)
    elif how == 'subset' and len(ent) >= 2:
        keep = rnd.sample(range(len(ent)), rnd.randint(1, len(ent) - 1))
        ent = [ent[k] for k in sorted(keep)]
    elif how == 'plain' and per:
        rnd.choice(per)['opt'] = {}                                  # the same asset without any option next to the others
    rnd.shuffle(ent)
    return ent, how


def gen_case(rnd):
    fine = rnd.choice(['h', 'h', 'h', '30min', '15min', '2h', '2h', '4h', '4h', '6h', '12h', 'd'])
    opts, share = draw_options(rnd, fine)
    gridf = draw_grid(rnd, fine, opts)
    step = PE.td(fine)
    start = pd.Timestamp(gridf['start'])
    g = {'start': gridf['start'], 'end': PE.iso(start + gridf['T'] * step), 'freq': fine, 'unit': 'h', 'tz': gridf['tz']}
    tg = scen.make_grid(g)
    assert tg.T == gridf['T'], (tg.T, gridf)
    T = tg.T
    prices, forms = {}, {}
    entries = []
    types = [rnd.choice(PE.TYPES) for _ in opts]
    if rnd.random() < 0.35:
        types = [types[0]] * len(opts)                                # the same class several times
    for i, (o, t) in enumerate(zip(opts, types)):
        spec, pr, fo = draw_asset(random.Random(rnd.getrandbits(48)), i, t, o, gridf)
        prices.update(pr)
        forms.update(fo)
        entries.append({'spec': spec, 'opt': {k: v for k, v in o.items()}})
    allnodes = ['n1', 'n2'] if any(len(e['spec']['nodes']) == 2 for e in entries) or rnd.random() < 0.15 else ['n1']
    others = []
    mprices = {}
    for n in allnodes:
        # a level per quarter of the horizon on top of the noise: what is worth doing differs from block to block
        lv = [rnd.choice([-3, 0, 0, 3, 6]) for _ in range(4)]
        mprices['p_' + n] = [lv[min(3, (4 * t) // T)] + PE.q8(rnd, -2, 12) for t in range(T)]
        others.append({'type': 'SimpleContract', 'name': 'mkt_' + n, 'nodes': [n],
                       'args': {'price': 'p_' + n, 'min_cap': -12.0, 'max_cap': 12.0, 'extra_costs': rnd.choice([0.0, 0.125, 0.5])}})
    if rnd.random() < 0.4:
        mprices['load'] = [-PE.q8(rnd, 0, 3) for _ in range(T)]
        others.append({'type': 'SimpleContract', 'name': 'load', 'nodes': [rnd.choice(allnodes)], 'args': {'min_cap': 'load', 'max_cap': 'load'}})
    if len(allnodes) == 2 and all(len(e['spec']['nodes']) == 1 for e in entries):
        others.append({'type': 'Transport', 'name': 'link', 'nodes': ['n1', 'n2'], 'args': {'min_cap': 0.0, 'max_cap': 2.0, 'efficiency': 0.875}})
    pseudo = PE.draw_forms(rnd, {'prices': mprices, 'focus': others[0], 'others': others[1:]}, p_frame=0.0)
    prices.update(pseudo['prices'])
    forms.update(pseudo['forms'])
    frame = rnd.choice(['range', 'timepoints']) if rnd.random() < 0.1 else None
    if frame:
        forms = {k: (f if f in PE.ARRAY_FORMS else 'i8' if f in PE.INT_FORMS else 'f8') for k, f in forms.items()}
    setups = [{'entries': entries, 'how': 'first'}]
    if rnd.random() < 0.6:
        ent2, how = draw_second(rnd, fine, entries)
        s2 = {'entries': ent2, 'how': how}
        if rnd.random() < 0.5:
            setups.append(s2)
        else:
            setups.insert(0, s2)
    return {'_stream': STREAM, 'grid': g, 'nodes': allnodes, 'prices': prices, 'forms': forms, 'frame': frame, 'others': others,
            'setups': setups, 'share': share}


def cases(seed, n):
    rnd = random.Random(seed * 104729 + 1361)
    for i in range(n):
        yield 'mp%d' % i, gen_case(random.Random(rnd.getrandbits(48)))


# ------------------------------------------------------------------ running
def view(case, entry):
    """the case as the single-asset helpers of comp/periodic.py see it, for ONE of the assets"""
    return {'grid': case['grid'], 'nodes': case['nodes'], 'prices': case['prices'], 'focus': entry['spec'], 'opt': entry['opt'],
            'others': [], 'uniform_dt': True, 'forms': case.get('forms'), 'frame': case.get('frame')}


def real_portfolio(case, setup):
    nodes = scen.make_nodes(case['nodes'])
    assets = [scen.build_asset(PE.focus_spec(view(case, e), e['opt']), nodes) for e in setup['entries']]
    others = [scen.build_asset(s, nodes) for s in case['others']]
    return Portfolio(assets + others)


def reference_portfolio(case, setup):
    """own grid object, own float data; every asset with options replaced by its fine version plus its own equalities"""
    tg = scen.make_grid(case['grid'])
    prices = {k: np.asarray(v, dtype=float) for k, v in case['prices'].items()}
    nodes = scen.make_nodes(case['nodes'])
    assets, infos = [], []
    for e in setup['entries']:
        if e['opt']:
            a, info = PE.reference_asset(view(case, e), tg, prices, nodes)
        else:
            a, info = scen.build_asset(e['spec'], nodes), {}
        assets.append(a)
        infos.append(info)
    others = [scen.build_asset(s, nodes) for s in case['others']]
    return Portfolio(assets + others), tg, prices, infos


def solve(portf, tg, prices):
    """(problem, result or status string, output or None); raises what the set-up raises"""
    with Quiet():
        op = portf.setup_optim_problem(prices, tg)
    res = impl.solve(op, solver='SCIPY')
    if isinstance(res, str):
        return op, res, None
    with Quiet():
        out = eao.io.extract_output(portf, op, res, prices)
    return op, res, out


def run_case(case, drv=None):
    r = {'evaluated': 0, 'nontrivial': False, 'features': ['stream:' + STREAM, 'share:' + case['share'], 'setups:%d' % len(case['setups'])],
         'disagreements': [], 'violations': []}
    f = r['features']
    tg = scen.make_grid(case['grid'])            # ONE grid object and ONE data object for all set-ups of the case
    prices = PE.make_prices(case, tg)
    dtf = np.asarray(tg.dt, dtype=float)
    moved = 0
    compared = 0
    for si, setup in enumerate(case['setups']):
        ents = setup['entries']
        f.append('setup:' + setup['how'])
        f.append('options:' + '+'.join(sorted(opt_str(e['opt']) for e in ents)))
        desc = [{'name': e['spec']['name'], 'type': e['spec']['type'], 'opt': e['opt']} for e in ents]
        try:
            rportf, rtg, rprices, infos = reference_portfolio(case, setup)
            rop, rres, rout = solve(rportf, rtg, rprices)
        except Exception as e:
            f.append('ref-setup-error:' + err_class(e) + ':' + str(e)[:60])
            continue
        kinds = [PE.kind_facts(view(case, e), info) if e['opt'] else 'other' for e, info in zip(ents, infos)]
        kind = next((k for k in kinds if k != 'other'), 'other')
        facts = {'kind': kind, 'kinds': kinds, 'stream': STREAM, 'assets': desc, 'share': case['share'], 'setup': si,
                 'setup_how': setup['how'], 'setups_on_grid_object': len(case['setups']),
                 'asset_type': '+'.join(e['spec']['type'] for e in ents), 'opt': sorted(set(k for e in ents for k in e['opt']))}
        if kind != 'other':
            f.append('kind:' + kind)
        try:
            portf = real_portfolio(case, setup)
            op, res, out = solve(portf, tg, prices)
        except Exception as e:
            f.append('real-setup-error:' + err_class(e))
            if rout is not None and not any('freq' in x['opt'] for x in ents):
                r['violations'].append({'oracle': 'periodic_builds', 'facts': dict(facts, error=err_class(e), steps=int(tg.T)),
                                        'detail': 'set-up %d of the portfolio with the periodic assets %s on a grid of %d steps raises %s: %s; the fine portfolio with the equalities exists and has value %.8g' % (
                                            si, [(d['type'], opt_str(d['opt'])) for d in desc], tg.T, err_class(e), str(e)[:120], rres.value)})
            continue
        r['evaluated'] += 1
        ch = PE.prices_changed(case, tg, prices)
        if ch is not None:
            r['disagreements'].append({'component': 'periodic/input-data', 'detail': 'set-up %d altered the caller\'s price data: %s' % (si, ch)})
        if out is None:
            if rout is not None:
                r['violations'].append({'oracle': 'value_vs_fine_with_equalities', 'facts': dict(facts, real_status=str(res)),
                                        'detail': 'set-up %d: the portfolio with the options (%s) is not solved (%s) while the fine portfolio with the equalities of every asset has value %.10g' % (
                                            si, [(d['name'], d['type'], opt_str(d['opt'])) for d in desc], res, rres.value)})
            else:
                f.append('both-unsolved')
            continue
        disp = out['dispatch']
        colmap = impl.disp_cols(portf)
        allcols = [c for (a, n), c in colmap.items() if any(a == e['spec']['name'] for e in ents)]
        scale = max(1.0, float(np.abs(disp[allcols].values).max()) if allcols else 1.0)
        for e, info, k in zip(ents, infos, kinds):
            if not e['opt']:
                continue
            name = e['spec']['name']
            cols = [c for (a, n), c in colmap.items() if a == name]
            fa = dict(facts, kind=k, asset=name, asset_type=e['spec']['type'], opt=sorted(e['opt']))
            if len(cols) and np.abs(disp[cols].values).max() > 1e-7:
                moved += 1
            if 'freq' in e['opt']:
                bad = None
                for col in cols:
                    v = disp[col].values.astype(float)
                    for I in info['intervals']:
                        if len(I) > 1:
                            rate = v[I] / dtf[I]
                            if np.abs(rate - rate[0]).max() > 2e-6 * scale:
                                bad = (col, np.round(rate, 6).tolist()[:8], I[:8])
                                break
                    if bad:
                        break
                if bad:
                    r['violations'].append({'oracle': 'coarse_constant_rate', 'facts': fa,
                                            'detail': 'set-up %d, asset %s (%s, %s): column %s: rates %s within coarse interval of steps %s' % (
                                                si, name, e['spec']['type'], opt_str(e['opt']), bad[0], bad[1], bad[2])})
            if 'periodicity' in e['opt']:
                labels = info['labels']
                act = set(info.get('covered') or range(len(labels)))
                bad = None
                for col in cols:
                    v = disp[col].values.astype(float)
                    seen = {}
                    for t, lab in enumerate(labels):
                        if t not in act:
                            continue
                        if lab in seen and abs(v[t] - v[seen[lab]]) > 2e-6 * scale:
                            bad = (col, seen[lab], t, lab, v[seen[lab]], v[t])
                            break
                        seen.setdefault(lab, t)
                    if bad:
                        break
                if bad:
                    r['violations'].append({'oracle': 'periodic_repeats', 'facts': fa,
                                            'detail': 'set-up %d, asset %s (%s, periodicity|duration|freq %s; next to %s): column %s: dispatch %.6g at step %d vs %.6g at step %d, both (duration block, position by the clock) = %s of the asset\'s own options' % (
                                                si, name, e['spec']['type'], opt_str(e['opt']),
                                                [opt_str(x['opt']) for x in ents if x is not e], bad[0], bad[4], bad[1], bad[5], bad[2], bad[3])})
        if rout is None:
            r['violations'].append({'oracle': 'value_vs_fine_with_equalities', 'facts': facts,
                                    'detail': 'set-up %d: reference (fine portfolio plus the equalities of every asset) %s while the real portfolio (%s) has value %.8g' % (
                                        si, rres, [(d['name'], d['type'], opt_str(d['opt'])) for d in desc], res.value)})
        else:
            compared += 1
            tol = 1e-6 * max(1.0, abs(res.value), abs(rres.value))
            if abs(res.value - rres.value) > tol:
                r['violations'].append({'oracle': 'value_vs_fine_with_equalities', 'facts': facts,
                                        'detail': 'set-up %d of %d on the grid object (%s): value %.10g (real portfolio, assets (name, type, periodicity|duration|freq) %s) vs %.10g (fine portfolio plus the equalities of every asset by its own options)' % (
                                            si, len(case['setups']), setup['how'], res.value, [(d['name'], d['type'], opt_str(d['opt'])) for d in desc], rres.value)})
    if compared:
        f.append('value-compared')
    r['nontrivial'] = bool(compared and moved >= 2)
    return r
