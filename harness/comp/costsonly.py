"""Correspondence of the `costs_only=True` branch of every asset builder and of `Portfolio.create_cost_samples`
(eaopack/assets.py, eaopack/portfolio.py) with the Lean model `EAO.Model.CostsOnly`, and the oracle "the cost-only vector IS
the cost vector of the full set-up" on the real code (C17: the glue between `create_cost_samples` and `make_slp` / the robust
target).

A case is a plain JSON value:
  {stream, scn: {grid, nodes, prices, assets: [spec]}, target: asset name | None, samples: [price dict] | None,
   src: the case of the component generator it was made from (order books: the number / date forms), features: [...]}
  (spec as in harness.scen: {type, name, nodes, args, base?, inner?})

What is compared (driver ops `costs_only`, `cost_samples` of `EAO/Driver/CostsOnly.lean`):
  * target given:   `asset.setup_optim_problem(prices, tg, costs_only=True)` on the real object vs `CSpec.costsOnly` (vector or
                    error class), and the cost vector / number of variables of the full set-up vs `CSpec.build`;
  * samples given:  `portf.create_cost_samples(samples, tg)` vs `createCostSamples`, and per sample the cost vector of
                    `portf.setup_optim_problem(sample, tg)` vs `portfolioProblem` (asset problems assembled by `assemble`).
The model receives every asset as a closed description: constructor arguments and the restricted grid the asset sees when it
is set up.  The windows are RECORDED from the real run (start / end of every object at the moment its `setup_optim_problem` is
entered: wrappers clip the windows of what they wrap and restore them afterwards); the grids are made from them by the real
`Timegrid.set_restricted_grid` on a fresh grid object.

Oracles (real code only): `costs_only_is_cost` (target) and `cost_samples` (portfolio): a cost-only vector that differs
from / is not as long as `c` of the separately set-up problem.  Known findings show up here: F-17e (periodic assets return
the un-merged vector), F-17m (a sampled extra_costs / start_costs series that vanishes in some samples only).
"""
import copy
import random
import traceback
from fractions import Fraction

import numpy as np
import pandas as pd

import eaopack as eao
from eaopack.portfolio import StructuredAsset, LinkedAsset, Portfolio
from .. import scen, gen
from ..impl import Quiet, err_class
from ..lean import fs
from ..pf import cmp_vec
from .common import grid_json, instant, prices_json
from . import contract as ct
from . import storage as st
from . import orderbook as obm
from . import chp as chpm
from . import coarsebuild as cb
from . import scaled as scm
from . import linked as lkm
from . import periodic as perm
from . import slp as slpm

NAME = 'costsonly'
TOL = 1e-9

M = 'EAO.Properties.C17Costs'
THEOREMS_C17_COSTS = [
    (M, 'EAO.C17C.costs_only_is_cost_simple', 'SimpleContract: whenever the full set-up succeeds, the cost-only branch succeeds and returns exactly the cost vector of the problem'),
    (M, 'EAO.C17C.costs_only_simple_error_side', 'SimpleContract: when the cost-only branch returns a vector, the set-up returns a problem with that vector or fails with the IndexError of an asset without node or with the NaN assertion (capacity with gaps) - nothing else'),
    (M, 'EAO.C17C.setup_error_shared_simple', 'SimpleContract: every other error of the set-up is raised by the cost-only branch too, with the same class'),
    (M, 'EAO.C17C.costs_only_is_cost_contract', 'Contract: the same vector (take rows do not touch c)'),
    (M, 'EAO.C17C.costs_only_is_cost_multi', 'MultiCommodityContract: the same vector (the mapping copies do not touch c)'),
    (M, 'EAO.C17C.costs_only_transport_eq', 'Transport: cost-only branch = set-up followed by .c as values of the error monad (same vector, same error: nothing that can fail is skipped)'),
    (M, 'EAO.C17C.costs_only_ext_transport_eq', 'ExtendedTransport: the same'),
    (M, 'EAO.C17C.costs_only_is_cost_coarse_simple', 'SimpleContract with an own coarse freq: the cost-only vector (plain mean price per coarse step) is the c of the coarse problem'),
    (M, 'EAO.C17C.costs_only_is_cost_coarse_transport', 'Transport with an own coarse freq: the same'),
    (M, 'EAO.C17C.costs_only_is_cost_storage', 'Storage (constructor guards included): the cost-only vector (dispatch costs, then one zero per boolean variable) is the c of the problem'),
    (M, 'EAO.C17C.costs_only_storage_error_side', 'Storage: when the cost-only branch returns a vector, the set-up returns a problem with it or fails with the IndexError / NaN assertion of the node and block structure'),
    (M, 'EAO.C17C.setup_error_shared_storage', 'Storage: every other error of the set-up is raised by the cost-only branch too'),
    (M, 'EAO.C17C.costs_only_is_cost_orderbook', 'OrderBook: cost-only branch = set-up followed by .c (capa x discounted covered duration x price per order; same error classes)'),
    (M, 'EAO.C17C.costs_only_is_cost_chp', 'CHPAsset / Plant, with or without ramp profiles, on top of the problem of its parent contract: the cost-only branch, which only sees the bare vector of the parent, returns c of the problem (heat copy, running, start, shutdown blocks)'),
    (M, 'EAO.C17C.costs_only_is_cost_minload', 'CHPAsset_with_min_load_costs: parent vector followed by min_load_costs*dt when the booleans are added, parent vector otherwise'),
    (M, 'EAO.C17C.costs_only_is_cost_chp_asset', 'the whole chain constructors -> Contract -> CHPAsset / Plant -> minimum-load costs: cost-only vector = c of the problem'),
    (M, 'EAO.C17C.costs_only_chp_error_side', 'CHPAsset / Plant without profiles: when the cost-only branch returns a vector the set-up returns a problem with it or fails in one of the late checks the cost-only branch does not reach (sign assertions, two-variable parent, fuel rows), with exactly that error'),
    (M, 'EAO.C17C.costs_only_minload_error_side', 'minimum-load costs: the set-up can additionally fail only while generating the rows (assertion / IndexError)'),
    (M, 'EAO.C17C.costs_only_is_cost_scaled', 'ScaledAsset: base vector followed by fix_costs * duration; an inactive base stays empty.  Hypothesis: the base problem has as many bounds as costs (the code tests len(l) in one branch and len(c) in the other)'),
    (M, 'EAO.C17C.scaled_len_witness', 'that hypothesis is needed: machine-checked base with one cost entry and no bounds'),
    (M, 'EAO.C17C.costs_only_is_cost_structured', 'StructuredAsset: the cost-only vector is c of the structured problem = concatenation of the cost vectors of the FULL problems of the wrapped assets'),
    (M, 'EAO.C17C.costs_only_is_cost_linked', 'LinkedAsset: the linking rows carry no costs: the vector of the structured asset is c of the linked problem'),
    (M, 'EAO.C17C.costs_only_is_cost', 'for every asset description (all classes, wrappers around wrappers) without a periodic asset whose cost-only branch is reached and with well-formed bases of scaled assets: set-up succeeds with problem a  ==>  cost-only branch succeeds with a.c'),
    (M, 'EAO.C17C.costs_only_fails_only_if_build_fails', 'hence a failing cost-only branch means a failing set-up'),
    (M, 'EAO.C17C.build_len', 'every problem built from contracts, transports, storages, order books and scaled / structured / linked / periodic wrappers on grids as Timegrid makes them has as many bounds as costs'),
    (M, 'EAO.C17C.buildAll_len', 'the same for the list of wrapped assets'),
    (M, 'EAO.C17C.basesWF_of_gridsOk', 'so the hypothesis on bases of costs_only_is_cost is automatic for these descriptions'),
    (M, 'EAO.C17C.costs_only_is_cost_lp', 'costs_only_is_cost without the hypothesis on bases for these descriptions'),
    (M, 'EAO.C17C.periodic_unmerged', 'a periodic asset: the cost-only branch returns the vector of the problem BEFORE the periodic merge'),
    (M, 'EAO.C17C.periodic_witness', 'machine-checked instance of finding F-17e: storage on four steps with periodicity two steps: the problem has 2 variables, the cost-only vector 4 entries'),
    (M, 'EAO.C17C.portfolio_costs_only_is_cost', 'Portfolio.setup_optim_problem(costs_only=True) = c of the assembled portfolio problem whenever the portfolio can be set up'),
    (M, 'EAO.C17C.portfolio_costs_blocks', 'its block for asset k starts at the sum of the vector lengths of the assets before it and is the cost-only vector of asset k'),
    (M, 'EAO.C17C.cost_samples_are_problem_costs', 'create_cost_samples: the i-th vector is the c of the portfolio problem set up with the i-th price sample'),
    (M, 'EAO.C17C.cost_samples_fit', 'if the portfolio problem has the same number of variables under every sample as under the reference prices, the samples satisfy C17.SamplesFit for the reference problem (the hypothesis of makeSlp_ok_iff / slp_structure / slp_value_mean)'),
    (M, 'EAO.C17C.cost_samples_fit_lp', 'the same without the hypothesis on bases for the LP descriptions'),
    (M, 'EAO.C17C.scenario_costs_are_problem_costs', 'with these vectors C17.scenCost P.c cs (i+1) is the cost vector and C17.scenValue the value function of the portfolio problem under the i-th sample: the scenarios of slp_structure / slp_value_mean ARE the problems under the sampled prices'),
    (M, 'EAO.C17C.shape_price_free_simple', 'SimpleContract without key parameters (capacities, extra costs): the number of variables is the same under all prices'),
    (M, 'EAO.C17C.shape_price_free_contract', 'the same for Contract'),
    (M, 'EAO.C17C.shape_price_free_storage', 'Storage: the number of variables never depends on the prices'),
    (M, 'EAO.C17C.shape_price_free_transport', 'Transport: the number of variables never depends on the prices'),
    (M, 'EAO.C17C.zero_aux_witness', 'machine-checked instance of finding F-17m: extra_costs given as key, identically zero under the reference prices and not under the sample: vectors of length T and 2T, SamplesFit fails'),
]

# model error class -> classes of the exception the implementation may raise
ERR_MAP = {'nan': {'assert'}, 'assert': {'assert'}, 'ill-posed': {'value'}, 'length': {'value'}, 'overlap': {'value'},
           'missing-price': {'value', 'assert'}, 'index': {'index'}, 'not-implemented': {'not-implemented'}}

CONTRACT_KINDS = {'SimpleContract': 'simple_contract', 'Contract': 'contract', 'MultiCommodityContract': 'multi',
                  'Transport': 'transport', 'ExtendedTransport': 'ext_transport'}
MODEL_KIND = {'simple_contract': 'simple', 'contract': 'contract', 'multi': 'multi', 'transport': 'transport',
              'ext_transport': 'ext_transport'}
CHP_TYPES = ('CHPAsset', 'Plant', 'CHPAsset_with_min_load_costs')
PERIODIC_OK = ('SimpleContract', 'Contract', 'MultiCommodityContract', 'Transport', 'ExtendedTransport', 'Storage')


class Unmodelled(Exception):
    """the case uses something outside the model (coarse storage, periodic CHP, calendar frequencies in durations ...)"""


class CtorError(Exception):
    def __init__(self, path, cls, text=''):
        Exception.__init__(self, '%s at %r: %s' % (cls, path, text))
        self.path, self.cls = path, cls


# ------------------------------------------------------------------------------------------ real objects
def _children(spec):
    if spec['type'] == 'ScaledAsset':
        return [spec['base']]
    if spec['type'] in ('StructuredAsset', 'LinkedAsset'):
        return list(spec['inner'])
    return []


def _obj_children(obj):
    if isinstance(obj, eao.assets.ScaledAsset):
        return [obj.base_asset]
    if isinstance(obj, StructuredAsset):
        return list(obj.portfolio.assets)
    return []


def build_obj(spec, nodes, path=(), src=None):
    """the eaopack object of a spec; a failing constructor raises CtorError with the position in the tree"""
    t = spec['type']
    try:
        if t == 'ScaledAsset':
            base = build_obj(spec['base'], nodes, path + (0,), src)
            args = scen.dec(copy.deepcopy(spec.get('args', {})))
            return eao.assets.ScaledAsset(name=spec['name'], base_asset=base, **args)
        if t in ('StructuredAsset', 'LinkedAsset'):
            inner = [build_obj(s, nodes, path + (i,), src) for i, s in enumerate(spec['inner'])]
            args = scen.dec(copy.deepcopy(spec.get('args', {})))
            nn = [nodes[n] for n in spec['nodes']]
            if t == 'StructuredAsset':
                return StructuredAsset(name=spec['name'], nodes=nn, portfolio=Portfolio(inner), **args)
            for k in ('asset1_variable', 'asset2_variable'):
                args[k] = tuple(args[k])
            return LinkedAsset(name=spec['name'], nodes=nn, portfolio=Portfolio(inner), **args)
        if t == 'OrderBook' and src is not None and src.get('ob') is spec:
            return obm.build_ob(src, spec, nodes)
        return scen.build_asset(spec, nodes)
    except CtorError:
        raise
    except Exception as e:
        raise CtorError(path, err_class(e), '%s: %s' % (type(e).__name__, str(e)[:160]))


def walk(spec, obj, path=()):
    """(path, spec, object) for every asset of the tree, parents first"""
    yield path, spec, obj
    if obj is None:
        for i, s in enumerate(_children(spec)):
            yield from walk(s, None, path + (i,))
    else:
        for i, (s, o) in enumerate(zip(_children(spec), _obj_children(obj))):
            yield from walk(s, o, path + (i,))


class WindowRecorder:
    """records (start, end) of every object of the trees at the moment its `setup_optim_problem` is entered"""

    def __init__(self, roots):
        self.items = []
        for key, spec, obj in roots:
            for path, s, o in walk(spec, obj):
                self.items.append(((key,) + path, o))
        self.win = {}

    def __enter__(self):
        for key, o in self.items:
            orig = o.setup_optim_problem

            def wrapped(*a, _orig=orig, _o=o, _key=key, **kw):
                self.win.setdefault(_key, (_o.start, _o.end))
                return _orig(*a, **kw)
            o.__dict__['setup_optim_problem'] = wrapped
        return self

    def __exit__(self, *exc):
        for _, o in self.items:
            o.__dict__.pop('setup_optim_problem', None)
        return False


def restricted(g, wacc, start, end, freq=None):
    """what `Asset.set_timegrid` leaves on a fresh grid object: (grid, grid.restricted)"""
    tg = scen.make_grid(g)
    try:
        with Quiet():
            tg.set_wacc(wacc)
            tg.set_restricted_grid(start, end, freq)
    except Exception as e:
        # e.g. an asset frequency finer than the grid's: the assertion of `Asset.set_timegrid` (the grid construction is
        # modelled in EAO/Model/Grid.lean and CoarseBuild.lean, not here)
        raise Unmodelled('restricted grid: %s' % type(e).__name__)
    return tg, tg.restricted


def step_seconds(g):
    if 'step_s' in g:
        return int(g['step_s'])
    try:
        return lkm.seconds_of(g['freq'])
    except Exception:
        return 0


# ------------------------------------------------------------------------------------------ model description of an asset
def model_spec(spec, ctx, key):
    """the `CSpec` JSON of an asset.  ctx: g, prices, T, wins {key: (start, end)}, src, objs {key: object | None}"""
    g, prices, T = ctx['g'], ctx['prices'], ctx['T']
    tz = g.get('tz')
    t = spec['type']
    a = scen.dec(copy.deepcopy(spec.get('args', {})))
    obj = ctx['objs'].get(key)
    start, end = ctx['wins'].get(key, (a.get('start'), a.get('end')) if obj is None else (obj.start, obj.end))
    wacc = a.get('wacc', 0.) if obj is None else obj.wacc
    freq = a.get('freq')

    def leaf_grid():
        tg, r = restricted(g, wacc, start, end, freq)
        coarse = hasattr(r, 'I_minor_in_major')
        trivial = coarse and all(len(I) == 1 for I in r.I_minor_in_major) and [int(I[0]) for I in r.I_minor_in_major] == [int(i) for i in r.I]
        return tg, r, coarse and not trivial

    def maybe_periodic(js):
        if a.get('periodicity') is None:
            return js
        if t not in PERIODIC_OK or js['kind'].startswith('coarse'):
            raise Unmodelled('periodicity on %s / with a coarse frequency' % t)
        tg = scen.make_grid(g)
        b = perm.boundaries(tg.timepoints, tg.tz, a['periodicity'], a.get('periodicity_duration'), end=tg.end)
        return {'kind': 'periodic', 'spec': js,
                'labels_req': {'op': 'step_labels', 'pts': [instant(p, tz) for p in tg.timepoints], 'periods': b['periods'],
                               'durations': b['durations'], 'end': b['end'], 'raw': True}}

    if t in CONTRACT_KINDS:
        kind = CONTRACT_KINDS[t]
        tg, r, coarse = leaf_grid()
        pc = {'kind': kind, 'grid': g, 'prices': prices, 'spec': spec}
        req = ct.request(pc, {'grid': grid_json(r, tz), 'fullT': T})
        if coarse:
            if t not in ('SimpleContract', 'Transport'):
                raise Unmodelled('coarse frequency on %s' % t)
            if a.get('profile') is not None:
                raise Unmodelled('profile')
            return maybe_periodic({'kind': 'coarse_simple' if t == 'SimpleContract' else 'coarse_transport', 'params': req['params'],
                                   'coarse': cb.coarse_json(r, tz), 'dt_fine': [fs(v) for v in tg.dt], 'fullT': T})
        js = {'kind': MODEL_KIND[kind], 'params': req['params'], 'grid': req['grid'], 'fullT': T, 'unitSec': req['unitSec']}
        if kind == 'multi':
            js['factors'] = req['factors']
        return maybe_periodic(js)
    if t == 'Storage':
        tg, r, coarse = leaf_grid()
        if coarse:
            raise Unmodelled('coarse frequency on Storage')
        aa = None
        if a.get('block_size') is not None and r.T > 0:
            try:
                aa = st.block_starts(r, a['block_size'])
            except Exception:
                raise Unmodelled('block starts: pandas calendar arithmetic fails')
        pc = {'name': spec['name'], 'nodes': list(spec['nodes']), 'args': spec['args']}
        return maybe_periodic({'kind': 'storage', 'params': st.params_json(pc, aa), 'grid': grid_json(r, tz), 'T': T})
    if t == 'OrderBook':
        tg, r = restricted(g, wacc, start, end)     # no window of its own, but a wrapper's window reaches it
        src = ctx.get('src')
        if src is not None and src.get('ob') is spec:
            req = obm.request(src, {'grid': grid_json(r, tz)})
            return {'kind': 'orderbook', 'name': req['name'], 'node': req['node'], 'full_exec': req['full_exec'], 'grid': req['grid'],
                    'orders': req['orders']}
        o = a['orders']
        return {'kind': 'orderbook', 'name': spec['name'], 'node': spec['nodes'][0], 'full_exec': bool(a.get('full_exec', False)),
                'grid': grid_json(r, tz),
                'orders': {'start': [instant(x, tz) for x in o['start']], 'stop': [instant(x, tz) for x in o['end']],
                           'capa': [None if v is None else fs(v) for v in o['capa']], 'price': [None if v is None else fs(v) for v in o['price']]}}
    if t in CHP_TYPES:
        if a.get('periodicity') is not None:
            raise Unmodelled('periodicity on a CHP asset (finding F-13d)')
        tg, r, coarse = leaf_grid()
        if coarse:
            raise Unmodelled('coarse frequency on a CHP asset')
        if tz is not None and any(isinstance(v, dict) for v in a.values()):
            raise Unmodelled('interval data on a zone-aware grid (the CHP request encodes naive dates)')
        gj = grid_json(r, tz)
        unit_s, step_s = ct.unit_sec(g.get('unit', 'h')), step_seconds(g)
        if step_s == 0:
            raise Unmodelled('calendar frequency')
        pc = {'args': spec['args'], 'name': spec['name'], 'nodes': list(spec['nodes']), 'cls': t, 'grid': g, 'unit_s': unit_s,
              'step_s': step_s, 'prices': prices}
        req = chpm.request(pc, {'grid': gj})
        cspec = {'type': 'Contract', 'name': spec['name'], 'nodes': list(spec['nodes']), 'args': spec['args']}
        creq = ct.request({'kind': 'contract', 'grid': g, 'prices': prices, 'spec': cspec}, {'grid': gj, 'fullT': T})
        js = {'kind': 'chp', 'p': req['p'], 'contract': creq['params'], 'grid': gj, 'fullT': T, 'unit_s': unit_s, 'step_s': step_s}
        if 'profiles' in req:
            js['profiles'] = req['profiles']
        if 'min_load' in req:
            js['min_load'] = req['min_load']
        return js
    if t == 'ScaledAsset':
        tg, r = restricted(g, wacc, start, end)
        sa = spec['args']
        base = spec['base']
        node0 = (base.get('nodes') or ['?'])[0]
        return {'kind': 'scaled',
                'params': {'name': spec['name'], 'node0': node0, 'min_scale': fs(sa.get('min_scale', 0.)), 'max_scale': fs(sa.get('max_scale', 1.)),
                           'norm_scale': fs(sa.get('norm_scale', 1.)), 'fix_costs': fs(sa.get('fix_costs', 0.))},
                'base': model_spec(base, ctx, key + (0,)), 'dt_sum': fs(float(np.sum(r.dt)))}
    if t in ('StructuredAsset', 'LinkedAsset'):
        js = {'kind': 'structured', 'name': spec['name'], 'ext': list(spec['nodes']),
              'inner': [model_spec(s, ctx, key + (i,)) for i, s in enumerate(spec['inner'])], 'gridI': list(range(T))}
        if t == 'LinkedAsset':
            unit = g.get('unit', 'h')
            a1, v1, n1 = spec['args']['asset1_variable']
            a2, v2, n2 = spec['args']['asset2_variable']
            ar = spec['args'].get('asset2_time_already_running', 0)
            if isinstance(ar, str):   # the name of an attribute of asset 2 (resolved by the constructor)
                ar = getattr(obj, 'asset2_time_already_running', 0) if obj is not None else 0
            try:
                durs = [fs(lkm.dur_fraction(v, unit)) for v in (spec['args'].get('time_back', 0), spec['args'].get('time_forward', 0), ar)]
            except Exception:
                raise Unmodelled('durations of the link')
            step_s = step_seconds(g)
            if step_s == 0:
                raise Unmodelled('calendar frequency')
            js.update({'kind': 'linked', 'link': {'asset1': a1, 'var1': v1, 'node1': n1, 'asset2': a2, 'var2': v2, 'node2': n2,
                                                  'time_back': durs[0], 'time_forward': durs[1], 'already_running': durs[2]},
                       'unit_s': ct.unit_sec(unit), 'step_s': step_s, 'T': T, 'acols': None})
        return js
    raise Unmodelled('asset type %s' % t)


def resolve_labels(js, drv):
    """replace every `labels_req` (request for the model's own step labels) by the labels"""
    if isinstance(js, dict):
        if 'labels_req' in js:
            r = drv.ask(js.pop('labels_req'))
            if 'ok' not in r:
                raise Unmodelled('step labels: %s' % r.get('err'))
            js['labels'] = r['ok']['labels']
        for v in js.values():
            resolve_labels(v, drv)
    elif isinstance(js, list):
        for v in js:
            resolve_labels(v, drv)
    return js


# ------------------------------------------------------------------------------------------ generators
def _scn_of_contract(c):
    s = c['spec']
    return {'grid': c['grid'], 'nodes': sorted(set(s['nodes'])) or ['n1'], 'prices': c['prices'], 'assets': [s]}


def perturb_prices(rnd, prices, n, keep=()):
    """n price samples: every series that is not a capacity is perturbed by multiples of 1/8"""
    out = []
    for _ in range(n):
        ps = {}
        for k, v in prices.items():
            if k in keep or k.startswith('cap') or k.startswith('k_m') or k in ('short',):
                ps[k] = list(v)
            else:
                ps[k] = [x + gen.q8(rnd, -4, 4) if rnd.random() < 0.8 else x for x in v]
        out.append(ps)
    return out


def gen_periodic_case(rnd):
    """a periodic asset on its own: the cost-only branch returns the un-merged vector (known finding F-17e)"""
    grids = [x for x in gen.GRIDS if x[0] in ('h', '2h', '30min')]
    g = gen.gen_grid(rnd, tmin=4, tmax=12, tz_prob=0.0, grids=grids)
    T = g['T_nominal']
    prices = {}
    kind = rnd.choice(['simple', 'storage', 'contract', 'transport'])
    if kind == 'simple':
        a = gen.gen_simple_contract(rnd, g, prices, T, 'per', 'N1', allow_opts=False)
    elif kind == 'contract':
        a = gen.gen_simple_contract(rnd, g, prices, T, 'per', 'N1', allow_opts=False)
        a['type'] = 'Contract'
    elif kind == 'storage':
        a = gen.gen_storage(rnd, g, prices, T, 'per', ['N1'], False, False)
    else:
        a = gen.gen_transport(rnd, g, prices, T, 'per', 'N1', 'N2')
    mult = rnd.choice([2, 2, 3, 4])
    step = pd.Timedelta(seconds=g['step_s'])
    a['args']['periodicity'] = '%dmin' % int(mult * step.total_seconds() // 60)
    if rnd.random() < 0.3:
        a['args']['periodicity_duration'] = '%dmin' % int(mult * rnd.choice([2, 3]) * step.total_seconds() // 60)
    s = {'grid': g, 'nodes': ['N1', 'N2'], 'prices': prices, 'assets': [a]}
    return {'stream': 'periodic', 'scn': s, 'target': 'per', 'samples': None, 'features': ['periodic:' + kind]}


def gen_case(rnd, stream=None):
    stream = stream or rnd.choice(['contract', 'contract', 'contract', 'storage', 'storage', 'orderbook', 'chp', 'chp', 'coarse', 'scaled',
                                   'scaled', 'structured', 'structured', 'linked', 'portfolio', 'portfolio', 'slp', 'periodic', 'zero_aux'])
    if stream == 'contract':
        c = ct.gen_case(rnd, malformed=rnd.random() < 0.2)
        return {'stream': stream, 'scn': _scn_of_contract(c), 'target': c['spec']['name'], 'samples': None, 'features': list(c['features'])}
    if stream == 'coarse':
        c = cb.gen_case(rnd, malformed=rnd.random() < 0.15)
        return {'stream': stream, 'scn': _scn_of_contract(c), 'target': c['spec']['name'], 'samples': None,
                'features': list(c.get('features', []))}
    if stream == 'storage':
        c = st.gen_case(rnd)
        spec = {'type': 'Storage', 'name': c['name'], 'nodes': list(c['nodes']), 'args': c['args']}
        s = {'grid': c['grid'], 'nodes': sorted(set(c['nodes'])), 'prices': c['prices'], 'assets': [spec]}
        return {'stream': stream, 'scn': s, 'target': c['name'], 'samples': None, 'features': list(c['features'])}
    if stream == 'orderbook':
        c = obm.gen_case(rnd, with_portfolio=False)
        g = c['grid']
        s = {'grid': g, 'nodes': list(c['ob']['nodes']), 'prices': {}, 'assets': [c['ob']]}
        return {'stream': stream, 'scn': s, 'target': c['ob']['name'], 'samples': None, 'src': c,
                'features': ['malformed:%s' % c['malformed'], 'frame' if c['frame'] else 'dict']}
    if stream == 'chp':
        c = chpm.gen_case(rnd, kind='build')
        spec = {'type': c['cls'], 'name': c['name'], 'nodes': list(c['nodes']), 'args': c['args']}
        g = dict(c['grid'], step_s=c['step_s'])
        s = {'grid': g, 'nodes': sorted(set(c['nodes'])), 'prices': c['prices'], 'assets': [spec]}
        return {'stream': stream, 'scn': s, 'target': c['name'], 'samples': None,
                'features': ['cls:' + c['cls'], 'mode:' + c['mode'], 'profiles' if 'profiles' in c else 'no-profiles']}
    if stream in ('scaled', 'structured'):
        c = scm.gen_scaled_case(rnd, exact=rnd.random() < 0.8) if stream == 'scaled' else scm.gen_structured_case(rnd)
        s = c['scn']
        samples = perturb_prices(rnd, s['prices'], rnd.choice([1, 2])) if rnd.random() < 0.5 else None
        return {'stream': stream, 'scn': s, 'target': c['target'], 'samples': samples, 'features': ['base:%s' % c.get('base_kind')]}
    if stream == 'linked':
        c = lkm.gen_real_case(rnd)
        s = c['scn']
        samples = perturb_prices(rnd, s['prices'], rnd.choice([1, 2])) if rnd.random() < 0.4 else None
        return {'stream': stream, 'scn': s, 'target': c['target'], 'samples': samples, 'features': ['bad:%s' % c['info']['bad'], 'window:' + c['info']['window'].split(':')[0]]}
    if stream == 'portfolio':
        s = gen.gen_portfolio(rnd, tmax=8, tz_prob=0.15, allow_mip=rnd.random() < 0.6, max_assets=4, nodes_max=3,
                              allow_freq=rnd.random() < 0.2, allow_periodic=False, allow_wacc=rnd.random() < 0.4)
        if rnd.random() < 0.4:
            slpm.key_costs(rnd, s, 0.5)
            slpm.positive_aux(s)
        samples = perturb_prices(rnd, s['prices'], rnd.choice([1, 2, 3]))
        if rnd.random() < 0.3:
            slpm.positive_aux({'prices': samples[0]})
        return {'stream': stream, 'scn': s, 'target': None, 'samples': samples, 'features': ['n%d' % len(s['assets'])]}
    if stream == 'slp':
        c = slpm.gen_case(rnd)
        return {'stream': stream, 'scn': c['scn'], 'target': None, 'samples': c['samples'], 'features': ['family:%s' % c.get('family')]}
    if stream == 'zero_aux':
        c = slpm.gen_zero_aux_case(rnd)
        return {'stream': stream, 'scn': c['scn'], 'target': None, 'samples': c['samples'], 'features': ['zero_aux']}
    if stream == 'periodic':
        return gen_periodic_case(rnd)
    raise ValueError(stream)


# ------------------------------------------------------------------------------------------ implementation side
def _np(prices):
    return {k: np.asarray(v, dtype=float) for k, v in (prices or {}).items()}


def _vec(c):
    """a cost vector as rational strings (None = NaN)"""
    return [None if (isinstance(v, float) and np.isnan(v)) else fs(v) for v in np.asarray(c, dtype=float)]


def _has_periodic(spec):
    if spec.get('args', {}).get('periodicity') is not None:
        return True
    return any(_has_periodic(s) for s in _children(spec))


def _periodic_reached(spec):
    """a periodic asset whose COST-ONLY branch is reached (not hidden inside a structured asset)"""
    if spec['type'] in ('StructuredAsset', 'LinkedAsset'):
        return False
    if spec.get('args', {}).get('periodicity') is not None:
        return True
    return spec['type'] == 'ScaledAsset' and _periodic_reached(spec['base'])


def run_impl(case):
    """runs the real code.  Returns dict with
       target: {'ctor_error' | 'costs': {'c' | 'error'}, 'full': {'c', 'nl' | 'error'}}, the recorded windows, and
       samples: {'costs': {'samples' | 'error'}, 'full': [{'c'} | {'error'}]}"""
    scn = case['scn']
    g = scn['grid']
    out = {'wins': {}, 'objs': {}}
    try:
        tg0 = scen.make_grid(g)
        out['T'] = int(tg0.T)
    except Exception as e:
        out['grid_error'] = err_class(e)
        return out
    prices = _np(scn['prices'])
    src = case.get('src')
    tname = case.get('target')

    def fresh_nodes():
        return scen.make_nodes(scn['nodes'])

    if tname is not None:
        k = [i for i, s in enumerate(scn['assets']) if s['name'] == tname][0]
        spec = scn['assets'][k]
        tr = {}
        out['target'] = tr
        try:
            with Quiet():
                obj = build_obj(spec, fresh_nodes(), src=src)
        except CtorError as e:
            if e.path == ():
                tr['ctor_error'] = e.cls
                tr['error_text'] = str(e)
            else:
                tr['inner_ctor_error'] = e.cls
            obj = None
        if obj is not None:
            for path, s, o in walk(spec, obj):
                out['objs'][(k,) + path] = o
            with Quiet(), WindowRecorder([(k, spec, obj)]) as rec:
                try:
                    c = obj.setup_optim_problem(copy.deepcopy(prices), scen.make_grid(g), costs_only=True)
                    if not isinstance(c, np.ndarray):
                        tr['costs'] = {'error': 'not-a-vector:' + type(c).__name__}
                    else:
                        tr['costs'] = {'c': _vec(c)}
                except Exception as e:
                    tr['costs'] = {'error': err_class(e), 'text': '%s: %s' % (type(e).__name__, str(e)[:160])}
            out['wins'].update(rec.win)
            # the full set-up on fresh objects
            try:
                with Quiet():
                    obj2 = build_obj(spec, fresh_nodes(), src=src)
                    with WindowRecorder([(k, spec, obj2)]) as rec2:
                        op = obj2.setup_optim_problem(copy.deepcopy(prices), scen.make_grid(g))
                    tr['full'] = {'c': _vec(op.c), 'nl': int(len(op.l))}
            except Exception as e:
                tr['full'] = {'error': err_class(e), 'text': '%s: %s' % (type(e).__name__, str(e)[:160])}
    if case.get('samples') is not None:
        sr = {}
        out['samples'] = sr
        try:
            with Quiet():
                pnodes = fresh_nodes()
                objs = [build_obj(s, pnodes, src=src) for s in scn['assets']]
        except CtorError as e:
            sr['ctor_error'] = e.cls
            return out
        for k, (s, o) in enumerate(zip(scn['assets'], objs)):
            for path, s2, o2 in walk(s, o):
                out['objs'].setdefault((k,) + path, o2)
        portf = Portfolio(objs)
        samples = [_np(ps) for ps in case['samples']]
        with Quiet(), WindowRecorder([(k, s, o) for k, (s, o) in enumerate(zip(scn['assets'], objs))]) as rec:
            try:
                cs = portf.create_cost_samples(price_samples=copy.deepcopy(samples), timegrid=scen.make_grid(g))
                sr['costs'] = {'samples': [_vec(c) for c in cs]}
            except Exception as e:
                sr['costs'] = {'error': err_class(e), 'text': '%s: %s' % (type(e).__name__, str(e)[:160])}
        for kk, w in rec.win.items():
            out['wins'].setdefault(kk, w)
        sr['full'] = []
        for ps in samples:
            try:
                with Quiet():
                    op = portf.setup_optim_problem(copy.deepcopy(ps), scen.make_grid(g))
                sr['full'].append({'c': _vec(op.c), 'n': int(len(op.l))})
            except Exception as e:
                sr['full'].append({'error': err_class(e), 'text': '%s: %s' % (type(e).__name__, str(e)[:160])})
    return out


# ------------------------------------------------------------------------------------------ requests
def request(case, ir, drv=None):
    """{'target': request | None, 'samples': request | None}; raises Unmodelled"""
    scn = case['scn']
    ctx = {'g': scn['grid'], 'prices': scn['prices'], 'T': ir['T'], 'wins': ir['wins'], 'objs': ir['objs'], 'src': case.get('src')}
    out = {'target': None, 'samples': None}
    if case.get('target') is not None and 'target' in ir and 'inner_ctor_error' not in ir['target']:
        k = [i for i, s in enumerate(scn['assets']) if s['name'] == case['target']][0]
        out['target'] = {'op': 'costs_only', 'spec': model_spec(scn['assets'][k], ctx, (k,)), 'prices': prices_json(scn['prices']), 'full': True}
    if case.get('samples') is not None and 'samples' in ir and 'ctor_error' not in ir['samples']:
        out['samples'] = {'op': 'cost_samples', 'specs': [model_spec(s, ctx, (k,)) for k, s in enumerate(scn['assets'])],
                          'samples': [prices_json(ps) for ps in case['samples']], 'gridI': list(range(ir['T'])), 'skip': [], 'full': True}
    if drv is not None:
        resolve_labels(out, drv)
    return out


# ------------------------------------------------------------------------------------------ comparison
def _small(s):
    f = Fraction(s)
    d = f.denominator
    return (d & (d - 1)) == 0 and d <= 64 and abs(f.numerator) < 4096


def _rats(j, skip=('pts', 'idx', 'Dt', 'start', 'stop', 'name', 'nodes', 'price', 'costs_key', 'key', 'labels', 'gridI', 'minor', 'node',
                   'asset1', 'asset2', 'var1', 'var2', 'node1', 'node2', 'kind', 'ext', 'node0')):
    if isinstance(j, str):
        try:
            Fraction(j)
            yield j
        except Exception:
            return
    elif isinstance(j, dict):
        for k, v in j.items():
            if k in skip:
                continue
            yield from _rats(v)
    elif isinstance(j, list):
        for v in j:
            yield from _rats(v)


def _has_kind(js, kinds):
    if isinstance(js, dict):
        if js.get('kind') in kinds:
            return True
        return any(_has_kind(v, kinds) for v in js.values())
    if isinstance(js, list):
        return any(_has_kind(v, kinds) for v in js)
    return False


def _dfs(js):
    if isinstance(js, dict):
        for k, v in js.items():
            if k == 'df':
                yield from v
            else:
                yield from _dfs(v)
    elif isinstance(js, list):
        for v in js:
            yield from _dfs(v)


def is_exact(req):
    """every intermediate value of the implementation exactly representable: dyadic small inputs, no discounting, no mean
    over the minor steps of a coarse step, no converted ramp profile"""
    if _has_kind(req, ('coarse_simple', 'coarse_transport')):
        return False
    if not all(_small(s) for s in _rats(req)):
        return False
    return all(Fraction(v) == 1 for v in _dfs(req))


def _cmp_cost(tag, impl, model, tol):
    """impl: {'c'} | {'error'};  model: {'c'} | {'error'}"""
    out = []
    if 'error' in impl or 'error' in model:
        ie, me = impl.get('error'), model.get('error')
        if me == 'nan' and ie is None and any(v is None for v in impl.get('c', [])):
            return out        # the code returns a vector holding NaN: answered with `nan` by the model
        if ie is None or me is None or ie not in ERR_MAP.get(me, {me}):
            out.append('%s: error class %r (model) vs %r (impl) %s' % (tag, me, ie, impl.get('text', '')))
        return out
    if any(v is None for v in impl['c']):
        out.append('%s: the implementation returns a vector holding NaN, the model %d numbers' % (tag, len(model['c'])))
        return out
    d = cmp_vec(tag, model['c'], impl['c'], tol)
    if d:
        out.append(d)
    return out


def compare(case, ir, mr, req=None):
    """list of disagreement strings.  mr = {'target': driver answer | None, 'samples': driver answer | None}"""
    out = []
    if 'grid_error' in ir:
        return out
    for part in ('target', 'samples'):
        m = mr.get(part)
        if m is None:
            continue
        if 'err' in m:
            out.append('%s: driver rejected the request: %s' % (part, m['err']))
            continue
        m = m['ok']
        tol = 0 if (req is not None and req.get(part) is not None and is_exact(req[part])) else TOL
        tagx = '[%s]' % ('exact' if tol == 0 else 'tol')
        if part == 'target':
            tr = ir['target']
            if 'ctor_error' in tr:
                me = m.get('error')
                if me is None or tr['ctor_error'] not in ERR_MAP.get(me, {me}):
                    out.append('target: constructor raises %s, model cost-only answers %r' % (tr['ctor_error'], me or 'a vector'))
                continue
            out += [tagx + ' ' + x for x in _cmp_cost('costs_only', tr['costs'], m, tol)]
            # the full set-up (model of the builder, checked in its own correspondence as well): c and number of bounds
            fi, fm = tr.get('full'), m.get('full')
            if fi is not None and fm is not None and case['stream'] != 'linked':
                out += [tagx + ' ' + x for x in _cmp_cost('full.c', fi, fm, tol)]
                if 'nl' in fi and 'nl' in fm and fi['nl'] != fm['nl']:
                    out.append('full: %d bounds (model) vs %d (impl)' % (fm['nl'], fi['nl']))
            elif fi is not None and fm is not None and 'c' in fi and 'c' in fm:
                out += [tagx + ' ' + x for x in _cmp_cost('full.c', fi, fm, tol)]
        else:
            sr = ir['samples']
            ci = sr['costs']
            if 'error' in ci or 'error' in m:
                ie, me = ci.get('error'), m.get('error')
                if ie is None or me is None or ie not in ERR_MAP.get(me, {me}):
                    if not (me == 'nan' and ie is None):
                        out.append('cost_samples: error class %r (model) vs %r (impl) %s' % (me, ie, ci.get('text', '')))
            else:
                if len(ci['samples']) != len(m['samples']):
                    out.append('cost_samples: %d vectors (model) vs %d (impl)' % (len(m['samples']), len(ci['samples'])))
                for i, (a, b) in enumerate(zip(m['samples'], ci['samples'])):
                    out += [tagx + ' ' + x for x in _cmp_cost('cost_samples[%d]' % i, {'c': b}, {'c': a}, tol)]
            linked = _has_kind(req.get('samples') if req else None, ('linked',))
            for i, (fi, fm) in enumerate(zip(sr.get('full', []), m.get('problems', []))):
                if linked and ('error' in fi or 'error' in fm):
                    continue      # the linking loop (errors of the full set-up of a linked asset) has its own correspondence
                out += [tagx + ' ' + x for x in _cmp_cost('problem[%d].c' % i, fi, fm, tol)]
            # the executable side of `cost_samples_fit`
            if 'samples' in ci and 'samples' in m and sr.get('full') and 'c' in sr['full'][0]:
                fit_impl = all(len(c) == len(sr['full'][0]['c']) for c in ci['samples'])
                if bool(m.get('fit')) != fit_impl and 'c' in (m.get('problems') or [{}])[0]:
                    out.append('cost_samples: fit %r (model) vs %r (impl)' % (m.get('fit'), fit_impl))
    return out


# ------------------------------------------------------------------------------------------ oracles (real code only)
def _close(a, b, tol=1e-9):
    fa, fb = Fraction(a), Fraction(b)
    return abs(fa - fb) <= Fraction(tol) * max(1, abs(fa), abs(fb))


def oracle(case, ir):
    """the property's own statement on the real code: the cost-only vector is the cost vector of the separately set-up problem"""
    v = []
    scn = case['scn']
    if 'target' in ir and 'costs' in ir['target'] and 'full' in ir['target']:
        tr = ir['target']
        spec = [s for s in scn['assets'] if s['name'] == case['target']][0]
        co, fu = tr['costs'], tr['full']
        facts = {'periodic': bool(_periodic_reached(spec)), 'type': spec['type']}
        if 'c' in fu:
            if 'error' in co:
                v.append({'oracle': 'costs_only_is_cost', 'detail': 'the set-up succeeds but costs_only raises %s' % co.get('text', co['error']),
                          'facts': dict(facts, kind='costs_only_raises')})
            elif len(co['c']) != len(fu['c']):
                v.append({'oracle': 'costs_only_is_cost', 'detail': 'cost-only vector has %d entries, the problem %d variables' % (len(co['c']), len(fu['c'])),
                          'facts': dict(facts, kind='cost_vector_length')})
            elif any(x is None or y is None or not _close(x, y) for x, y in zip(co['c'], fu['c'])):
                v.append({'oracle': 'costs_only_is_cost', 'detail': 'cost-only vector differs from c of the problem',
                          'facts': dict(facts, kind='cost_vector_differs')})
    if 'samples' in ir and 'costs' in ir['samples'] and ir['samples'].get('full'):
        sr = ir['samples']
        ci = sr['costs']
        per = any(_periodic_reached(s) for s in scn['assets'])
        za = slpm.zero_aux_series(scn, case['samples']) or shape_keys(scn)
        if 'samples' in ci:
            n0 = len(sr['full'][0]['c']) if 'c' in sr['full'][0] else None
            for i, (c, fu) in enumerate(zip(ci['samples'], sr['full'])):
                if 'c' not in fu:
                    continue
                if len(c) != len(fu['c']):
                    v.append({'oracle': 'cost_samples', 'detail': 'sample %d: vector of %d entries, problem of the sample has %d variables' % (i, len(c), len(fu['c'])),
                              'facts': {'kind': 'cost_vector_length', 'periodic': per}})
                elif any(x is None or y is None or not _close(x, y) for x, y in zip(c, fu['c'])):
                    v.append({'oracle': 'cost_samples', 'detail': 'sample %d: vector differs from c of the problem of the sample' % i,
                              'facts': {'kind': 'cost_samples_differ', 'periodic': per}})
                elif n0 is not None and len(c) != n0:
                    v.append({'oracle': 'cost_samples', 'detail': 'sample %d has %d entries, the problem of the first sample %d variables' % (i, len(c), n0),
                              'facts': {'kind': 'zero_aux_series' if za else 'cost_vector_length', 'periodic': per}})
        elif all('c' in fu for fu in sr['full']):
            v.append({'oracle': 'cost_samples', 'detail': 'create_cost_samples raises %s although every sample can be set up' % ci.get('text', ci['error']),
                      'facts': {'kind': 'cost_samples_error', 'periodic': per}})
    return v


def shape_keys(scn):
    """[(asset, parameter, key)]: extra_costs / start_costs given as a key into the price data - whether the series vanishes
    on the asset's window decides the number of variables (one or two per step; start variables or none): finding F-17m"""
    return [(a['name'], par, a['args'][par]) for a in scen.all_asset_specs(scn) for par in ('extra_costs', 'start_costs')
            if isinstance(a.get('args', {}).get(par), str)]


KNOWN = {'F-17e': lambda f: f.get('kind') == 'cost_vector_length' and f.get('periodic'),
         'F-17m': lambda f: f.get('kind') == 'zero_aux_series'}


def known_id(violation):
    for k, pred in KNOWN.items():
        if pred(violation.get('facts', {})):
            return k
    return None


# ------------------------------------------------------------------------------------------ one case, self test
def run_case(case, drv, with_oracle=True):
    rec = {'features': ['stream:' + case['stream']] + list(case.get('features', [])), 'disagreements': [], 'violations': [], 'status': 'ok'}
    ir = run_impl(case)
    if 'grid_error' in ir:
        rec['status'] = 'grid-error'
        return rec
    for part in ('target', 'samples'):
        d = ir.get(part) or {}
        txt = ' '.join(str(x.get('text', '')) for x in [d.get('costs') or {}, d.get('full') if isinstance(d.get('full'), dict) else {}])
        if 'NonExistentTime' in txt or 'AmbiguousTime' in txt:
            rec['status'] = 'pandas-tz-error'
            return rec
    try:
        req = request(case, ir, drv)
    except Unmodelled as e:
        rec['status'] = 'unmodelled'
        rec['features'].append('unmodelled:' + str(e)[:40])
        if with_oracle:
            rec['violations'] = oracle(case, ir)
        return rec
    mr = {k: (drv.ask(r) if r is not None else None) for k, r in req.items()}
    rec['disagreements'] = compare(case, ir, mr, req)
    rec['exact'] = any(r is not None and is_exact(r) for r in req.values())
    if with_oracle:
        rec['violations'] = oracle(case, ir)
    tr = ir.get('target') or {}
    if 'ctor_error' in tr:
        rec['features'].append('ctor-error')
    elif 'costs' in tr:
        rec['features'].append('costs:' + ('error:' + tr['costs']['error'] if 'error' in tr['costs'] else 'ok'))
        if 'full' in tr:
            rec['features'].append('full:' + ('error' if 'error' in tr['full'] else 'ok'))
            if 'error' in tr['full'] and 'c' in tr['costs']:
                rec['features'].append('costs-only-succeeds-where-setup-fails:' + tr['full']['error'])
    if 'samples' in ir and 'costs' in ir['samples']:
        rec['features'].append('samples:' + ('error' if 'error' in ir['samples']['costs'] else 'ok'))
    return rec


def selftest(n, seed, drv, verbose=False, streams=None):
    """n generated cases against a driver (`.ask(req)`); returns counts, disagreements, violations (known ones marked)"""
    rnd = random.Random(seed)
    counts = {'cases': 0, 'compared': 0, 'exact': 0, 'unmodelled': 0, 'skipped': 0, 'harness_errors': 0, 'known_violations': 0,
              'new_violations': 0}
    feats, dis, viol = {}, [], []
    for i in range(n):
        crnd = random.Random(rnd.getrandbits(48))
        try:
            case = gen_case(crnd, stream=None if streams is None else streams[i % len(streams)])
            rec = run_case(case, drv)
        except Exception:
            counts['harness_errors'] += 1
            dis.append({'case': None, 'detail': 'harness error: ' + traceback.format_exc()[-900:]})
            continue
        counts['cases'] += 1
        if rec['status'] == 'ok':
            counts['compared'] += 1
            counts['exact'] += int(bool(rec.get('exact')))
        elif rec['status'] == 'unmodelled':
            counts['unmodelled'] += 1
        else:
            counts['skipped'] += 1
        for f in rec['features'] + ['status:' + rec['status']]:
            feats[f] = feats.get(f, 0) + 1
        for d in rec['disagreements']:
            dis.append({'case': case, 'detail': d})
            if verbose:
                print('DISAGREE', case['stream'], d)
        for v in rec['violations']:
            k = known_id(v)
            v = dict(v, known=k, stream=case['stream'])
            counts['known_violations' if k else 'new_violations'] += 1
            viol.append(v if k else dict(v, case=case))
            if verbose and not k:
                print('VIOLATION', case['stream'], v['oracle'], v['detail'])
    return {'counts': counts, 'disagreements': dis, 'violations': viol, 'features': dict(sorted(feats.items()))}


class ScratchDriver:
    """development driver: interprets a scratch Main.lean (before the handler is linked into eaodrv)"""

    def __init__(self, main='/tmp/pkg-costsonly/Main.lean'):
        import subprocess
        import json as _json
        from ..lean import LEAN_DIR
        self._json = _json
        self.p = subprocess.Popen(['lake', 'env', 'lean', '--run', main], cwd=LEAN_DIR, stdin=subprocess.PIPE,
                                  stdout=subprocess.PIPE, text=True, bufsize=1)

    def ask(self, req):
        self.p.stdin.write(self._json.dumps(req) + '\n')
        self.p.stdin.flush()
        line = self.p.stdout.readline()
        if not line:
            raise RuntimeError('driver died')
        return self._json.loads(line)

    def close(self):
        try:
            self.p.stdin.close()
            self.p.wait(timeout=5)
        except Exception:
            self.p.kill()


if __name__ == '__main__':
    import sys
    import json
    n = int(sys.argv[1]) if len(sys.argv) > 1 else 100
    seed = int(sys.argv[2]) if len(sys.argv) > 2 else 0
    streams = sys.argv[3].split(',') if len(sys.argv) > 3 and not sys.argv[3].startswith('-') else None
    drv = ScratchDriver()
    try:
        r = selftest(n, seed, drv, verbose=True, streams=streams)
    finally:
        drv.close()
    print(json.dumps(r['counts']))
    print('disagreements', len(r['disagreements']))
    for d in r['disagreements'][:6]:
        print('--', d['detail'])
        print('   ', json.dumps(d['case'], default=str)[:1800])
    for v in [x for x in r['violations'] if not x.get('known')][:6]:
        print('**', v['oracle'], v['detail'], v.get('facts'))
        print('   ', json.dumps(v.get('case'), default=str)[:1500])
    if '-f' in sys.argv:
        print(json.dumps(r['features'], indent=0))
