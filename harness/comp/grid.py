"""Component `grid`: Timegrid construction / restriction / coarse grids, values_to_grid, prep_date_dict,
prices_to_grid (gridded pass-through) of eaopack.basic_classes  — property C19.

  gen_case(rnd)                 seeded generator (JSON-serialisable case)
  run_impl(case)                runs the real eaopack code           -> impl result (dict; real objects under '_obj')
  request(case)                 first driver request of the case (the grid construction)
  run_model(case, drv, ir)      full chain of driver requests       -> model result (dict)
  compare(case, ir, mr)         list of disagreement strings
  oracle(case, ir)              C19 statements evaluated on the real objects -> list of violation dicts
  selftest(n, seed, drv)        n cases against a driver

Instants are integer seconds since the epoch (UTC; naive times are taken as if UTC).  Localisation of naive
dates and the generation of calendar points / cuts is done here with pandas (trusted base), exactly the way the
implementation calls pandas; if such a pandas call raises, the case is classed `pandas-error`, the implementation
must raise the same class and the model is not asked.

Coarse grids: a pair of coarse cuts that holds no point of the reference grid (the window reaches beyond the reference grid)
is SKIPPED by code and model alike: the coarse steps are the non-empty intervals (placements `beyond_*`, `before`, `after`,
`straddle_*` of the coarse stream).  A `ValueError: zero-size array` from the coarse branch is reported as kind
`coarse_empty_raises` (that part of finding F-19b is repaired; it is not covered by the known finding any more).  An EMPTY
coarse grid (no pair of cuts holds a reference point) has an empty array of time points of the reference's type, so interval
data on it gives the empty array (finding F-19e, repaired).

Lost fine steps of a coarse grid are classified against the window's OWN raster (`own_raster`: start + j*freq up to the window
end, computed from the window alone): inside [first cut, last cut) -> kind `coarse_interval_lost` (statement coarse_partition;
with no reference point after the last cut: coarse_partition_clipped - stream `cclip`, windows outliving a reference grid whose
end is off the raster); before the first / at or after the last cut -> kind `coarse_remainder` (known finding F-19b).

Stream `vcar` (`gen_carrier_case`, `carry`): the limits of interval data in every container and time resolution (numpy
datetime64 [D]..[ns] arrays and scalars, lists of datetime / date / Timestamp / datetime64 / str, DatetimeIndex and Timestamps
of resolution s/ms/us/ns, object arrays; start and end carried differently).  Model and oracle work on the instants of the case
(`mk` of the date specs), the containers are built by `carry` with explicit conversions.
"""
import datetime as dtm
import json
import math
import os
import random
import subprocess
import sys
import warnings
from fractions import Fraction

import numpy as np
import pandas as pd

if os.environ.get('EAO_REPO', '/repo') not in sys.path:
    sys.path.insert(0, os.environ.get('EAO_REPO', '/repo'))
from eaopack.basic_classes import Timegrid  # noqa: E402

try:
    from ..lean import fs
except Exception:  # pragma: no cover
    def fs(x):
        f = x if isinstance(x, Fraction) else Fraction(float(x))
        return str(f.numerator) if f.denominator == 1 else '%d/%d' % (f.numerator, f.denominator)

ID = 'C19'
NAME = 'grid'
UNIT = {'h': 3600, 'd': 86400, 'min': 60, 's': 1}
TICK = {'h': 3600, '60min': 3600, '15min': 900, '30min': 1800, '45min': 2700, '2h': 7200, '3h': 10800, '4h': 14400,
        '6h': 21600, '8h': 28800, '12h': 43200, 'd': 86400, '2d': 172800}
DAYLIKE = ('d', '2d')
ZONES = [None, 'CET', 'Europe/Berlin', 'US/Eastern', 'UTC']
DST_DATES = {'CET': ['2021-03-27', '2021-10-30', '2021-03-28', '2021-10-31'],
             'Europe/Berlin': ['2021-03-27', '2021-10-30', '2021-03-28', '2021-10-31'],
             'US/Eastern': ['2021-03-13', '2021-11-06', '2021-03-14', '2021-11-07'],
             'UTC': ['2021-03-27', '2021-10-30'], None: ['2021-03-27', '2021-10-30']}
PLAIN_DATES = ['2021-01-01', '2021-01-03', '2021-01-06', '2021-01-15', '2021-02-27', '2020-12-30', '2021-06-01']


def is_tick(freq, tz):
    return freq in TICK and (freq not in DAYLIKE or tz in (None, 'UTC'))


# ------------------------------------------------------------------------------------------ dates
def dspec(ts, form):
    """date spec from a Timestamp.  form: 'datetime' (naive datetime.datetime), 'timestamp' (naive pd.Timestamp),
    'aware' (pd.Timestamp in its own zone)"""
    if ts is None:
        return None
    if form == 'aware':
        return {'iso': ts.tz_localize(None).isoformat(), 'tz': str(ts.tz), 'utc': ts.tz_convert('UTC').tz_localize(None).isoformat(), 'as': 'aware'}
    if ts.tzinfo is not None:
        ts = ts.tz_localize(None)
    return {'iso': ts.isoformat(), 'tz': None, 'as': form}


def mk(d):
    """python object of a date spec"""
    if d is None:
        return None
    if d['as'] == 'aware':
        return pd.Timestamp(d['utc'], tz='UTC').tz_convert(d['tz'])
    if d['as'] == 'datetime':
        return dtm.datetime.fromisoformat(d['iso'])
    if d['as'] == 'np':
        return np.datetime64(d['iso'], 'ns')
    return pd.Timestamp(d['iso'])


def fl(ts):
    """floor to whole seconds (through UTC: flooring an ambiguous local time raises in pandas)"""
    ts = pd.Timestamp(ts)
    if ts.tzinfo is None:
        return ts.floor('s')
    return ts.tz_convert('UTC').floor('s').tz_convert(ts.tz)


def sec(ts):
    return int(pd.Timestamp(ts).value // 10 ** 9)


def csec(ts):
    """smallest whole second >= ts (grid points are whole seconds: p < ts <=> p < csec(ts))"""
    return int(-((-int(pd.Timestamp(ts).value)) // 10 ** 9))


def loc_ctor(x, tz):
    """localisation as in Timegrid.__init__: pd.Timestamp(naive, tz=tz)"""
    ts = pd.Timestamp(x)
    if ts.tzinfo is None:
        ts = pd.Timestamp(ts, tz=tz)
    return ts


def loc_tzl(x, tz):
    """localisation as in values_to_grid / prep_date_dict: tz_localize"""
    ts = pd.Timestamp(x)
    if ts.tzinfo is None and tz is not None:
        ts = ts.tz_localize(tz)
    return ts


def err_class(e):
    if isinstance(e, AssertionError):
        return 'assert'
    if isinstance(e, IndexError):
        return 'index'
    if isinstance(e, ValueError):   # includes pytz/pandas NonExistentTimeError? (no: those are separate) OutOfBounds is ValueError
        return 'value'
    if isinstance(e, TypeError):
        return 'type'
    return type(e).__name__


def freq_ns(f):
    try:
        return int(pd.Timedelta(1, f).value)
    except Exception:
        return int(pd.Timedelta(f).value)


# ------------------------------------------------------------------------------------------ generator
def _valid_local(ts, tz):
    if tz is None:
        return True
    try:
        a = ts.tz_localize(tz)
        return a.tz_localize(None) == ts
    except Exception:
        return False


def gen_grid(rnd, small=False):
    tz = rnd.choice(ZONES)
    freq = rnd.choice(['h', 'h', 'h', '15min', '30min', '2h', '4h', 'd', 'd', 'MS', 'W'])
    unit = rnd.choice(['h', 'h', 'h', 'd', 'min', 's'])
    if rnd.random() < 0.55:
        day = rnd.choice(DST_DATES[tz])
    else:
        day = rnd.choice(PLAIN_DATES)
    start = pd.Timestamp(day)
    if freq == 'MS':
        if rnd.random() < 0.5:
            start = start.replace(day=1)
        n = rnd.randint(1, 4)
        end = start + pd.DateOffset(months=n)
        if rnd.random() < 0.3:
            end = end + pd.Timedelta(days=rnd.randint(1, 20))
    elif freq == 'W':
        if rnd.random() < 0.5:
            start = start - pd.Timedelta(days=(start.weekday() + 1) % 7)   # a Sunday
        n = rnd.randint(1, 5)
        end = start + pd.Timedelta(days=7 * n)
        if rnd.random() < 0.3:
            end = end + pd.Timedelta(days=rnd.randint(1, 6))
    else:
        step = pd.Timedelta(seconds=TICK[freq])
        if freq == 'd':
            if rnd.random() < 0.25:
                start = start + pd.Timedelta(hours=rnd.choice([6, 12, 2]))
            n = rnd.randint(1, 8)
        else:
            off = rnd.choice([0, 0, 0, 6, 20, 23, 1, 2, 3])
            start = start + pd.Timedelta(hours=off)
            if TICK[freq] < 3600 and rnd.random() < 0.3:
                start = start + pd.Timedelta(minutes=rnd.choice([15, 30, 45]))
            n = rnd.randint(1, 12 if small else 40)
        end = start + n * step
        if rnd.random() < 0.25:
            end = end + pd.Timedelta(seconds=int(TICK[freq] * rnd.choice([0.25, 0.5, 0.75])))
    malformed = None
    r = rnd.random()
    if r < 0.03:
        end = start                         # assert start < end
        malformed = 'start=end'
    elif r < 0.05:
        start, end = end, start
        malformed = 'start>end'
    elif r < 0.07 and tz in ('CET', 'Europe/Berlin'):
        start = pd.Timestamp('2021-03-28 02:30')    # does not exist
        end = start + pd.Timedelta(hours=5)
        malformed = 'nonexistent'
    else:
        for _ in range(8):
            if _valid_local(start, tz):
                break
            start = start + pd.Timedelta(hours=1)
        for _ in range(8):
            if _valid_local(end, tz):
                break
            end = end + pd.Timedelta(hours=1)
    form = rnd.choice(['datetime', 'datetime', 'timestamp', 'aware']) if tz is not None else rnd.choice(['datetime', 'timestamp'])
    if form == 'aware':
        try:
            sd, ed = dspec(start.tz_localize(tz), 'aware'), dspec(end.tz_localize(tz), 'aware')
        except Exception:
            sd, ed = dspec(start, 'datetime'), dspec(end, 'datetime')
    else:
        sd, ed = dspec(start, form), dspec(end, form)
    wacc = rnd.choice([None, None, 0.0, 0.05, 0.1])
    return {'start': sd, 'end': ed, 'freq': freq, 'unit': unit, 'tz': tz, 'wacc': wacc, 'malformed': malformed}


def _grid_points(g):
    """all points incl. the closing one, as the constructor calls pandas (None if pandas raises)"""
    try:
        s, e = loc_ctor(mk(g['start']), g['tz']), loc_ctor(mk(g['end']), g['tz'])
        with warnings.catch_warnings():
            warnings.simplefilter('ignore')
            return s, e, pd.date_range(start=s, end=e, freq=g['freq'], tz=g['tz'])
    except Exception:
        return None, None, None


PLACEMENTS = ['inside', 'inside', 'equal', 'before', 'after', 'straddle_start', 'straddle_end', 'straddle_both',
              'empty', 'reversed', 'offgrid', 'offgrid', 'none_start', 'none_end', 'none_both', 'prefix', 'suffix']


def gen_window(rnd, g, S, E, allp, placement=None, coarse_step=None):
    """restriction window from the placement table; returns dict {s, e, placement} of date specs"""
    tz = g['tz']
    pl = placement or rnd.choice(PLACEMENTS)
    pts = list(allp)
    if len(pts) < 2:
        pts = [S, E]
    span = E - S
    step = pts[1] - pts[0]
    T = len(pts) - 1
    k = coarse_step if coarse_step is not None else step

    def pick2():
        i = rnd.randint(0, T - 1)
        j = rnd.randint(i + 1, T)
        return pts[i], pts[j]
    if pl == 'inside':
        s, e = pick2()
    elif pl == 'equal':
        s, e = S, E
    elif pl == 'before':
        s, e = S - 3 * k, S - k
    elif pl == 'after':
        s, e = E, E + 2 * k
    elif pl == 'straddle_start':
        s, e = S - k * rnd.randint(1, 2), pts[rnd.randint(1, T)]
    elif pl == 'straddle_end':
        s, e = pts[rnd.randint(0, T - 1)], E + k * rnd.randint(1, 2)
    elif pl == 'straddle_both':
        s, e = S - k, E + k
    elif pl == 'empty':
        s = pts[rnd.randint(0, T)]
        e = s
    elif pl == 'reversed':
        e, s = pick2()
    elif pl == 'offgrid':
        s, e = pick2()
        s = s + step * rnd.choice([0.25, 0.5, 0]) if rnd.random() < 0.8 else s
        e = e - step * rnd.choice([0.25, 0.5]) if rnd.random() < 0.6 else e + step * 0.5
    elif pl == 'prefix':
        s, e = S, pts[rnd.randint(1, T)]
    elif pl == 'suffix':
        s, e = pts[rnd.randint(0, T - 1)], E
    else:
        s, e = pick2()
    s, e = fl(s), fl(e)
    form = rnd.choice(['naive', 'naive', 'aware', 'utc']) if tz is not None else 'naive'

    def spec(ts):
        if tz is None:
            return dspec(ts, rnd.choice(['datetime', 'timestamp']))
        if form == 'naive':
            n = ts.tz_localize(None)
            if _valid_local(n, tz) and n.tz_localize(tz) == ts:
                return dspec(n, rnd.choice(['datetime', 'timestamp']))
            return dspec(ts, 'aware')
        if form == 'utc':
            return dspec(ts.tz_convert('UTC'), 'aware')
        return dspec(ts, 'aware')
    w = {'s': spec(s), 'e': spec(e), 'placement': pl}
    if pl in ('none_start', 'none_both'):
        w['s'] = None
    if pl in ('none_end', 'none_both'):
        w['e'] = None
    return w


COARSE_OF = {  # fine -> candidates (whole multiples, equal length, NOT whole multiples, finer (assert), anchored / calendar)
    '15min': ['h', 'h', '30min', '2h', '45min', 'd', '15min', '4h'],
    '30min': ['h', 'h', '2h', '45min', '15min', 'd', '60min', '4h', '3h'],
    'h': ['2h', '4h', 'd', 'd', '60min', '3h', '30min', 'W', '6h', 'MS', '2d', '8h', '12h', 'h', '2h', '4h', 'd'],
    '2h': ['4h', '3h', 'd', '6h', 'h', '8h', '12h', 'd', '4h'],
    '4h': ['8h', '6h', 'd', '12h', 'W', '2h', 'd', '8h'],
    'd': ['2d', 'W', '12h', 'MS', 'd', '2d', 'W'],
    'W': ['d', 'W', 'W'], 'MS': ['d', 'W', 'MS', 'MS'],
}


def q8(rnd, lo=-40, hi=160):
    return rnd.randint(lo, hi) / 8.0


def _interval_times(rnd, S, pts):
    """interval limits (Timestamps, whole seconds) relative to the points `pts`: (starts, ends, style)"""
    pts = list(pts)
    if len(pts) == 0:
        pts = [S]
    step = (pts[1] - pts[0]) if len(pts) > 1 else pd.Timedelta(hours=1)
    lo, hi = pts[0] - 2 * step, pts[-1] + 3 * step
    style = rnd.choice(['partition', 'partition', 'gaps', 'overlap', 'invisible', 'random', 'single', 'outside', 'unsorted', 'reversed'])
    n = 1 if style == 'single' else rnd.randint(1, 5)
    span_s = max(int((hi - lo).total_seconds()), 1)

    def rt(grid_aligned=True):
        if grid_aligned and rnd.random() < 0.7:
            return pts[rnd.randrange(len(pts))] + step * rnd.choice([0, 0, 0, 1, -1])
        return fl(lo + pd.Timedelta(seconds=60 * (rnd.randrange(span_s) // 60)))
    cuts = sorted(rt() for _ in range(n + 1))
    starts, ends = [], []
    if style in ('partition', 'single'):
        starts, ends = cuts[:-1], cuts[1:]
    elif style == 'gaps':
        for a, b in zip(cuts[:-1], cuts[1:]):
            starts.append(a)
            ends.append(a + (b - a) * rnd.choice([0.5, 0.75, 1]))
    elif style == 'overlap':
        for a, b in zip(cuts[:-1], cuts[1:]):
            starts.append(a)
            ends.append(b + step * rnd.choice([0, 1, 2]))
    elif style == 'invisible':     # overlap smaller than a step, between grid points
        for a, b in zip(cuts[:-1], cuts[1:]):
            starts.append(a + step * 0.25)
            ends.append(b + step * 0.5)
    elif style == 'outside':
        starts = [lo - step * (3 + i) for i in range(n)][::-1]
        ends = [s + step for s in starts]
    elif style == 'reversed':
        starts, ends = cuts[1:], cuts[:-1]
    else:
        for _ in range(n):
            a, b = rt(), rt()
            starts.append(min(a, b))
            ends.append(max(a, b))
        if style == 'unsorted':
            z = list(zip(starts, ends))
            rnd.shuffle(z)
            starts, ends = [a for a, _ in z], [b for _, b in z]
    starts = [fl(s) for s in starts]
    ends = [fl(e) for e in ends]
    return starts, ends, style


def gen_intervals(rnd, g, S, E, pts):
    """interval data relative to the points `pts` (aware/naive Timestamps of the grid the data is applied to)"""
    tz = g['tz']
    starts, ends, style = _interval_times(rnd, S, pts)
    with_end = rnd.random() < 0.55
    # how the dates are given
    if tz is None:
        dform = rnd.choice(['datetime', 'timestamp', 'np', 'aware_bad'] if rnd.random() < 0.05 else ['datetime', 'timestamp', 'np'])
    else:
        dform = rnd.choice(['naive', 'naive', 'aware', 'utc', 'np'])

    def spec(ts):
        if tz is None:
            if dform == 'aware_bad':
                return dspec(ts.tz_localize('UTC'), 'aware')
            return dspec(ts, dform)
        if dform in ('naive', 'np'):
            n_ = ts.tz_localize(None)
            for _ in range(4):
                if _valid_local(n_, tz):
                    break
                n_ = n_ + pd.Timedelta(hours=1)
            return dspec(n_, rnd.choice(['datetime', 'timestamp']) if dform == 'naive' else 'np')
        if dform == 'utc':
            return dspec(ts.tz_convert('UTC'), 'aware')
        return dspec(ts, 'aware')
    sd = [spec(s) for s in starts]
    ed = [spec(e) for e in ends] if with_end else None
    values = [q8(rnd) for _ in starts]
    container = rnd.choice(['list', 'list', 'index', 'array'])
    if len(sd) == 1 and rnd.random() < 0.5:
        container = 'scalar'
    vform = rnd.choice(['list', 'list', 'array', 'scalar'] if len(values) == 1 else ['list', 'list', 'array'])
    r = rnd.random()
    mism = None
    if r < 0.05 and len(values) > 1:
        values = values[:-1]
        mism = 'values-short'
    elif r < 0.08 and ed and len(ed) > 1:
        ed = ed[:-1]
        mism = 'end-short'
    elif r < 0.10 and len(values) > 1:
        vform, values, mism = 'scalar', values[:1], 'values-scalar'
    prep = (container == 'list') and rnd.random() < 0.15
    return {'start': sd, 'end': ed, 'values': values, 'container': container, 'vform': vform, 'style': style,
            'dform': dform, 'mismatch': mism, 'prep': prep}


def gen_case(rnd, kind=None, small=False):
    kind = kind or rnd.choice(['grid', 'restrict', 'restrict', 'restrict2', 'coarse', 'coarse', 'coarse', 'coarse_r', 'values', 'values', 'values', 'values_r', 'values_c', 'prices'])
    g = gen_grid(rnd, small=small)
    if kind != 'grid':
        if kind in ('coarse', 'coarse_r', 'values_c') and g['freq'] in ('MS',) and rnd.random() < 0.7:
            g['freq'] = 'h'
            g = _shorten(g)
        if rnd.random() < 0.8:
            g['malformed'] and g.update(gen_grid(rnd, small=small))
    case = {'kind': kind, 'grid': g}
    S, E, allp = _grid_points(g)
    if allp is None or len(allp) < 2 or g['malformed']:
        case['kind'] = 'grid'
        return case
    tz = g['tz']
    if kind in ('restrict', 'restrict2', 'coarse_r', 'values_r'):
        case['window'] = gen_window(rnd, g, S, E, allp)
    if kind == 'restrict2':
        case['window2'] = gen_window(rnd, g, S, E, allp)
    if kind in ('coarse', 'coarse_r', 'values_c'):
        cf = rnd.choice(COARSE_OF.get(g['freq'], ['d']))
        case['cfreq'] = cf
        try:
            k = pd.Timedelta(nanoseconds=max(freq_ns(cf), 10 ** 9))
        except Exception:
            k = pd.Timedelta(days=1)
        if k < pd.Timedelta(seconds=1) or cf == 'MS':
            k = pd.Timedelta(days=30)
        # window placements for the coarse grid: aligned whole multiples, remainders, outside the grid
        pl = rnd.choice(['whole'] * 6 + ['remainder'] * 4 + ['none_both'] * 4 + ['equal', 'equal', 'inside', 'inside', 'offgrid', 'offgrid',
                         'straddle_end', 'straddle_start', 'straddle_both', 'empty', 'after', 'before', 'prefix', 'suffix']
                        + ['beyond_start'] * 3 + ['beyond_end'] * 3 + ['beyond_both'] * 3)
        if pl.startswith('beyond'):
            w = gen_beyond_window(rnd, pl, S, E, allp, k, tz)
        elif pl in ('whole', 'remainder'):
            T = len(allp) - 1
            i = rnd.randint(0, max(0, T - 1))
            s = allp[i]
            room = (E - s) / k
            m = rnd.randint(1, max(1, int(room)))
            e = s + m * k
            if pl == 'remainder':
                e = e + k * rnd.choice([0.25, 0.5, 0.75])
            e = min(e, E) if rnd.random() < 0.8 else e
            w = {'s': _wspec(rnd, s, tz), 'e': _wspec(rnd, fl(e), tz), 'placement': pl}
        else:
            w = gen_window(rnd, g, S, E, allp, placement=pl, coarse_step=k)
        case['cwindow'] = w
    if kind in ('values', 'values_r', 'values_c'):
        pts = allp[:-1]
        if kind == 'values_r':
            try:
                ws = loc_ctor(mk(case['window']['s']), tz) if case['window']['s'] else S
                we = loc_ctor(mk(case['window']['e']), tz) if case['window']['e'] else E
                pts = pts[(pts >= ws) & (pts < we)]
            except Exception:
                pass
        case['data'] = gen_intervals(rnd, g, S, E, pts)
    if kind == 'prices':
        T = len(allp) - 1
        if rnd.random() < 0.5:
            case['window'] = gen_window(rnd, g, S, E, allp, placement=rnd.choice(['inside', 'prefix', 'suffix', 'equal']))
        case['prices'] = {'n': rnd.randint(1, 3), 'dlen': rnd.choice([0, 0, 0, 0, 0, 1, -1]), 'seed': rnd.getrandbits(30), 'nan': rnd.random() < 0.15}
    return case


def gen_beyond_window(rnd, pl, S, E, allp, k, tz):
    """window of a coarse grid that reaches beyond the reference grid [S, E) at the start, the end or both, by whole coarse
    steps (coarse intervals entirely outside), by a part of one (the interval at the edge is partly outside), or both; the side
    that does not reach beyond lies on a grid point, on a coarse cut counted from the window start (no remainder), or on the
    edge of the reference grid.  k: length of a coarse step (nominal for calendar frequencies)."""
    T = len(allp) - 1

    def out():
        d = k * (rnd.choice([0, 1, 1, 2, 3]) + rnd.choice([0, 0, 0.25, 0.5, 0.75]))
        return d if d > pd.Timedelta(0) else k
    if pl in ('beyond_start', 'beyond_both'):
        s = S - out()
    else:
        s = allp[rnd.randint(0, max(0, T - 1))] if rnd.random() < 0.6 else S
    if pl in ('beyond_end', 'beyond_both'):
        e = E + out()
    else:
        r = rnd.random()
        if r < 0.35:
            e = E
        elif r < 0.75:
            # on one of the window's own coarse cuts inside the reference grid (if there is one)
            m_lo = int((S - s) / k) + 1
            m_hi = int((E - s) / k)
            e = s + rnd.randint(m_lo, m_hi) * k if m_hi >= m_lo else E
        else:
            e = allp[rnd.randint(1, T)]
    return {'s': _wspec(rnd, fl(s), tz), 'e': _wspec(rnd, fl(e), tz), 'placement': pl}


def gen_clip_case(rnd):
    """stream `cclip`: a coarse restricted grid whose window reaches BEYOND THE END of the reference grid (the asset outlives the
    optimisation horizon) while the end of the reference grid lies OFF the window's raster of coarse steps (start + j*freq): the
    last coarse interval that still holds fine steps straddles the end of the horizon.  Varied: fine / coarse frequency (whole
    multiples, days in daylight-saving zones, weeks), zone, where the window starts (on a grid point - so the raster is shifted
    against midnight -, at the grid start, before it), how far it reaches beyond (a part of a coarse step, whole steps, many),
    and with probability 1/4 a horizon end ON the raster (the control).  Optionally interval data on the coarse grid."""
    for _ in range(40):
        g = gen_grid(rnd, small=rnd.random() < 0.6)
        if g['malformed'] or g['freq'] in ('MS', 'W'):
            continue
        S, E, allp = _grid_points(g)
        if allp is None or len(allp) < 3:
            continue
        break
    else:
        return gen_case(rnd, kind='coarse')
    tz = g['tz']
    T = len(allp) - 1
    fine = allp[1] - allp[0]
    cands = [c for c in COARSE_OF[g['freq']] if c not in ('MS', '45min') and freq_ns(c) > freq_ns(g['freq'])]
    want_off = rnd.random() < 0.75
    best = None
    for _ in range(12):
        cf = rnd.choice(cands)
        k = pd.Timedelta(nanoseconds=freq_ns(cf))
        r = rnd.random()
        if r < 0.6:
            s = allp[rnd.randint(0, max(0, min(T - 1, int(k / fine) + 2)))]
        elif r < 0.8:
            s = S
        else:
            s = S - k * rnd.choice([1, 2]) - fine * rnd.choice([0, 1, 2])
        e = E + k * rnd.choice([0, 1, 1, 2, 5]) + k * rnd.choice([0, 0.25, 0.5, 0.75, 1]) + fine * rnd.choice([0, 0, 1])
        if not (e > E):
            e = E + k
        s, e = fl(s), fl(e)
        try:
            cuts = own_raster(s, e, cf, tz)
        except Exception:
            continue
        off = _ns(E) not in set(cuts)
        best = (cf, s, e)
        if off == want_off:
            break
    if best is None:
        return gen_case(rnd, kind='coarse')
    cf, s, e = best
    case = {'kind': 'coarse', 'grid': g, 'cfreq': cf, 'cwindow': {'s': _wspec(rnd, s, tz), 'e': _wspec(rnd, e, tz), 'placement': 'clip_end'},
            'focus': 'coarse_clip'}
    if rnd.random() < 0.3:
        case['kind'] = 'values_c'
        inwin = [p for p in allp[:-1] if s <= p < e]
        case['data'] = gen_intervals(rnd, g, S, E, inwin or [S])
    return case


RES = ['D', 'h', 'm', 's', 'ms', 'us', 'ns']            # numpy datetime64 resolutions, coarse to fine
RES_NS = {'D': 86400 * 10 ** 9, 'h': 3600 * 10 ** 9, 'm': 60 * 10 ** 9, 's': 10 ** 9, 'ms': 10 ** 6, 'us': 10 ** 3, 'ns': 1}
PD_UNITS = ['s', 'ms', 'us', 'ns']                        # resolutions pandas Timestamps / DatetimeIndex can have


def _finer(rnd, res, among=RES):
    """the resolution itself (every second time) or a finer one of `among`"""
    c = [r for r in among if RES_NS[r] <= RES_NS[res]]
    return res if (res in c and rnd.random() < 0.6) else rnd.choice(c)


def gen_carrier(rnd, n, res, aware, with_end, seq_only=False):
    """how a sequence of n instants (all whole multiples of resolution `res` on the wall clock; aware: with zone) is handed over"""
    if aware:
        forms = ['list:timestamp', 'list:timestamp', 'list:datetime', 'index', 'index', 'array:obj']
        if n == 1 and not seq_only:
            forms += ['scalar:timestamp', 'scalar:datetime']
    else:
        forms = ['array:np'] * 5 + ['list:np', 'list:np', 'index', 'index', 'list:datetime', 'list:timestamp', 'array:obj']
        if res == 'D':
            forms += ['list:date', 'list:date']
        if with_end:
            forms += ['list:str']          # (implicit ends need date arithmetic: strings only with explicit ends)
        if n == 1 and not seq_only:
            forms += ['scalar:np', 'scalar:np', 'scalar:timestamp', 'scalar:datetime'] + (['scalar:str'] if with_end else []) + (['scalar:date'] if res == 'D' else [])
    form = rnd.choice(forms)
    c = {'form': form}
    if form.endswith(':np'):
        c['res'] = _finer(rnd, res)
    elif form == 'index' or form.endswith(':timestamp') or form == 'array:obj':
        c['res'] = _finer(rnd, res if res in PD_UNITS else 's', PD_UNITS)
    return c


def carry(specs, c):
    """the python object that carries the instants `specs` (date specs) in the form c.  Conversions are explicit: numpy arrays
    are made from integer counts of the resolution since the epoch, never by parsing or by pandas' inference."""
    ts = [pd.Timestamp(x['utc'], tz='UTC').tz_convert(x['tz']) if x['as'] == 'aware' else pd.Timestamp(x['iso']) for x in specs]
    form, res = c['form'], c.get('res')
    kind, what = form.split(':') if ':' in form else (form, None)

    def one(t):
        if what == 'np':
            wall = _ns(t.tz_localize(None)) if t.tzinfo is not None else _ns(t)
            if wall % RES_NS[res] != 0:
                raise RuntimeError('generator: %s is not a whole number of %s' % (t, res))
            return np.int64(wall // RES_NS[res]).astype('datetime64[%s]' % res)
        if what == 'datetime':
            return t.to_pydatetime()
        if what == 'date':
            if t != t.normalize() or t.tzinfo is not None:
                raise RuntimeError('generator: %s is not a naive date' % t)
            return t.date()
        if what == 'str':
            return t.isoformat()
        return t.as_unit(res) if res else t
    if kind == 'index':
        return pd.DatetimeIndex(ts).as_unit(res)
    if kind == 'scalar':
        return one(ts[0])
    if kind == 'array':
        if what == 'np':
            return np.array([int(one(t).astype('int64')) for t in ts], dtype='int64').astype('datetime64[%s]' % res)
        a = np.empty(len(ts), dtype=object)
        for i, t in enumerate(ts):
            a[i] = t.as_unit(res)
        return a
    return [one(t) for t in ts]


def gen_carrier_case(rnd):
    """stream `vcar`: interval data whose limits are handed over in every container pandas' Timestamp covers - numpy datetime64
    arrays and scalars of ANY resolution ([D] [h] [m] [s] [ms] [us] [ns]), lists of datetime / date / Timestamp / datetime64 /
    ISO strings, DatetimeIndex and Timestamps of non-default resolution, object arrays, start and end in different containers -
    on plain, restricted and coarse grids with and without zone, with explicit and implicit ends.  The limits are whole multiples
    of the resolution drawn (days, hours, ...), so that every container holds exactly the same instants; the expected result is
    computed from the instants, never from the container."""
    for _ in range(40):
        tz = rnd.choice(ZONES)
        freq = rnd.choice(['h', 'h', 'h', '15min', '30min', '2h', '4h', 'd', 'd'])
        unit = rnd.choice(['h', 'h', 'd', 'min'])
        start = pd.Timestamp(rnd.choice(DST_DATES[tz] + PLAIN_DATES))
        if freq == 'd':
            start = start + pd.Timedelta(hours=rnd.choice([0, 0, 0, 6]))
            end = start + pd.Timedelta(days=rnd.randint(2, 9))
        else:
            start = start + pd.Timedelta(hours=rnd.choice([0, 0, 0, 6, 22, 1]))
            nst = min(200, max(2, int(rnd.choice([6, 20, 36, 50, 75, 100, 130]) * 3600 // TICK[freq])))
            end = start + pd.Timedelta(seconds=TICK[freq] * rnd.randint(max(2, nst // 2), nst))
        if _valid_local(start, tz) and _valid_local(end, tz):
            break
    g = {'start': dspec(start, 'datetime'), 'end': dspec(end, 'datetime'), 'freq': freq, 'unit': unit, 'tz': tz,
         'wacc': rnd.choice([None, None, 0.05]), 'malformed': None}
    S, E, allp = _grid_points(g)
    if allp is None or len(allp) < 3:
        return gen_case(rnd, kind='values')
    kind = rnd.choice(['values', 'values', 'values', 'values_r', 'values_c'])
    case = {'kind': kind, 'grid': g, 'focus': 'carrier'}
    pts = allp[:-1]
    if kind == 'values_r':
        case['window'] = gen_window(rnd, g, S, E, allp, placement=rnd.choice(['inside', 'prefix', 'suffix', 'offgrid', 'straddle_end']))
    elif kind == 'values_c':
        cf = rnd.choice([c for c in COARSE_OF[freq] if c not in ('MS', '45min') and freq_ns(c) > freq_ns(freq)])
        case['cfreq'] = cf
        case['cwindow'] = gen_window(rnd, g, S, E, allp, placement=rnd.choice(['none_both', 'equal', 'straddle_both', 'suffix', 'none_end']),
                                     coarse_step=pd.Timedelta(nanoseconds=freq_ns(cf)))
    w = case.get('window') or case.get('cwindow')
    if w is not None:
        try:
            ws = loc_ctor(mk(w['s']), tz) if w['s'] else S
            we = loc_ctor(mk(w['e']), tz) if w['e'] else E
            sub = pts[(pts >= ws) & (pts < we)]
            pts = sub if len(sub) else pts
        except Exception:
            pass
    starts, ends, style = _interval_times(rnd, S, pts)
    with_end = rnd.random() < 0.6
    aware = tz is not None and rnd.random() < 0.25
    res = rnd.choice(['D', 'D', 'D', 'h', 'h', 'm', 's', 's', 'ms', 'us', 'ns'])
    span = E - S
    if res == 'D' and span < pd.Timedelta(days=2):
        res = 'h'
    u = pd.Timedelta(nanoseconds=RES_NS[res])

    def wall(ts):
        """the limit on the wall clock of the grid's zone, moved down to a whole multiple of the resolution (and to a time that
        exists exactly once there)"""
        n_ = ts.tz_localize(None) if ts.tzinfo is not None else ts
        n_ = n_.floor(u) if res not in ('us', 'ns') else n_
        for _ in range(4):
            if _valid_local(n_, tz):
                break
            n_ = n_ + pd.Timedelta(hours=1) if res != 'D' else n_ + pd.Timedelta(days=1)
        return n_
    ws_, we_ = [wall(t) for t in starts], [wall(t) for t in ends]
    if style != 'reversed':    # an interval that was not empty keeps at least one unit of the resolution
        we_ = [b if (b > a or not (e0 > s0)) else wall(a + u) for a, b, s0, e0 in zip(ws_, we_, starts, ends)]
    if aware:
        zone = rnd.choice([tz, 'UTC'])
        sd = [dspec(t.tz_localize(tz).tz_convert(zone), 'aware') for t in ws_]
        ed = [dspec(t.tz_localize(tz).tz_convert(zone), 'aware') for t in we_]
    else:
        sd = [dspec(t, 'timestamp') for t in ws_]
        ed = [dspec(t, 'timestamp') for t in we_]
    n = len(sd)
    cs = gen_carrier(rnd, n, res, aware, with_end)
    scalar = cs['form'].startswith('scalar')
    if rnd.random() < 0.55 and not scalar:
        ce = dict(cs)
    else:
        ce = gen_carrier(rnd, n, res, aware, with_end, seq_only=not scalar)
    values = [q8(rnd) for _ in sd]
    vform = rnd.choice(['list', 'list', 'array', 'scalar'] if n == 1 else ['list', 'list', 'array'])
    case['data'] = {'start': sd, 'end': ed if with_end else None, 'values': values, 'container': 'scalar' if scalar else 'list', 'vform': vform,
                    'style': style, 'dform': ('aware:' + zone) if aware else 'wall', 'mismatch': None, 'prep': False,
                    'carrier': {'start': cs, 'end': ce if with_end else None, 'res': res}}
    return case


def gen_coarse_dst_case(rnd):
    """a sub-daily grid in a daylight-saving zone over whole CALENDAR days around a switch, coarsened to days over the whole grid:
    the coarse steps are the calendar days (23, 24 or 25 hours long), every fine step in exactly one of them"""
    tz = rnd.choice(['CET', 'Europe/Berlin', 'US/Eastern'])
    day = pd.Timestamp(rnd.choice(DST_DATES[tz])) - pd.Timedelta(days=rnd.choice([0, 1]))
    nd = rnd.randint(2, 4)
    end = day + pd.DateOffset(days=nd)
    g = {'start': dspec(day, 'datetime'), 'end': dspec(pd.Timestamp(end), 'datetime'), 'freq': rnd.choice(['h', 'h', '2h', '30min']),
         'unit': rnd.choice(['h', 'h', 'd']), 'tz': tz, 'malformed': None, 'wacc': rnd.choice([None, 0.05])}
    return {'kind': 'coarse', 'grid': g, 'cfreq': 'd', 'cwindow': {'s': None, 'e': None, 'placement': 'none_both'}, 'focus': 'coarse_dst'}


def _wspec(rnd, ts, tz):
    if tz is None:
        return dspec(ts, rnd.choice(['datetime', 'timestamp']))
    n = ts.tz_localize(None)
    if rnd.random() < 0.6 and _valid_local(n, tz) and n.tz_localize(tz) == ts:
        return dspec(n, 'datetime')
    return dspec(ts, 'aware')


def _shorten(g):
    s = pd.Timestamp(g['start']['iso'])
    g['start'] = dspec(s, 'datetime')
    g['end'] = dspec(s + pd.Timedelta(hours=30), 'datetime')
    return g


# ------------------------------------------------------------------------------------------ implementation
def grid_snapshot(tg):
    """numbers of a real Timegrid object"""
    tp = list(tg.timepoints)
    out = {'pts': [sec(p) for p in tp], 'idx': [int(i) for i in tg.I], 'dt': [float(x) for x in tg.dt], 'Dt': [float(x) for x in tg.Dt], 'T': int(tg.T)}
    if hasattr(tg, 'discount_factors'):
        out['df'] = [float(x) for x in tg.discount_factors]
    if hasattr(tg, 'I_minor_in_major'):
        out['minor'] = [[int(i) for i in m] for m in tg.I_minor_in_major]
    return out


def build_data(d):
    """the python dict handed to values_to_grid"""
    st = [mk(x) for x in d['start']]
    en = [mk(x) for x in d['end']] if d['end'] is not None else None

    def wrap(lst):
        c = d['container']
        if c == 'scalar':
            return lst[0]
        if c == 'index':
            return pd.DatetimeIndex(lst)
        if c == 'array':
            return np.array(lst)
        return list(lst)
    inp = {'start': wrap(st)}
    if en is not None:
        inp['end'] = wrap(en) if len(en) == len(st) or d['container'] != 'scalar' else en[0]
    if d.get('carrier'):       # stream `vcar`: the container / resolution of each side is spelled out
        inp['start'] = carry(d['start'], d['carrier']['start'])
        if en is not None:
            inp['end'] = carry(d['end'], d['carrier']['end'])
    v = d['values']
    inp['values'] = v[0] if d['vform'] == 'scalar' else (np.array(v) if d['vform'] == 'array' else list(v))
    return inp


def run_impl(case):
    g = case['grid']
    res = {'_obj': {}}
    with warnings.catch_warnings():
        warnings.simplefilter('ignore')
        try:
            tg = Timegrid(mk(g['start']), mk(g['end']), freq=g['freq'], main_time_unit=g['unit'], timezone=g['tz'])
            if g['wacc'] is not None:
                tg.set_wacc(g['wacc'])
        except Exception as e:
            res['grid'] = {'err': err_class(e), 'msg': str(e)[:120]}
            return res
        res['_obj']['tg'] = tg
        res['grid'] = grid_snapshot(tg)
        res['grid']['start'], res['grid']['end'] = sec(tg.start), sec(tg.end)
        cur = tg
        k = case['kind']
        if 'window' in case:
            w = case['window']
            try:
                tg.set_restricted_grid(mk(w['s']), mk(w['e']))
                cur = tg.restricted
                res['restricted'] = grid_snapshot(cur)
                res['_obj']['restricted'] = cur
            except Exception as e:
                res['restricted'] = {'err': err_class(e), 'msg': str(e)[:120]}
                return res
        if 'window2' in case:
            w = case['window2']
            try:
                r2 = Timegrid(mk(w['s']) if w['s'] else cur.start, mk(w['e']) if w['e'] else cur.end, freq=g['freq'],
                              main_time_unit=g['unit'], ref_timegrid=cur)
                res['restricted2'] = grid_snapshot(r2)
                res['_obj']['restricted2'] = r2
            except Exception as e:
                res['restricted2'] = {'err': err_class(e), 'msg': str(e)[:120]}
                return res
        if 'cwindow' in case:
            w = case['cwindow']
            try:
                cur.set_restricted_grid(mk(w['s']), mk(w['e']), freq=case['cfreq'])
                res['_obj']['coarse_ref'] = cur
                cur = cur.restricted
                res['coarse'] = grid_snapshot(cur)
                res['coarse']['same_freq'] = not hasattr(cur, 'I_minor_in_major')
                res['_obj']['coarse'] = cur
            except Exception as e:
                res['coarse'] = {'err': err_class(e), 'msg': str(e)[:120]}
                return res
        if 'data' in case:
            try:
                inp = build_data(case['data'])
            except Exception as e:   # the container cannot be built (e.g. mixed zones): not a case
                res['values'] = {'skip': 'container: %s' % type(e).__name__}
                return res
            res['_obj']['values_grid'] = cur
            try:
                if case['data']['prep']:
                    inp = cur.prep_date_dict(inp)
                r = cur.values_to_grid(inp)
                res['values'] = {'ok': [None if math.isnan(x) else float(x) for x in r]}
            except Exception as e:
                res['values'] = {'err': err_class(e), 'msg': str(e)[:120]}
        if 'prices' in case:
            p = case['prices']
            rr = random.Random(p['seed'])
            arrs = {'p%d' % i: [q8(rr) for _ in range(max(0, cur.T + p['dlen']))] for i in range(p['n'])}
            if p.get('nan') and cur.T >= 3 and p['dlen'] == 0:
                # an undefined entry (as values_to_grid produces outside all intervals) in an already-gridded array
                arrs['p0'][rr.randrange(0, cur.T)] = float('nan')
            res['prices_in'] = arrs
            res['_obj']['prices_grid'] = cur
            try:
                df = cur.prices_to_grid({k_: np.array(v) for k_, v in arrs.items()})
                res['prices'] = {'ok': {c: [float(x) for x in df[c].values] for c in df.columns},
                                 'index_ok': bool(len(df.index) == cur.T and all(a == b for a, b in zip(df.index, cur.timepoints)))}
            except Exception as e:
                res['prices'] = {'err': err_class(e), 'msg': str(e)[:120]}
            # the same arrays as ONE DataFrame with a plain numeric index (i-th row = i-th grid point), handed first to
            # another grid of the same length and then to this one: gridded data pass through unchanged both times
            if p['dlen'] == 0 and cur.T >= 1 and isinstance(res['prices'], dict) and 'ok' in res['prices'] and not p.get('nan'):
                frame = pd.DataFrame({k_: np.array(v, dtype=float) for k_, v in arrs.items()})
                # numeric row labels of any kind mean "i-th row = i-th grid point": 0..T-1, 1..T, rows left after filtering a
                # longer table, float labels
                iv = rr.choice(['range', 'range', 'one_based', 'filtered', 'float'])
                if iv == 'one_based':
                    frame.index = pd.Index(np.arange(1, len(frame) + 1))
                elif iv == 'filtered':
                    frame.index = pd.Index(np.arange(len(frame)) * 3 + 7)
                elif iv == 'float':
                    frame.index = pd.Index(np.arange(len(frame), dtype=float))
                res['prices_frame_index'] = iv
                g = case['grid']
                shift = pd.Timedelta(days=7 * 52)
                try:
                    other = Timegrid(mk(g['start']) + shift, mk(g['end']) + shift, freq=g['freq'], main_time_unit=g['unit'], timezone=g['tz'])
                except Exception:
                    other = None   # (a shifted local date may not exist)
                if other is not None and other.T == cur.T and not hasattr(cur, 'I_minor_in_major') and len(cur.timepoints) == cur.T:
                    try:
                        d1 = other.prices_to_grid(frame)
                        d2 = cur.prices_to_grid(frame)
                        res['prices_frame'] = {'first': {c: [float(x) for x in d1[c].values] for c in d1.columns},
                                               'second': {c: [float(x) for x in d2[c].values] for c in d2.columns}}
                    except Exception as e:
                        res['prices_frame'] = {'err': err_class(e), 'msg': '%s: %s' % (type(e).__name__, str(e)[:120])}
    return res


# ------------------------------------------------------------------------------------------ model
def request(case):
    """the driver request for the grid construction of the case (None if pandas refuses the inputs)"""
    g = case['grid']
    try:
        s, e = loc_ctor(mk(g['start']), g['tz']), loc_ctor(mk(g['end']), g['tz'])
    except Exception:
        return None
    req = {'op': 'grid', 'start': sec(s), 'stop': sec(e), 'unitSec': UNIT[g['unit']]}
    if is_tick(g['freq'], g['tz']):
        req['step'] = TICK[g['freq']]
    else:
        if not (s < e):
            req['points'] = []
        else:
            try:
                with warnings.catch_warnings():
                    warnings.simplefilter('ignore')
                    req['points'] = [sec(p) for p in pd.date_range(start=s, end=e, freq=g['freq'], tz=g['tz'])]
            except Exception:
                return None
    return req


def _window_inst(w, ref_start, ref_end, tz):
    """window bounds as the ref_timegrid branch localises them"""
    s = loc_ctor(mk(w['s']), tz) if w['s'] is not None else None
    e = loc_ctor(mk(w['e']), tz) if w['e'] is not None else None
    return s, e


def run_model(case, drv, ir):
    """chain of driver requests; impl result is used ONLY for the discount factors (an input of the model)"""
    g = case['grid']
    tz = g['tz']
    mr = {}
    req = request(case)
    if req is None:
        mr['grid'] = {'pandas-error': True}
        return mr
    if 'df' in ir.get('grid', {}):
        req['df'] = [fs(x) for x in ir['grid']['df']]
    a = drv.ask(req)
    if 'ok' not in a:
        raise RuntimeError('driver: %s on %s' % (a, json.dumps(req)[:300]))
    mr['grid'] = a['ok']
    if 'err' in mr['grid']:
        return mr
    S, E = req['start'], req['stop']
    S_ts, E_ts = loc_ctor(mk(g['start']), tz), loc_ctor(mk(g['end']), tz)

    def gj(m):
        return {k: m[k] for k in ('pts', 'idx', 'dt', 'Dt', 'df')}
    cur = gj(mr['grid'])
    cur_S, cur_E = S_ts, E_ts
    for key, out in (('window', 'restricted'), ('window2', 'restricted2')):
        if key in case:
            w = case[key]
            try:
                s, e = _window_inst(w, cur_S, cur_E, tz)
                s = cur_S if s is None else s
                e = cur_E if e is None else e
                si, ei = sec(s), csec(e)
                bool(s < e)
            except Exception:
                mr[out] = {'pandas-error': True}
                return mr
            a = drv.ask({'op': 'restrict', 'grid': cur, 's': si, 'e': ei})
            mr[out] = a['ok'] if 'ok' in a else {'driver-error': a}
            cur = gj(mr[out])
            cur_S, cur_E = s, e
    if 'cwindow' in case:
        w = case['cwindow']
        cf = case['cfreq']
        try:
            s, e = _window_inst(w, cur_S, cur_E, tz)
            s = cur_S if s is None else s
            e = cur_E if e is None else e
            si, ei = sec(s), csec(e)
            bool(s < e)
        except Exception:
            mr['coarse'] = {'pandas-error': True}
            return mr
        if cf == g['freq']:
            a = drv.ask({'op': 'restrict', 'grid': cur, 's': si, 'e': ei})
            mr['coarse'] = a['ok'] if 'ok' in a else {'driver-error': a}
            mr['coarse']['same_freq'] = True
            cur = gj(mr['coarse'])
        else:
            try:
                fa, fp = freq_ns(cf), freq_ns(g['freq'])
            except Exception:
                mr['coarse'] = {'pandas-error': True}
                return mr
            rq = {'op': 'coarsen', 'grid': cur, 'freqA': fa, 'freqP': fp}
            pcuts = None
            if fa < fp:
                rq['cuts'] = []            # the assertion comes first; cuts are never computed
            else:
                try:                       # the implementation's own pandas call (may refuse zone combinations)
                    with warnings.catch_warnings():
                        warnings.simplefilter('ignore')
                        pcuts = [sec(p) for p in pd.date_range(start=s, end=e, freq=cf, tz=tz)]
                except Exception:
                    mr['coarse'] = {'pandas-error': True}
                    return mr
                if is_tick(cf, tz):
                    rq.update({'start': si, 'stop': sec(e), 'step': TICK[cf]})   # cuts generated by the model
                else:
                    rq['cuts'] = pcuts
            a = drv.ask(rq)
            if 'ok' not in a:
                raise RuntimeError('driver: %s' % a)
            mr['coarse'] = a['ok']
            if pcuts is not None and 'cuts' in a['ok'] and a['ok']['cuts'] != pcuts:
                mr['cuts_mismatch'] = 'model cuts %s vs pandas %s' % (a['ok']['cuts'][:5], pcuts[:5])
            if 'err' in mr['coarse']:
                return mr
            mr['coarse'] = dict(mr['coarse']['grid'], minor=mr['coarse']['minor'], cuts=mr['coarse']['cuts'], same_freq=False)
            cur = gj(mr['coarse'])
    if 'data' in case:
        mr['values'] = model_values(case['data'], cur['pts'], tz, drv)
    if 'prices' in case and 'prices_in' in ir:
        mr['prices'] = {}
        for k, v in ir['prices_in'].items():
            if any(x != x for x in v):
                continue        # an undefined entry: the model's pass-through is about numbers (see finding F-19f)
            a = drv.ask({'op': 'prices_passthrough', 'T': len(cur['pts']), 'array': [fs(x) for x in v]})
            mr['prices'][k] = a['ok']
    return mr


def model_values(d, pts, tz, drv):
    """values_to_grid through the model; pandas does the localisation (order of operations as in the code)"""
    try:
        st = [pd.Timestamp(mk(x)) for x in d['start']]
        en = [pd.Timestamp(mk(x)) for x in d['end']] if d['end'] is not None else None
        st_naive = all(x.tzinfo is None for x in st)
        if (not st_naive) and tz is None:
            return {'pandas-error': 'aware data on naive grid'}
        if d['container'] == 'scalar':
            st = st[:1]
            if en is not None:
                en = en[:1] if len(en) >= 1 else en
        req = {'op': 'values_to_grid', 'pts': pts, 'values': [fs(v) for v in d['values']] if d['vform'] != 'scalar' else fs(d['values'][0])}
        if d['prep']:
            req['prep'] = True
        if en is None and not d['prep']:
            if len(st) > 1:
                if st_naive and tz is not None:
                    # implicit ends are computed on the naive wall-clock values, then localised
                    a = drv.ask({'op': 'implicit_ends', 'start': [sec(x) for x in st]})
                    en_n = [pd.Timestamp(x, unit='s') for x in a['ok']]
                    req['end'] = [csec(x.tz_localize(tz)) for x in en_n]
                    req['start'] = [sec(x.tz_localize(tz)) for x in st]
                else:
                    req['start'] = [sec(x) for x in st]
            else:
                req['start'] = [sec(loc_tzl(x, tz)) for x in st]
                mx = pd.to_datetime([pd.Timestamp.max - pd.Timedelta(2, 'd')])   # as the code: room for the zone conversion
                if tz is not None:
                    mx = mx.tz_localize(tz)
                v = int(mx.asi8[0])
                req['forever'] = int(-((-v) // 10 ** 9))
        else:
            req['start'] = [sec(loc_tzl(x, tz)) for x in st]
            if en is not None:
                req['end'] = [csec(loc_tzl(x, tz)) for x in en]
        if d['container'] == 'scalar':
            req['start'] = req['start'][0]
            if 'end' in req and isinstance(req['end'], list) and len(req['end']) == 1:
                req['end'] = req['end'][0]
    except Exception as e:
        return {'pandas-error': type(e).__name__}
    a = drv.ask(req)
    if 'ok' not in a:
        raise RuntimeError('driver: %s on %s' % (a, json.dumps(req)[:300]))
    r = a['ok']
    return r if isinstance(r, dict) else {'ok': r}


# ------------------------------------------------------------------------------------------ comparison
def _pow2(n):
    return n & (n - 1) == 0


def feq(m, x, exact):
    """model rational (string) vs implementation float: exact when every step length of the grid is dyadic
    (then all sums are exact in floating point), 1e-9 relative otherwise"""
    fm = Fraction(m)
    fx = Fraction(float(x))
    if fm == fx:
        return True
    if exact:
        return False
    return abs(fm - fx) <= Fraction(1, 10 ** 9) * max(1, abs(fm))


def cmp_grid(tag, m, i, exact=True, with_df=True):
    out = []
    if 'pandas-error' in m:
        if 'err' not in i:
            out.append('%s: pandas refused the inputs in the harness but the implementation returned a grid' % tag)
        return out
    if 'driver-error' in m:
        return ['%s: driver error %s' % (tag, m)]
    if ('err' in m) != ('err' in i):
        return ['%s: model %s vs implementation %s' % (tag, m.get('err', 'ok'), i.get('err', 'ok') + ' ' + i.get('msg', ''))]
    if 'err' in m:
        cls = {'assert': 'assert', 'index': 'index', 'overlap': 'value', 'length': 'value'}.get(m['err'], 'unknown:' + str(m['err']))
        if cls != i['err']:
            out.append('%s: error class model %s (%s) vs implementation %s %s' % (tag, m['err'], cls, i['err'], i.get('msg', '')))
        return out
    if m['pts'] != i['pts']:
        out.append('%s: points differ: model %s… impl %s… (len %d vs %d)' % (tag, m['pts'][:4], i['pts'][:4], len(m['pts']), len(i['pts'])))
        return out
    if m['idx'] != i['idx']:
        out.append('%s: I differs: model %s impl %s' % (tag, m['idx'][:6], i['idx'][:6]))
    for k in ('dt', 'Dt'):
        if len(m[k]) != len(i[k]) or not all(feq(a, b, exact) for a, b in zip(m[k], i[k])):
            out.append('%s: %s differs: model %s impl %s' % (tag, k, m[k][:5], i[k][:5]))
    if with_df:
        idf = i.get('df')
        if idf is None:
            if m['df']:
                out.append('%s: model has discount factors, implementation has none' % tag)
        elif len(m['df']) != len(idf) or not all(Fraction(a) == Fraction(b) for a, b in zip(m['df'], idf)):
            out.append('%s: df differs: model %s impl %s' % (tag, m['df'][:4], idf[:4]))
    if 'minor' in m or 'minor' in i:
        if m.get('minor') != i.get('minor'):
            out.append('%s: I_minor_in_major differs: model %s impl %s' % (tag, str(m.get('minor'))[:80], str(i.get('minor'))[:80]))
    return out


def compare(case, ir, mr):
    out = []
    exact = all(_pow2(Fraction(x).denominator) for x in mr.get('grid', {}).get('dt', []))
    for key in ('grid', 'restricted', 'restricted2', 'coarse'):
        if key in ir or key in mr:
            if key not in ir or key not in mr:
                # a stage is missing on one side only if the previous stage failed there
                out.append('%s: stage present on one side only (impl %s, model %s)' % (key, key in ir, key in mr))
                return out
            out += cmp_grid(key, mr[key], ir[key], exact)
            if 'err' in ir[key] or 'err' in mr[key] or 'pandas-error' in mr[key]:
                return out
    if 'cuts_mismatch' in mr:
        out.append('coarse: ' + mr['cuts_mismatch'])
    if 'values' in ir or 'values' in mr:
        i, m = ir.get('values'), mr.get('values')
        # (an EMPTY coarse grid used to have a float array as points, so that values_to_grid raised TypeError: finding F-19e,
        #  repaired - its points are an empty array of time points and the comparison below applies as to any grid)
        if i is None or m is None:
            out.append('values: stage present on one side only')
        elif 'skip' in i:
            pass
        elif 'pandas-error' in m:
            if 'err' not in i:
                out.append('values: pandas refused the inputs in the harness (%s) but the implementation returned' % m['pandas-error'])
        elif ('err' in m) != ('err' in i):
            out.append('values: model %s vs implementation %s' % (m.get('err', 'ok'), i.get('err', 'ok') + ' ' + i.get('msg', '')))
        elif 'err' in m:
            if i['err'] != 'value':
                out.append('values: error class model overlap vs implementation %s %s' % (i['err'], i.get('msg', '')))
        else:
            a = [None if x is None else Fraction(x) for x in m['ok']]
            b = [None if x is None else Fraction(x) for x in i['ok']]
            if a != b:
                out.append('values: model %s vs implementation %s' % (m['ok'][:12], i['ok'][:12]))
    if 'prices' in ir:
        i, m = ir['prices'], mr.get('prices', {})
        for k, v in ir['prices_in'].items():
            mm = m.get(k)
            if mm is None and any(x != x for x in v):
                continue
            if isinstance(mm, dict) and 'err' in mm:
                if 'err' not in i:
                    out.append('prices: model %s vs implementation ok' % mm['err'])
            elif 'err' in i:
                out.append('prices: implementation %s %s vs model ok' % (i['err'], i.get('msg', '')))
            elif [Fraction(x) for x in mm] != [Fraction(x) for x in i['ok'][k]]:
                out.append('prices: column %s differs' % k)
    return out


# ------------------------------------------------------------------------------------------ oracle (real objects)
def _viol(oracle_name, detail, **facts):
    return {'oracle': 'grid.' + oracle_name, 'detail': detail, 'facts': facts}


def _unit_ns(u):
    return int(pd.Timedelta(1, u).value)


def _dt_ok(dt, diff_ns, unit_ns):
    lhs = Fraction(float(dt)) * unit_ns
    return lhs == diff_ns or abs(lhs - diff_ns) <= Fraction(diff_ns, 10 ** 9)


def _ns(ts):
    """instant as integer nanoseconds since the epoch (UTC; naive = as if UTC), whatever the resolution of the time stamp"""
    return int(pd.Timestamp(ts).as_unit('ns').value)


def own_raster(s, e, cf, tz):
    """the raster of a coarse window [s, e) computed FROM THE WINDOW ALONE (never from the reference grid): s + j*freq for all
    j >= 0 with s + j*freq <= e, as integer ns.  Fixed-length frequencies: plain arithmetic on instants; calendar frequencies
    (days in a daylight-saving zone, weeks, months): pandas' calendar (trusted base)."""
    if is_tick(cf, tz):
        step = TICK[cf] * 10 ** 9
        a, b = _ns(s), _ns(e)
        return [a + j * step for j in range((b - a) // step + 1)] if b >= a else []
    with warnings.catch_warnings():
        warnings.simplefilter('ignore')
        return [_ns(p) for p in pd.date_range(start=s, end=e, freq=cf, tz=tz)]


def _classify_coarse_loss(ref, rtp, pos, winI, flat, s, e, cf, tz, facts):
    """the minor lists of a coarse grid are not exactly the fine steps of the window [s, e): say WHICH fine steps are lost,
    relative to the window's own raster c_0 = s (or the first anchor), c_1, ..., c_n <= e:
      * a fine step inside [c_0, c_n) that belongs to no coarse step: kind `coarse_interval_lost` - the statement
        EAO.C19.coarse_partition (covering [first cut, last cut)), and when no reference point lies in [c_n, e) - the window
        reaches beyond the horizon - EAO.C19.coarse_partition_clipped / _whole: nothing of the window may be lost at all;
      * a fine step before c_0 (anchored frequencies) or at / after c_n (the window is not a whole number of coarse steps and
        the remainder [c_n, e) still holds reference points): kind `coarse_remainder` (known finding F-19b);
      * a fine step outside the window in a minor list: kind `coarse_outside_window`."""
    V = []
    got, want = set(flat), set(winI)
    missing = [k for k in pos if int(ref.I[k]) not in got]
    extra = [x for x in flat if x not in want]
    if extra:
        V.append(_viol('coarse_partition', 'minor lists hold %d fine step(s) that do not lie in the window, first index %d' % (len(extra), extra[0]),
                       kind='coarse_outside_window', how='extra', **facts))
    if not missing:
        return V
    try:
        cuts = own_raster(s, e, cf, tz)
    except Exception as ex:
        V.append(_viol('coarse_partition', 'coarse grid covers %d of %d fine steps of the window; the raster of the window could not be generated here (%s: %s)'
                       % (len(flat), len(winI), type(ex).__name__, str(ex)[:80]), kind='coarse_loss_unclassified', how='dropped', **facts))
        return V
    pv = {k: _ns(rtp[k]) for k in pos}
    inside = [k for k in missing if len(cuts) >= 2 and cuts[0] <= pv[k] < cuts[-1]]
    lead = [k for k in missing if cuts and pv[k] < cuts[0]]
    trail = [k for k in missing if k not in set(inside) and k not in set(lead)]
    # hypothesis of coarse_partition_clipped / _whole on the real reference: no reference point of the window at or after the last cut
    clipped = bool(cuts) and not any(pv[k] >= cuts[-1] for k in pos)
    try:
        beyond_end = bool(e > ref.end)
    except Exception:
        beyond_end = None
    more = dict(facts, anchored=cf in ('W', 'MS'), raster_cuts=len(cuts), first_cut_is_start=bool(cuts) and cuts[0] == _ns(s),
                remainder_holds_points=not clipped, window_beyond_ref_end=beyond_end)
    if inside:
        V.append(_viol('coarse_partition', 'coarse grid covers %d of %d fine steps of the window: %d fine step(s) INSIDE the window\'s own raster of coarse steps '
                       '[%s, %s) (start + j*%s, %d cuts) belong to no coarse step, first lost: index %d at %s%s'
                       % (len(flat), len(winI), len(inside), pd.Timestamp(cuts[0], tz='UTC'), pd.Timestamp(cuts[-1], tz='UTC'), cf, len(cuts),
                          int(ref.I[inside[0]]), rtp[inside[0]],
                          ' (no reference point in the remainder after the last cut: coarse_partition_clipped demands the whole window clipped to the reference grid)' if clipped else ''),
                       kind='coarse_interval_lost', how='dropped', inside=len(inside), leading=len(lead), trailing=len(trail), **more))
    if lead or trail:
        V.append(_viol('coarse_partition', 'coarse grid covers %d of %d fine steps of the window (dropped: %d leading, %d trailing)'
                       % (len(flat), len(winI), len(lead), len(trail)), kind='coarse_remainder',
                       how='dropped', leading=len(lead), trailing=len(trail), inside=len(inside), **more))
    return V


def oracle(case, ir):
    """C19 evaluated on the real objects (pandas instants)"""
    V = []
    g = case['grid']
    O = ir.get('_obj', {})
    tg = O.get('tg')
    if tg is None:
        return V
    tz = g['tz']
    base = {'freq': g['freq'], 'tz': tz, 'unit': g['unit']}
    tp = list(tg.timepoints)
    un = _unit_ns(g['unit'])
    # --- top-level grid
    if any(not (a < b) for a, b in zip(tp[:-1], tp[1:])):
        V.append(_viol('increasing', 'points are not strictly increasing', kind='not_increasing', **base))
    if tp and tp[0] != tg.start:
        anchored = g['freq'] in ('MS', 'W') or g['freq'].startswith('W-')
        V.append(_viol('first_point', 'first point %s is not the grid start %s' % (tp[0], tg.start),
                       kind='anchored_first_point' if anchored else 'first_point', anchored=anchored, **base))
    if any(not (p < tg.end) for p in tp):
        V.append(_viol('before_end', 'a point does not lie before the grid end', kind='point_after_end', **base))
    for i in range(len(tp) - 1):
        if not _dt_ok(tg.dt[i], (tp[i + 1] - tp[i]).value, un):
            V.append(_viol('dt_real', 'dt[%d]=%r but elapsed %s' % (i, tg.dt[i], tp[i + 1] - tp[i]), kind='dt', **base))
            break
    if tp:
        last_end = tp[-1] + pd.Timedelta(nanoseconds=int(round(float(tg.dt[-1]) * un)))
        if last_end > tg.end:
            V.append(_viol('dt_real', 'last step ends after the grid end', kind='dt_last', **base))
        cs = np.cumsum(np.asarray(tg.dt, dtype=float))
        if not np.allclose(cs, np.asarray(tg.Dt, dtype=float), rtol=1e-12, atol=0):
            V.append(_viol('Dt', 'Dt is not the cumulative sum of dt', kind='Dt', **base))
    if [int(i) for i in tg.I] != list(range(len(tp))):
        V.append(_viol('index', 'I is not 0..T-1', kind='I', **base))

    # --- restricted grids: index-consistent subset of the points in [s, e)
    def check_restricted(tag, ref, r, w):
        try:
            s = loc_ctor(mk(w['s']), tz) if w['s'] is not None else ref.start
            e = loc_ctor(mk(w['e']), tz) if w['e'] is not None else ref.end
        except Exception:
            return
        rtp = list(ref.timepoints)
        pos = [k for k, p in enumerate(rtp) if s <= p and p < e]
        facts = dict(base, placement=w.get('placement'), stage=tag)
        if [rtp[k] for k in pos] != list(r.timepoints):
            V.append(_viol('restricted', '%s: points are not the points of the reference in [s,e)' % tag, kind='restricted_points', **facts))
            return
        for name in ('I', 'dt', 'Dt', 'discount_factors'):
            if hasattr(ref, name) != hasattr(r, name):
                V.append(_viol('restricted', '%s: attribute %s present on one grid only' % (tag, name), kind='restricted_attr', **facts))
            elif hasattr(ref, name):
                a = [getattr(ref, name)[k] for k in pos]
                if len(a) != len(getattr(r, name)) or any(x != y for x, y in zip(a, getattr(r, name))):
                    V.append(_viol('restricted', '%s: %s is not taken from the same positions of the reference' % (tag, name), kind='restricted_' + name, **facts))
        if r.T != len(pos):
            V.append(_viol('restricted', '%s: T wrong' % tag, kind='restricted_T', **facts))
    if 'restricted' in O:
        check_restricted('restricted', tg, O['restricted'], case['window'])
    if 'restricted2' in O:
        check_restricted('restricted2', O.get('restricted', tg), O['restricted2'], case['window2'])

    # --- coarse grid: partition of the fine steps of the window without loss
    if 'cwindow' in case and 'coarse' in ir:
        ref = O.get('restricted', tg)
        w = case['cwindow']
        cf = case['cfreq']
        facts = dict(base, cfreq=cf, placement=w.get('placement'), ref_restricted='restricted' in O)
        try:
            s = loc_ctor(mk(w['s']), tz) if w['s'] is not None else ref.start
            e = loc_ctor(mk(w['e']), tz) if w['e'] is not None else ref.end
            fa, fp = freq_ns(cf), freq_ns(g['freq'])
            ok_inputs = True
        except Exception:
            ok_inputs = False
        if ok_inputs and 'err' in ir['coarse']:
            if ir['coarse']['err'] == 'assert' and fa < fp:
                pass      # documented rejection: finer than the reference
            elif ir['coarse']['err'] == 'value' and 'zero-size' in ir['coarse'].get('msg', ''):
                # (was part of known finding F-19b until empty intervals were skipped: now a violation of its own kind)
                V.append(_viol('coarse_partition', 'coarse grid raises: a coarse interval contains no fine step, i.e. the window reaches beyond the reference grid (%s)' % ir['coarse']['msg'],
                               kind='coarse_empty_raises', how='raised', **facts))
            elif ir['coarse']['err'] == 'index':
                V.append(_viol('coarse_partition', 'coarse grid on a restricted reference raises IndexError (%s)' % ir['coarse']['msg'],
                               kind='coarse_on_restricted_ref', how='raised', **facts))
            else:
                pass      # pandas refused the inputs (zone mismatch etc.): not a statement about partitions
        elif ok_inputs and 'coarse' in O:
            c = O['coarse']
            if hasattr(c, 'I_minor_in_major'):
                rtp = list(ref.timepoints)
                pos = [k for k, p in enumerate(rtp) if s <= p and p < e]
                winI = [int(ref.I[k]) for k in pos]
                minor = [[int(x) for x in m] for m in c.I_minor_in_major]
                flat = [x for m in minor for x in m]
                if any(len(m) == 0 for m in minor):
                    V.append(_viol('coarse_partition', 'empty minor list', kind='coarse_empty_minor', **facts))
                lens = {'I': len(c.I), 'timepoints': len(c.timepoints), 'dt': len(c.dt), 'Dt': len(c.Dt), 'T': int(c.T), 'I_minor_in_major': len(minor)}
                if hasattr(c, 'discount_factors'):
                    lens['discount_factors'] = len(c.discount_factors)
                if len(set(lens.values())) != 1:
                    V.append(_viol('coarse_partition', 'the arrays of the coarse grid do not have one entry per coarse step: %s' % lens, kind='coarse_lengths', **facts))
                if len(set(flat)) != len(flat):
                    V.append(_viol('coarse_partition', 'minor lists are not disjoint', kind='coarse_not_disjoint', **facts))
                if flat != sorted(flat) or (flat and flat != [x for x in winI if flat[0] <= x <= flat[-1]]):
                    V.append(_viol('coarse_partition', 'minor lists are not consecutive', kind='coarse_not_consecutive', **facts))
                if flat != winI:
                    V += _classify_coarse_loss(ref, rtp, pos, winI, flat, s, e, cf, tz, facts)
                tot_ref = math.fsum(float(ref.dt[k]) for k in pos)
                tot_c = math.fsum(float(x) for x in c.dt)
                if flat == winI and abs(tot_ref - tot_c) > 1e-9 * max(1.0, abs(tot_ref)):
                    V.append(_viol('coarse_partition', 'sum of dt not preserved', kind='coarse_dt', **facts))
                # each coarse step: I, point, Dt of its first minor step; dt = sum of minor dt
                refI = [int(x) for x in ref.I]
                for j, m in enumerate(minor):
                    if not m:
                        continue
                    k0 = refI.index(m[0])
                    good = (int(c.I[j]) == m[0] and c.timepoints[j] == rtp[k0] and float(c.Dt[j]) == float(ref.Dt[k0])
                            and abs(float(c.dt[j]) - math.fsum(float(ref.dt[refI.index(x)]) for x in m)) <= 1e-9 * max(1.0, float(c.dt[j])))
                    if not good:
                        V.append(_viol('coarse_partition', 'coarse step %d does not carry point/Dt of its first minor step (I=%d point %s, first minor point %s)'
                                       % (j, int(c.I[j]), c.timepoints[j], rtp[k0]), kind='coarse_on_restricted_ref' if 'restricted' in O else 'coarse_step', how='wrong', **facts))
                        break
            else:
                check_restricted('coarse(same freq)', ref, c, w)

    # --- values_to_grid
    if 'data' in case and 'values' in ir and 'skip' not in ir['values']:
        V += oracle_values(case, ir, O['values_grid'], base)
    # --- gridded prices pass through unchanged
    if 'prices' in ir and 'prices_in' in ir:
        cur = O['prices_grid']
        lens_ok = all(len(v) == cur.T for v in ir['prices_in'].values())
        if lens_ok:
            if 'err' in ir['prices']:
                V.append(_viol('gridded_passthrough', 'gridded arrays rejected: %s' % ir['prices']['msg'], kind='prices_rejected', **base))
            else:
                def same(a, b):
                    return a is not None and len(a) == len(b) and all((x == y) or (x != x and y != y) for x, y in zip(a, b))
                for k, v in ir['prices_in'].items():
                    if not same(ir['prices']['ok'].get(k), [float(x) for x in v]):
                        hasnan = any(x != x for x in v)
                        V.append(_viol('gridded_passthrough', 'column %s changed: given %s, returned %s' % (k, v[:8], (ir['prices']['ok'].get(k) or [])[:8]),
                                       kind='prices_nan_filled' if hasnan else 'prices_changed', **base))
                if not ir['prices']['index_ok']:
                    V.append(_viol('gridded_passthrough', 'index is not the grid points', kind='prices_index', **base))
        elif 'err' not in ir['prices']:
            V.append(_viol('gridded_passthrough', 'array of wrong length accepted', kind='prices_length', **base))
        pf_ = ir.get('prices_frame')
        if pf_ is not None:
            if 'err' in pf_:
                V.append(_viol('gridded_passthrough', 'a DataFrame with numeric index handed to two grids of the same length: %s' % pf_['msg'], kind='prices_frame_rejected', **base))
            else:
                for which in ('first', 'second'):
                    for k, v in ir['prices_in'].items():
                        if pf_[which].get(k) != [float(x) for x in v]:
                            V.append(_viol('gridded_passthrough', 'DataFrame with numeric index, %s grid it is handed to: column %s comes back as %s, given %s' % (
                                which, k, pf_[which].get(k), [float(x) for x in v]), kind='prices_frame_changed', **base))
                            break
    return V


def oracle_values(case, ir, cur, base):
    """expected result from the statement: value of the unique interval containing the point, NaN outside,
    ValueError iff some grid point lies in two intervals"""
    V = []
    d = case['data']
    tz = base['tz']
    if d['mismatch'] or d['prep']:
        return V       # lists of different lengths / prep_date_dict: no statement of C19 (followed by the model only)
    try:
        st = [pd.Timestamp(mk(x)) for x in d['start']]
        en = [pd.Timestamp(mk(x)) for x in d['end']] if d['end'] is not None else None
        if any(x.tzinfo is not None for x in st) and tz is None:
            return V   # aware data on a naive grid: malformed
        forever = False
        if en is None:
            if len(st) > 1:
                en = st[1:] + [st[-1] + 2 * (st[-1] - st[-2])]
            else:
                en, forever = [None], True
        st = [loc_tzl(x, tz) for x in st]
        en = [None if x is None else loc_tzl(x, tz) for x in en]
    except Exception:
        return V
    pts = list(cur.timepoints)
    expect, clash = [], False
    for p in pts:
        hit = [k for k, (s, e) in enumerate(zip(st, en)) if s <= p and (e is None or p < e)]
        if len(hit) > 1:
            clash = True
        expect.append(float(d['values'][hit[0]]) if hit else None)
    facts = dict(base, style=d['style'], container=d['container'], dform=d['dform'], with_end=d['end'] is not None, n=len(st))
    if d.get('carrier'):
        cr = d['carrier']
        facts.update(carrier_start='%s[%s]' % (cr['start']['form'], cr['start'].get('res', '')), resolution=cr['res'],
                     carrier_end=('%s[%s]' % (cr['end']['form'], cr['end'].get('res', ''))) if cr.get('end') else None)
    got = ir['values']
    if clash:
        if 'err' not in got or got['err'] != 'value':
            V.append(_viol('values_unique', 'a grid point lies in two intervals but no ValueError (%s)' % (got.get('err') or 'returned'), kind='overlap_missed', **facts))
    elif 'err' in got:
        kind = 'values_raise'     # (also on an empty coarse grid: finding F-19e is repaired)
        V.append(_viol('values_unique', 'no grid point lies in two intervals but the call raises %s: %s' % (got['err'], got.get('msg')), kind=kind, T=len(pts), **facts))
    elif got['ok'] != expect:
        bad = [k for k, (a, b) in enumerate(zip(got['ok'], expect)) if a != b]
        kind = 'forever_end_overflow' if forever and all(got['ok'][k] is None for k in bad) else 'values_wrong'
        V.append(_viol('values_unique', 'point %d (%s): got %s, the interval containing it gives %s (%d points differ)'
                       % (bad[0], pts[bad[0]], got['ok'][bad[0]], expect[bad[0]], len(bad)), kind=kind, **facts))
    return V


def hyp_coarse(case, ir, mr):
    """hypotheses of EAO.C19.coarse_partition / _whole / _clipped evaluated on the real reference grid and the cuts: reference
    points and cuts non-decreasing, as many step lengths as indices as points (a skipped interval is recognised by its indices)"""
    out = []
    O = ir.get('_obj', {})
    ref, c = O.get('coarse_ref'), O.get('coarse')
    if ref is None or c is None or not hasattr(c, 'I_minor_in_major'):
        return out
    tp = list(ref.timepoints)
    if any(b < a for a, b in zip(tp[:-1], tp[1:])):
        out.append('hypothesis of coarse_partition not met by the real reference grid: points decrease')
    if not (len(ref.I) == len(tp) == len(ref.dt) == len(ref.Dt)):
        out.append('hypothesis of coarse_partition not met by the real reference grid: len I %d, points %d, dt %d, Dt %d' % (len(ref.I), len(tp), len(ref.dt), len(ref.Dt)))
    cuts = (mr.get('coarse') or {}).get('cuts')
    if cuts is not None and any(b < a for a, b in zip(cuts[:-1], cuts[1:])):
        out.append('hypothesis of coarse_partition not met: the coarse cuts decrease: %s' % cuts[:6])
    return out


# ------------------------------------------------------------------------------------------ running
def features(case, ir):
    g = case['grid']
    f = ['kind:' + case['kind'], 'freq:' + g['freq'], 'unit:' + g['unit'], 'tz:' + str(g['tz']), 'startform:' + g['start']['as']]
    if g['malformed']:
        f.append('malformed:' + g['malformed'])
    for k in ('window', 'window2', 'cwindow'):
        if k in case:
            f.append('%s:%s' % (k, case[k]['placement']))
    if 'cfreq' in case:
        f.append('cfreq:%s/%s' % (g['freq'], case['cfreq']))
    if case.get('focus'):
        f.append('focus:' + case['focus'])
    ref = ir.get('_obj', {}).get('coarse_ref')
    if ref is not None and 'cwindow' in case and 'err' not in ir.get('coarse', {'err': 1}):
        try:   # how the end of the reference grid lies relative to the coarse window and its raster
            w = case['cwindow']
            s = loc_ctor(mk(w['s']), g['tz']) if w['s'] is not None else ref.start
            e = loc_ctor(mk(w['e']), g['tz']) if w['e'] is not None else ref.end
            if e > ref.end and case['cfreq'] != g['freq']:
                f.append('coarse-beyond-end:ref-end-%s-raster' % ('on' if _ns(ref.end) in set(own_raster(s, e, case['cfreq'], g['tz'])) else 'off'))
        except Exception:
            pass
    if 'data' in case:
        d = case['data']
        f += ['style:' + d['style'], 'container:' + d['container'], 'dform:' + d['dform'], 'end:' + str(d['end'] is not None)]
        if d['mismatch']:
            f.append('mismatch:' + d['mismatch'])
        if d['prep']:
            f.append('prep')
        if d.get('carrier'):
            cr = d['carrier']
            f.append('carrier-start:%s[%s]' % (cr['start']['form'], cr['start'].get('res', '')))
            if cr.get('end'):
                f.append('carrier-end:%s[%s]' % (cr['end']['form'], cr['end'].get('res', '')))
            f.append('carrier-res:' + cr['res'])
    for k in ('grid', 'restricted', 'restricted2', 'coarse', 'values', 'prices'):
        if k in ir and 'err' in ir[k]:
            f.append('%s-error:%s' % (k, ir[k]['err']))
    return f


def coarse_features(ir, mr):
    """how the coarse window lies relative to the reference grid: pairs of cuts skipped because they hold no fine step"""
    c, m = ir.get('coarse'), mr.get('coarse')
    if not isinstance(c, dict) or not isinstance(m, dict) or 'err' in c or c.get('same_freq', True) or 'cuts' not in m or 'pts' not in ir.get('restricted', ir.get('grid', {})):
        return []
    cuts = m['cuts']
    ref = ir.get('restricted', ir['grid'])['pts']
    pairs = list(zip(cuts[:-1], cuts[1:]))
    empty = [k for k, (a, b) in enumerate(pairs) if not any(a <= p < b for p in ref)]
    if not empty:
        tag = 'none'
    elif len(empty) == len(pairs):
        tag = 'all'
    else:
        tag = '+'.join(x for x, t in (('leading', 0 in empty), ('trailing', len(pairs) - 1 in empty)) if t) or 'inner'
    f = ['coarse-skipped:' + tag]
    if pairs and ref and 0 not in empty and cuts[0] < ref[0]:
        f.append('coarse-first-interval-partly-outside')
    if empty and len(empty) < len(pairs):
        f.append('coarse-steps-with-skips')
    return f


def run_case(case, drv):
    ir = run_impl(case)
    mr = run_model(case, drv, ir)
    dis = compare(case, ir, mr) + hyp_coarse(case, ir, mr)
    vio = oracle(case, ir)
    nontrivial = 'grid' in ir and 'err' not in ir['grid'] and ir['grid'].get('T', 0) > 1
    return {'evaluated': 1, 'nontrivial': bool(nontrivial), 'features': features(case, ir) + coarse_features(ir, mr), 'disagreements': dis, 'violations': vio}


def cases(seed, n, small=False):
    rnd = random.Random(seed * 104729 + 19)
    for i in range(n):
        yield 'grid%d' % i, gen_case(random.Random(rnd.getrandbits(48)), small=small)
    for i in range(max(10, n // 40)):
        yield 'coarsedst%d' % i, gen_coarse_dst_case(random.Random(rnd.getrandbits(48)))
    # (new streams draw from generators of their own, so that the cases above stay what they were)
    rnd2 = random.Random(seed * 104729 + 1911)
    for i in range(max(20, n // 12)):
        yield 'cclip%d' % i, gen_clip_case(random.Random(rnd2.getrandbits(48)))
    for i in range(max(40, n // 5)):
        yield 'vcar%d' % i, gen_carrier_case(random.Random(rnd2.getrandbits(48)))


def exhaustive_windows(tmax=48):
    """all windows [p_i, p_j) (and half-step off-grid variants) on hourly grids up to tmax steps (thorough tier)"""
    for T in (1, 2, 3, 5, 8, 13, 24, tmax):
        g = {'start': dspec(pd.Timestamp('2021-03-27 20:00'), 'datetime'), 'end': dspec(pd.Timestamp('2021-03-27 20:00') + pd.Timedelta(hours=T), 'datetime'),
             'freq': 'h', 'unit': 'h', 'tz': 'CET', 'wacc': None, 'malformed': None}
        S, E, allp = _grid_points(g)
        for i in range(len(allp)):
            for j in range(len(allp)):
                yield 'exh%d_%d_%d' % (T, i, j), {'kind': 'restrict', 'grid': g, 'window': {'s': dspec(allp[i], 'aware'), 'e': dspec(allp[j], 'aware'), 'placement': 'exhaustive'}}


class ScratchDriver:
    """driver for development: interprets a scratch Main.lean that imports EAO.Driver.Grid"""

    def __init__(self, main='/tmp/grid/Main.lean'):
        lean_dir = os.path.join(os.path.dirname(os.path.dirname(os.path.dirname(os.path.abspath(__file__)))), 'lean')
        self.p = subprocess.Popen(['lake', 'env', 'lean', '--run', main], cwd=lean_dir, stdin=subprocess.PIPE, stdout=subprocess.PIPE, text=True, bufsize=1)

    def ask(self, req):
        self.p.stdin.write(json.dumps(req) + '\n')
        self.p.stdin.flush()
        line = self.p.stdout.readline()
        if not line:
            raise RuntimeError('driver died')
        return json.loads(line)

    def close(self):
        try:
            self.p.stdin.close()
            self.p.wait(timeout=5)
        except Exception:
            self.p.kill()


def selftest(n, seed, drv, verbose=False, exhaustive=False):
    """n generated cases against a driver; returns counts, disagreements, violations (grouped by kind)"""
    from collections import Counter
    feats, dis, vio, herr = Counter(), [], [], []
    cnt = 0
    src = list(cases(seed, n))
    if exhaustive:
        src += list(exhaustive_windows())
    for cid, case in src:
        cnt += 1
        try:
            r = run_case(case, drv)
        except Exception as e:
            import traceback
            herr.append((cid, '%s: %s' % (type(e).__name__, e), traceback.format_exc()[-800:], case))
            continue
        feats.update(r['features'])
        for d in r['disagreements']:
            dis.append((cid, d, case))
        for v in r['violations']:
            vio.append((cid, v, case))
    kinds = Counter(v['facts'].get('kind') for _, v, _ in vio)
    return {'cases': cnt, 'disagreements': dis, 'violations': vio, 'violation_kinds': dict(kinds), 'harness_errors': herr, 'features': dict(feats)}


if __name__ == '__main__':
    n = int(sys.argv[1]) if len(sys.argv) > 1 else 500
    seed = int(sys.argv[2]) if len(sys.argv) > 2 else 1
    main = sys.argv[3] if len(sys.argv) > 3 else None
    if main:
        drv = ScratchDriver(main)
    else:
        from harness.lean import Driver
        drv = Driver()
    r = selftest(n, seed, drv, exhaustive='--exhaustive' in sys.argv)
    drv.close()
    print('cases', r['cases'], 'disagreements', len(r['disagreements']), 'violations', len(r['violations']), 'harness errors', len(r['harness_errors']))
    print('violation kinds', r['violation_kinds'])
    for cid, d, case in r['disagreements'][:12]:
        print('DIS', cid, d)
        print('    ', json.dumps(case)[:700])
    for cid, e, tb, case in r['harness_errors'][:5]:
        print('HERR', cid, e)
        print(tb)
        print('    ', json.dumps(case)[:500])
    seen = set()
    for cid, v, case in r['violations']:
        k = v['facts'].get('kind')
        if k in seen:
            continue
        seen.add(k)
        print('VIO', cid, v['oracle'], v['detail'][:200], {a: b for a, b in v['facts'].items()})
    if '--features' in sys.argv:
        for k in sorted(r['features']):
            print('  ', k, r['features'][k])
