"""C03 on LIVE problem objects: call sequences and split problems.

The statement of C03 is about the problem AS IT IS AT THE TIME OF THE CALL.  Two regions of the call space that one call per
freshly built problem does not reach:

 again   the same problem object (plain OptimProblem - hand-made or assembled from a portfolio - or SplitOptimProblem) is optimised
         several times, and between the calls its data are changed as a user of the object would: the right-hand side replaced
         or edited in place, a coefficient of the matrix edited in place or the matrix replaced, a row type changed, a row added
         or removed, bounds tightened / a variable pinned, costs changed, a boolean flag set or taken back, or the next call is made
         on a deepcopy of the object (which carries along whatever the object keeps from earlier calls).  Every edit keeps the
         problem well formed (lengths of b, cType and the rows of A agree, l <= u).  `apply_edit` draws one edit from the seed.

 split   SplitOptimProblem objects: hand-made from several raw problems, or set up by Portfolio.setup_split_optim_problem; with
         intervals whose variables are pinned (l == u) - all of them or some - to a point that satisfies the interval's rows and
         flags, to a shifted point, to a fractional value of a variable flagged boolean, or to a corner of the box; for portfolios
         the pinning is done the way the package offers it: set-up with fix_time_window over whole intervals (prefix, subset, all;
         window as mask, index array or date) to an earlier solution taken exactly, shifted on some coordinates, or taken from a
         make_soft_problem run (`refix`).

The oracle works on `snapshot(live)`: a deep copy of the object taken immediately before the call; for a split problem the
block-diagonal sum of the interval problems (theorems EAO.C03.blockSum_feasible / blockSum_value / concatVec_block: feasibility,
value and the slices of the concatenated vector are exactly those of the sum), boolean flags from the first mapping row of each
variable of each interval.  No oracle lives here (harness/props/c03.py: judge_answer).
"""
import copy
import random
import types
import warnings

import numpy as np
import scipy.sparse as sp

from .. import gen

DYADIC = [0.125, 0.25, 0.5, 1.0, 2.0, 4.0]


# ------------------------------------------------------------------ the problem at the time of the call
def first_row_flags(mapping, n):
    """boolean flag per variable 0..n-1: the flag of the first mapping row of the variable"""
    out = np.zeros(n, dtype=bool)
    if mapping is None or 'bool' not in mapping.columns:
        return out
    mm = mapping[~mapping.index.duplicated(keep='first')]
    for j in mm.index[np.array([bool(v) if (v is not None and v == v) else False for v in mm['bool']], dtype=bool)]:
        if 0 <= int(j) < n:
            out[int(j)] = True
    return out


def block_sum(ops):
    """the block-diagonal sum of interval problems as one problem (namespace with c, l, u, A, b, cType, mapping, sizes)"""
    import pandas as pd
    sizes = [len(o.c) for o in ops]
    offs = np.concatenate([[0], np.cumsum(sizes)]).astype(int)
    n = int(offs[-1])
    rows, cols, vals, b, ct, flags = [], [], [], [], [], np.zeros(n, dtype=bool)
    r0 = 0
    for k, o in enumerate(ops):
        flags[offs[k]:offs[k + 1]] = first_row_flags(o.mapping, sizes[k])
        if o.A is None or o.A.shape[0] == 0:
            continue
        A = sp.coo_matrix(o.A)
        rows.append(A.row + r0)
        cols.append(A.col + offs[k])
        vals.append(A.data)
        b.append(np.asarray(o.b, dtype=float))
        ct += list(o.cType)
        r0 += A.shape[0]
    if r0:
        A = sp.csr_matrix((np.concatenate(vals), (np.concatenate(rows), np.concatenate(cols))), shape=(r0, n))
        b = np.concatenate(b)
    else:
        A, b = None, np.zeros(0)
    mapping = pd.DataFrame({'bool': flags}, index=np.arange(n))
    return types.SimpleNamespace(c=np.concatenate([np.asarray(o.c, dtype=float) for o in ops]) if ops else np.zeros(0),
                                 l=np.concatenate([np.asarray(o.l, dtype=float) for o in ops]) if ops else np.zeros(0),
                                 u=np.concatenate([np.asarray(o.u, dtype=float) for o in ops]) if ops else np.zeros(0),
                                 A=A, b=b, cType=ct, mapping=mapping, sizes=sizes)


def snapshot(live):
    """deep copy of the problem as it stands now, in the form the oracles take (plain problem: the copy itself, with the flags
    reduced to one row per variable; split problem: the block sum of the copies of its intervals)"""
    cp = copy.deepcopy(live)
    ops = getattr(cp, 'ops', None)
    if ops is not None:
        return block_sum(ops)
    s = block_sum([cp])
    return s


def intervals_without_free_variable(live):
    ops = getattr(live, 'ops', None) or [live]
    return [k for k, o in enumerate(ops) if len(o.l) and bool(np.all(np.asarray(o.l) == np.asarray(o.u)))]


# ------------------------------------------------------------------ edits of a live problem between calls
EDITS = ['b_replace', 'b_replace', 'b_item', 'b_item', 'A_item', 'A_item', 'A_replace', 'ctype', 'row_add', 'row_del',
         'lower', 'upper', 'pin', 'cost', 'flag', 'none']


def _mag(v):
    return max(0.5, 2.0 ** round(float(np.log2(abs(v)))) if v else 0.5)


def _set_vec(rnd, t, name, j, v):
    """t.<name>[j] = v, in place or by replacing the array (drawn); returns how"""
    arr = getattr(t, name)
    if isinstance(arr, np.ndarray) and arr.dtype.kind == 'f' and arr.flags.writeable and rnd.random() < 0.5:
        arr[j] = v
        return 'in-place'
    new = np.array(arr, dtype=float)
    new[j] = v
    setattr(t, name, new)
    return 'replaced'


def apply_edit(rnd, live, x_prev=None, allow=None):
    """draws one edit and applies it to the live object (for a split problem: to one of its intervals, preferably one whose
    variables are all pinned); returns a JSON-able description.  x_prev: the vector returned by the previous call, if any."""
    ops = getattr(live, 'ops', None)
    k = None
    t = live
    if ops is not None:
        pinned = intervals_without_free_variable(live)
        k = rnd.choice(pinned) if pinned and rnd.random() < 0.6 else rnd.randrange(len(ops))
        t = ops[k]
        if x_prev is not None:
            o = int(sum(len(q.c) for q in ops[:k]))
            x_prev = np.asarray(x_prev, dtype=float)[o:o + len(t.c)] if len(x_prev) >= o + len(t.c) else None
    n = len(t.c)
    m = t.A.shape[0] if t.A is not None else 0
    if x_prev is not None and len(x_prev) != n:
        x_prev = None
    kinds = [e for e in EDITS if (allow is None or e in allow)]
    if ops is not None:
        kinds = [e for e in kinds if e != 'cost']      # the cost vector of a split problem is kept twice: not edited
    if m == 0:
        kinds = [e for e in kinds if e in ('lower', 'upper', 'pin', 'cost', 'flag', 'none', 'row_add')]
    if n == 0:
        return {'kind': 'none', 'interval': k}
    kind = rnd.choice(kinds or ['none'])
    d = {'kind': kind, 'interval': k}
    with warnings.catch_warnings():
        warnings.simplefilter('ignore')
        if kind in ('b_replace', 'b_item'):
            b = np.asarray(t.b, dtype=float)
            idx = sorted(rnd.sample(range(m), rnd.randint(1, min(3, m)))) if kind == 'b_replace' else [rnd.randrange(m)]
            ax = (sp.csr_matrix(t.A) @ x_prev) if x_prev is not None else b
            new = {}
            for i in idx:
                step = rnd.choice(DYADIC[:5]) * _mag(max(abs(b[i]), abs(ax[i])))
                new[i] = float(b[i] + rnd.choice([-1.0, 1.0]) * step)
            if kind == 'b_replace':
                nb = b.copy()
                for i, v in new.items():
                    nb[i] = v
                t.b = nb
                d['how'] = 'replaced'
            else:
                d['how'] = _set_vec(rnd, t, 'b', idx[0], new[idx[0]])
            d['rows'] = [[int(i), str(t.cType[i]), float(b[i]), float(v)] for i, v in new.items()]
        elif kind in ('A_item', 'A_replace'):
            i = rnd.randrange(m)
            row = sp.csr_matrix(t.A)[i]
            if row.nnz and rnd.random() < 0.8:
                j = int(rnd.choice(list(row.indices)))
                old = float(row[0, j])
                v = old * rnd.choice([-1.0, 0.5, 2.0, 0.25, 1.5])
            else:
                j = rnd.randrange(n)
                old = float(row[0, j])
                v = old + rnd.choice([-1.0, 1.0]) * rnd.choice(DYADIC[1:4])
            if kind == 'A_item' and (sp.isspmatrix_lil(t.A) or sp.isspmatrix_csr(t.A) or sp.isspmatrix_csc(t.A) or isinstance(t.A, np.ndarray)):
                t.A[i, j] = v           # in place, whatever (subscriptable) format the object holds at this time
                d['how'] = 'in-place:' + type(t.A).__name__
            else:
                A2 = sp.lil_matrix(t.A, copy=True)
                A2[i, j] = v
                t.A = A2 if rnd.random() < 0.5 else A2.tocsr()
                d['how'] = 'replaced:' + type(t.A).__name__
            d.update(row=int(i), var=int(j), old=old, new=float(v), row_kind=str(t.cType[i]))
        elif kind == 'ctype':
            cand = [i for i in range(m) if t.cType[i] in 'ULS']
            if not cand:
                d['kind'] = 'none'
            else:
                i = rnd.choice(cand)
                new = rnd.choice([c_ for c_ in 'ULS' if c_ != t.cType[i]])
                d.update(row=int(i), old=str(t.cType[i]), new=new)
                if isinstance(t.cType, str):
                    t.cType = t.cType[:i] + new + t.cType[i + 1:]
                    d['how'] = 'replaced'
                else:
                    t.cType[i] = new
                    d['how'] = 'in-place'
        elif kind == 'row_add':
            js = rnd.sample(range(n), rnd.randint(1, min(3, n)))
            co = [gen.q8(rnd, -2, 2) or 1.0 for _ in js]
            z = x_prev if x_prev is not None else np.where(np.isfinite(t.l), t.l, 0.0)
            at = float(sum(a * z[j] for a, j in zip(co, js)))
            rk = rnd.choice('ULS')
            rhs = at + rnd.choice([-1.0, -0.5, 0.0, 0.5, 1.0]) * _mag(at)
            newrow = sp.csr_matrix((co, ([0] * len(js), js)), shape=(1, n))
            if m:
                t.A = sp.vstack([sp.csr_matrix(t.A), newrow]).tolil()
                t.b = np.append(np.asarray(t.b, dtype=float), rhs)
                t.cType = (t.cType + rk) if isinstance(t.cType, str) else (list(t.cType) + [rk])
            else:
                t.A, t.b, t.cType = newrow.tolil(), np.array([rhs]), rk
            d.update(vars=[int(j) for j in js], coeffs=[float(a) for a in co], rhs=float(rhs), row_kind=rk)
        elif kind == 'row_del':
            cand = [i for i in range(m) if t.cType[i] in 'ULS']
            if not cand or m < 2:
                d['kind'] = 'none'
            else:
                i = rnd.choice(cand)
                keep = [q for q in range(m) if q != i]
                d.update(row=int(i), row_kind=str(t.cType[i]))
                t.A = sp.csr_matrix(t.A)[keep, :].tolil()
                t.b = np.asarray(t.b, dtype=float)[keep]
                t.cType = ''.join(t.cType[q] for q in keep) if isinstance(t.cType, str) else [t.cType[q] for q in keep]
        elif kind in ('lower', 'upper', 'pin'):
            cand = [j for j in range(n) if np.isfinite(t.l[j]) and np.isfinite(t.u[j])]
            if not cand:
                d['kind'] = 'none'
            else:
                j = rnd.choice(cand)
                lo, hi = float(t.l[j]), float(t.u[j])
                v = lo + rnd.choice([0.0, 0.25, 0.5, 0.75, 1.0]) * (hi - lo)
                d.update(var=int(j), old=[lo, hi], new=float(v))
                if kind in ('lower', 'pin'):
                    d['how'] = _set_vec(rnd, t, 'l', j, v)
                if kind in ('upper', 'pin'):
                    d['how'] = _set_vec(rnd, t, 'u', j, v)
        elif kind == 'cost':
            j = rnd.randrange(n)
            old = float(t.c[j])
            v = old + rnd.choice([-1.0, 1.0]) * rnd.choice(DYADIC) * _mag(old)
            if rnd.random() < 0.3:
                v = -old
            d.update(var=int(j), old=old, new=float(v), how=_set_vec(rnd, t, 'c', j, v))
        elif kind == 'flag':
            mp = t.mapping
            if mp is None or ('bool' in mp.columns and mp['bool'].isna().any()):
                d['kind'] = 'none'
            else:
                if 'bool' not in mp.columns:
                    mp['bool'] = False
                fl = first_row_flags(mp, n)
                on = [j for j in range(n) if fl[j]]
                # take a flag back, or flag a variable whose box contains 0 or 1
                off = [j for j in range(n) if not fl[j] and ((t.l[j] <= 0 <= t.u[j]) or (t.l[j] <= 1 <= t.u[j]))]
                if on and (not off or rnd.random() < 0.5):
                    j, val = rnd.choice(on), False
                elif off:
                    j, val = rnd.choice(off), True
                else:
                    j = None
                if j is None or j not in set(int(q) for q in mp.index):
                    d['kind'] = 'none'
                else:
                    col = mp['bool'].astype(bool).to_numpy().copy()
                    col[np.asarray(mp.index) == j] = val
                    mp['bool'] = col
                    d.update(var=int(j), new=bool(val))
    # the edited problem is well formed
    m2 = t.A.shape[0] if t.A is not None else 0
    assert m2 == 0 or (len(t.b) == m2 and len(t.cType) == m2 and t.A.shape[1] == len(t.c)), 'edit broke the shape of the problem'
    assert len(t.l) == len(t.c) == len(t.u) and bool(np.all(np.asarray(t.l) <= np.asarray(t.u)))
    return d


# ------------------------------------------------------------------ hand-made split problems
PINS = [None, 'point', 'point', 'shift', 'shift', 'frac', 'corner']


def gen_splitraw(rnd, gen_raw, pin_prob=0.5):
    """2-4 raw problems as the intervals of a split problem, each with a drawn pin (None = free)"""
    k = rnd.randint(2, 4)
    ivs = [gen_raw(rnd) for _ in range(k)]
    pins = [rnd.choice(PINS[1:]) if rnd.random() < pin_prob else None for _ in range(k)]
    if pin_prob > 0 and all(p is None for p in pins) and rnd.random() < 0.8:
        pins[rnd.randrange(k)] = rnd.choice(PINS[1:])
    return {'kind': 'splitraw', 'intervals': ivs, 'pins': pins, 'pin_seed': rnd.getrandbits(32)}


def pin_point(rnd, op, how, ref_point):
    """the point an interval is pinned to.  point: a verified optimal point of the interval (ref_point; else the middle of the
    box) - satisfies rows and flags when given; shift: that point moved on some coordinates; frac: that point with a fractional
    value on the variables flagged boolean (all variables if none is flagged: then like shift); corner: lower or upper bound."""
    n = len(op.c)
    l = np.where(np.isfinite(op.l), op.l, np.where(np.isfinite(op.u), op.u - 1.0, 0.0))
    u = np.where(np.isfinite(op.u), op.u, l + 1.0)
    z = np.array(ref_point, dtype=float) if ref_point is not None else (l + u) / 2.0
    if how == 'shift':
        for j in rnd.sample(range(n), rnd.randint(1, min(2, n))):
            z[j] += rnd.choice([-1.0, 1.0]) * rnd.choice(DYADIC[:4])
    elif how == 'frac':
        fl = first_row_flags(op.mapping, n)
        js = [j for j in range(n) if fl[j]] or list(range(n))
        for j in rnd.sample(js, rnd.randint(1, len(js))):
            z[j] = np.floor(z[j]) + rnd.choice([0.25, 0.5, 0.75])
    elif how == 'corner':
        z = np.array([rnd.choice([l[j], u[j]]) for j in range(n)], dtype=float)
    return z


def build_splitraw(base, build_raw, ref_point_of):
    """SplitOptimProblem of the raw intervals with the pins applied; ref_point_of(op) -> verified optimal point or None"""
    import pandas as pd
    from eaopack.optimization import SplitOptimProblem
    rnd = random.Random(base['pin_seed'])
    ops, maps, off, applied = [], [], 0, []
    for raw, pin in zip(base['intervals'], base['pins']):
        op = build_raw(raw)
        if pin is not None:
            z = pin_point(rnd, op, pin, ref_point_of(op))
            op.l = z.copy()
            op.u = z.copy()
        applied.append(pin)
        mp = op.mapping.copy()
        mp.index = mp.index + off
        mp['time_step'] = len(ops)
        maps.append(mp)
        off += len(op.c)
        ops.append(op)
    return SplitOptimProblem(ops, pd.concat(maps))


# ------------------------------------------------------------------ split set-up of a portfolio, pinned to an earlier solution
def steps_of_intervals(sop):
    """time steps (positions on the grid) of the variables of each interval, from the mapping of the split problem"""
    sizes = [len(o.c) for o in sop.ops]
    offs = np.cumsum([0] + sizes)
    m = sop.mapping
    idx = np.asarray(m.index, dtype=np.int64)
    stp = np.asarray(m['time_step'], dtype=np.int64)
    return [sorted(set(int(t) for t in stp[(idx >= offs[j]) & (idx < offs[j + 1])])) for j in range(len(sizes))]


def refix(rnd, rec, x_base, x_soft=None):
    """sets the portfolio of rec up again as a split problem with fix_time_window over whole intervals, pinned to x_base changed
    as drawn; returns (new split problem, description) or (None, reason)"""
    sop, tg, portf = rec['op'], rec['tg'], rec['portf']
    n_iv = len(sop.ops)
    steps_iv = steps_of_intervals(sop)
    r = rnd.random()
    if n_iv == 1 or r < 0.15:
        chosen, which = list(range(n_iv)), 'all'
    elif r < 0.7:
        chosen, which = list(range(rnd.randint(1, n_iv - 1))), 'prefix'
    else:
        chosen, which = sorted(rnd.sample(range(n_iv), rnd.randint(1, n_iv - 1))), 'subset'
    steps = sorted(set(t for j in chosen for t in steps_iv[j]))
    T = int(tg.T)
    steps = [t for t in steps if 0 <= t < T]
    if not steps:
        return None, 'nothing-to-pin'
    mask = np.zeros(T, dtype=bool)
    mask[steps] = True
    form = rnd.choice(['mask', 'index', 'date'])
    if form == 'date' and steps == list(range(steps[-1] + 1)):
        I_arg = tg.timepoints[steps[-1]].to_pydatetime()
    elif form == 'index':
        I_arg = np.array(steps, dtype=int)
    else:
        form, I_arg = 'mask', mask.copy()
    x = np.array(x_base, dtype=float)
    modes = ['exact', 'shift', 'shift', 'shift'] + (['soft', 'soft', 'frac', 'frac'] if x_soft is not None else [])
    mode = rnd.choice(modes)
    # variables of the chosen intervals that have a step in the window
    m = sop.mapping
    idx = np.asarray(m.index, dtype=np.int64)
    inwin = sorted(set(int(i) for i, t in zip(idx, np.asarray(m['time_step'], dtype=np.int64)) if 0 <= t < T and mask[t] and 0 <= i < len(x)))
    moved = []
    if mode == 'shift' and inwin:
        for j in rnd.sample(inwin, rnd.randint(1, min(3, len(inwin)))):
            dlt = rnd.choice([-1.0, 1.0]) * rnd.choice(DYADIC[:4]) * _mag(x[j])
            x[j] += dlt
            moved.append([int(j), float(dlt)])
    elif mode == 'soft':
        x = np.array(x_soft, dtype=float)
    elif mode == 'frac':
        fl = block_sum(sop.ops).mapping['bool'].to_numpy()
        js = [j for j in inwin if fl[j]]
        if not js:
            mode = 'exact'
        for j in (rnd.sample(js, rnd.randint(1, min(2, len(js)))) if js else []):
            v = rnd.choice([0.25, 0.5, 0.75])
            moved.append([int(j), float(v - x[j])])
            x[j] = v
    from ..impl import Quiet
    with Quiet():
        new = portf.setup_split_optim_problem(rec['prices'], tg, interval_size=rec['split'], fix_time_window={'I': I_arg, 'x': x})
    return new, {'which': which, 'intervals': chosen, 'form': form, 'mode': mode, 'moved': moved,
                 'intervals_without_free_variable': len(intervals_without_free_variable(new)), 'n_intervals': len(new.ops)}
