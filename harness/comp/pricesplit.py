"""C18 in the split set-up — the nodal price table of a split optimisation (pkg-c18split).

Real code: `Portfolio.setup_split_optim_problem` -> `SplitOptimProblem.optimize` -> `io.extract_output(...)['prices']`.
Model: `EAO/Model/PriceSplit.lean` (`splitNodal`, `splitDuals`, `splitPrices`, `dualsOfKind`, `readSplitPrices`, `nodalLast`),
driver op `split_prices` (`EAO/Driver/PriceSplit.lean`).

Per generated case
* correspondence: the interval problems of the real split set-up and the solver's own duals, un-stacked per interval and row type
  (the inverse of `np.hstack`, by the number of rows of each type in each interval) and put into row order, go to the model;
  `read` (= `EAO.readSplitPrices`) must be EXACTLY the table `extract_output` wrote: same cells, same labels (original step,
  node), same values (the sign flip is exact in floating point); `nodal` must be `SplitOptimProblem.map_nodal_restr`;
* cross-check of `lagrangian_block_sum` / `signOK_block_sum` on the real problems: with the sign-projected multipliers (as
  `props.c18.multipliers`: reported prices on the nodal rows) the driver's exact bound of the block sum equals the sum of the
  interval bounds, the stack is sign-correct iff the parts are; the exact gap `ub - V` of the split run is the `Σ gap_i` of
  `price_supergradient_split` (oracle `split_price_gap`);
* statement-level oracle on the real code alone (`split_reopt`): the interval that holds a (node, step) is re-optimised with the
  nodal right-hand side perturbed by `-d`; the new split value must be at most `V + price*d` (+ tolerance);
* hypothesis of `price_supergradient_unsplit`: where the C14 witness holds for the case, it is evaluated again (driver op
  `split_witness`) for the unsplit problem and the interval problems WITH the injection.
"""
import copy
import json
import random
from fractions import Fraction

import numpy as np

from ..impl import problem_json
from ..lean import fs

M = 'EAO.Properties.C18Split'
THEOREMS_C18_SPLIT = [
    (M, 'EAO.C18S.lagrangian_block_sum',
     'the exact Lagrangian bound of the block-diagonal sum of the interval problems at the stacked multipliers (np.hstack) is the sum of the interval bounds'),
    (M, 'EAO.C18S.signOK_block_sum', 'the stacked multipliers are sign-correct for the block sum iff every interval\'s multipliers are sign-correct for its problem'),
    (M, 'EAO.C18S.blockSum_wf', 'the block sum of well-formed interval problems is well-formed (column indices, bound lengths)'),
    (M, 'EAO.C18S.split_price_entry',
     'the entry of the split price table for nodal row k of interval i sits at position nodalOffset(i)+k, is labelled with the interval\'s own (ORIGINAL step, node) and '
     'carries -dualN_i[k] — provided every interval delivers as many N duals as its nodal record has entries'),
    (M, 'EAO.C18S.inject_block_sum', 'an injection at a (node, step) into the block sum is the block sum with the injection in the one interval that holds the step'),
    (M, 'EAO.C18S.price_supergradient_split',
     'C18 for a split optimisation: every point feasible for the block sum with an injection d (either sign) at a (node, original step) has value <= V + price*d + sum of the interval gaps, '
     'V = sum of the interval optima, price = the entry the split read-out writes for that node and step'),
    (M, 'EAO.C18S.price_supergradient_split_readout',
     'the same with the table computed by the model of the read-out from the interval multiplier vectors (duals per row type, stacked, sign flipped, placed by the concatenated record), '
     'for interval problems whose N rows are exactly their last nodal rows'),
    (M, 'EAO.C18S.price_supergradient_unsplit',
     'under the C14 witness between the unsplit problem with the injection and the interval problems with the injection, every feasible point of the UNSPLIT problem obeys the same bound '
     'with the split run\'s value, price table and gaps'),
    (M, 'EAO.C18S.slp_readout_row',
     'SLP: make_slp repeats the N rows per sample but not map_nodal_restr, so the read-out reports minus the multiplier of the ORIGINAL scenario\'s copy of the nodal row only'),
    (M, 'EAO.C18S.slp_price_supergradient',
     'SLP: the value with an injection d at a (node, step) in every scenario is <= V + (sum over the samples+1 scenario copies of minus the row multiplier)*d + gap'),
    (M, 'EAO.C18S.slp_price_scaling',
     'SLP: when the scenario copies of the nodal row carry the same multiplier, the slope is (samples+1) times the reported price — reported price = marginal value / (samples+1)'),
]

KINDS = 'ULSN'


# ------------------------------------------------------------------ generator
def gen_case(rnd):
    from .. import gen
    kinds = rnd.choice([['simple', 'transport', 'multi_nt', 'simple', 'plant_lp'],
                        ['simple', 'transport', 'storage_se', 'storage_se'],
                        ['contract', 'contract', 'ext_transport', 'simple'],
                        ['simple', 'simple', 'transport', 'storage_se', 'contract']])
    s = gen.gen_portfolio(rnd, tmax=12, tz_prob=0.1, kinds=kinds, allow_mip=False, allow_periodic=False, allow_freq=False,
                          allow_blocks=False)
    s['parts'] = rnd.choice([2, 2, 3, 4])
    s['odd'] = rnd.random() < 0.3
    s['pick'] = rnd.getrandbits(32)
    return s


def interval_of(scn, tg):
    T = tg.T
    step = scn['grid']['step_s']
    k = max(1, T // scn['parts'])
    if scn['odd'] and T > 2:
        k = max(1, k) + (1 if (T % max(1, k)) == 0 else 0)
    tot = step * k
    return ('%dmin' % (tot // 60)) if tot % 3600 else ('%dh' % (tot // 3600))


# ------------------------------------------------------------------ real code
def unstack(ops, duals):
    """per interval: row type -> the interval's slice of the stacked dual array (inverse of np.hstack by row counts)"""
    pos = {k: 0 for k in KINDS}
    out = []
    for op in ops:
        d = {}
        for k in KINDS:
            n = op.cType.count(k)
            if n == 0:
                continue
            arr = duals.get(k)
            if arr is None:
                return None
            arr = np.atleast_1d(arr)
            d[k] = [float(v) for v in arr[pos[k]:pos[k] + n]]
            if len(d[k]) != n:
                return None
            pos[k] += n
        out.append(d)
    for k in KINDS:
        arr = duals.get(k)
        if arr is not None and len(np.atleast_1d(arr)) != pos[k]:
            return None
    return out


def in_row_order(op, d, project=False, prices=None):
    """the multiplier vector of one interval in row order.  project=False: the solver's own numbers (N rows: duals['N']);
    project=True: sign-correct (U: max(0,v), L: min(0,-v)) with MINUS THE REPORTED PRICE on the nodal rows"""
    cnt = {k: 0 for k in KINDS}
    extra = max(0, op.cType.count('N') - len(op.map_nodal_restr))
    y = []
    for k in op.cType:
        i = cnt[k]
        cnt[k] += 1
        v = d[k][i]
        if not project:
            y.append(v)
        elif k == 'N' and i >= extra:
            t, n = op.map_nodal_restr[i - extra]
            y.append(-float(prices[(int(t), str(n))]))
        elif k == 'U':
            y.append(max(0.0, v))
        elif k == 'L':
            y.append(min(0.0, -v))
        else:
            y.append(v)
    return y


def run_impl(case):
    """set up, optimise and read out the split problem with the real code"""
    import eaopack as eao
    from .. import pf, impl, scen
    from ..impl import Quiet
    r = {'status': 'ok'}
    try:
        portf, tg, prices, _ = scen.build(case)
        interval = interval_of(case, tg)
        with Quiet():
            sop = portf.setup_split_optim_problem(prices, tg, interval_size=interval)
    except Exception as e:
        return {'status': 'setup-error:' + impl.err_class(e)}
    r.update(portf=portf, tg=tg, prices=prices, op=sop, interval=interval)
    if pf.is_mip(sop):
        r['status'] = 'mip'
        return r
    try:
        res = impl.solve(sop)
    except Exception as e:
        if type(e).__name__ != 'SolverError':
            raise
        r['status'] = 'solver-error'
        return r
    if isinstance(res, str):
        r['status'] = 'unsolved'
        return r
    r['res'] = res
    if res.duals is None:
        r['status'] = 'no-duals'
        return r
    with Quiet():
        out = eao.io.extract_output(portf, sop, res, prices)
    r['out'] = out
    pr = out['prices']
    cells = {}
    for col in pr.columns:
        if not str(col).startswith('nodal price: '):
            continue
        node = str(col)[len('nodal price: '):]
        vals = pr[col].values
        for t in range(len(vals)):
            if not np.isnan(vals[t]):
                cells[(t, node)] = float(vals[t])
    r['cells'] = cells
    r['parts'] = unstack(sop.ops, res.duals)
    if r['parts'] is None:
        r['status'] = 'duals-not-per-row'
    return r


def request(case, ri, project=False):
    ops = ri['op'].ops
    ys = [in_row_order(op, d, project=project, prices=ri['cells']) for op, d in zip(ops, ri['parts'])]
    req = {'op': 'split_prices', 'intervals': ri.get('ops_json') or [problem_json(o) for o in ops],
           'ys': [[fs(v) for v in y] for y in ys]}
    if not project:
        req['dualNs'] = [[fs(v) for v in d.get('N', [])] for d in ri['parts']]
    return req


def compare(case, ri, model):
    """disagreements between the real price table / nodal record and the model's"""
    dis = []
    sop = ri['op']
    rec = [[int(t), str(n)] for (t, n) in (sop.map_nodal_restr or [])]
    if model['nodal'] != rec:
        dis.append('nodal record: model %s, SplitOptimProblem.map_nodal_restr %s' % (model['nodal'][:6], rec[:6]))
    for key in ('read', 'prices'):
        tab = {}
        for t, n, v in model[key]:
            tab[(int(t), str(n))] = Fraction(v)       # later entries overwrite (duals.loc[...] = ...)
        if set(tab) != set(ri['cells']):
            dis.append('%s: cells differ: only model %s, only real %s' % (key, sorted(set(tab) - set(ri['cells']))[:4], sorted(set(ri['cells']) - set(tab))[:4]))
            continue
        for cell, v in tab.items():
            if Fraction(ri['cells'][cell]) != v:
                dis.append('%s: price at %s: model %s, real %r' % (key, cell, float(v), ri['cells'][cell]))
                break
    if not all(model['nodal_last']):
        dis.append('an interval problem has N rows that are not its last nodal rows: %s' % model['nodal_last'])
    return dis


def oracle(case, ri, model_proj=None, tol=None):
    """violations of the statement on the real code: exact gap of the reported table (needs the driver's answer for the
    projected multipliers) and re-optimisation of single intervals with a perturbed nodal right-hand side"""
    from .. import impl
    vio = []
    sop, res = ri['op'], ri['res']
    V = float(res.value)
    scale = max(1.0, abs(V), max([abs(float(v)) for o in sop.ops for v in o.c] + [0.0]) * max([abs(float(v)) for o in sop.ops for v in list(o.l) + list(o.u)] + [0.0]))
    tol = tol if tol is not None else 2e-5 * scale
    if model_proj is not None:
        gap = float(Fraction(model_proj['ub']) - Fraction(V))
        ri['gap'] = gap
        if gap > tol:
            vio.append({'oracle': 'split_price_gap', 'detail': 'the price table of the split run leaves an exact Lagrangian gap of %.6g for the block sum (value %.8g, tolerance %.2g)' % (gap, V, tol),
                        'facts': {'what': 'gap'}})
    # re-optimisation of one interval with a perturbed nodal right-hand side
    rnd = random.Random(case.get('pick', 0))
    pairs = [(i, k) for i, o in enumerate(sop.ops) for k in range(len(o.map_nodal_restr))]
    rnd.shuffle(pairs)
    off = np.cumsum([0] + [len(o.c) for o in sop.ops])
    ri['reopt'] = 0
    for i, k in pairs[:2]:
        o = sop.ops[i]
        nrows = [j for j, c in enumerate(o.cType) if c == 'N']
        nrows = nrows[len(nrows) - len(o.map_nodal_restr):]
        t, n = o.map_nodal_restr[k]
        price = ri['cells'].get((int(t), str(n)))
        if price is None:
            continue
        Vi = -float(np.dot(o.c, res.x[off[i]:off[i + 1]]))
        for d in (rnd.choice([0.125, 0.5, 1.0]), -rnd.choice([0.125, 0.5, 1.0])):
            o2 = copy.deepcopy(o)
            b = np.array(o2.b, dtype=float)
            b[nrows[k]] += -d
            o2.b = b
            try:
                r2 = impl.solve(o2)
            except Exception:
                continue
            if isinstance(r2, str):
                continue
            ri['reopt'] += 1
            V2 = V - Vi + float(r2.value)
            if V2 > V + price * d + tol:
                vio.append({'oracle': 'split_reopt', 'detail': 'injection %g at node %s step %d (interval %d): re-optimised split value %.8g > value %.8g + price %.6g * d (tolerance %.2g)'
                            % (d, n, t, i, V2, V, price, tol), 'facts': {'what': 'reopt', 'd': d}})
    return vio


def injected_witness(case, ri, drv):
    """hypothesis of `price_supergradient_unsplit` on the real problems: (base witness, witness with the injection) or None"""
    from .. import pf
    from .split import perm_from_mappings
    try:
        rec = pf.setup_mono(case)
    except Exception:
        return None
    perm = perm_from_mappings({'op': ri['op']}, rec)
    if perm is None:
        return None
    U = problem_json(rec['op'])
    Ps = ri.get('ops_json') or [problem_json(o) for o in ri['op'].ops]
    base = drv.ok({'op': 'split_witness', 'problem': U, 'intervals': Ps, 'perm': [int(i) for i in perm]})
    if not base['witness']:
        return (False, None)
    rnd = random.Random(case.get('pick', 0) + 1)
    pairs = [(i, k) for i, P in enumerate(Ps) for k in range(len(P.get('nodal', [])))]
    if not pairs:
        return (True, None)
    i, k = rnd.choice(pairs)
    d = Fraction(rnd.choice([1, -1, 3])) / 2
    t, n = Ps[i]['nodal'][k]
    kU = U['nodal'].index([t, n]) if [t, n] in U['nodal'] else None
    if kU is None:
        return (True, 'label-missing')

    def inj(P, kk):
        Q = copy.deepcopy(P)
        row = Q['rows'][len(Q['rows']) - len(Q['nodal']) + kk]
        key = 'rhs' if isinstance(row, dict) else None
        if key is None:
            raise RuntimeError('row format')
        row['rhs'] = fs(Fraction(row['rhs']) - d)
        return Q
    Ps2 = list(Ps)
    Ps2[i] = inj(Ps[i], k)
    ans = drv.ok({'op': 'split_witness', 'problem': inj(U, kU), 'intervals': Ps2, 'perm': [int(j) for j in perm]})
    return (True, bool(ans['witness']), ans.get('reason', ''))


# ------------------------------------------------------------------ SLP probe (reading of slp_readout_row / slp_price_supergradient / slp_price_scaling)
def slp_probe(pA=(10., 10.), sample=(10., 20.)):
    """the reported nodal prices of a small `make_slp` result against the re-optimised value with an injection of +-1 at the node:
    supply A (0..4, price pA), sink B (0..3, price 50), two hourly steps, step 1 is the future, one sample for pA.
    Returns {step: {'reported', 'n_scen', 'duals_of_copies', 'marginal_plus', 'marginal_minus'}}: the marginal value is the SUM of
    minus the duals of the scenario copies of the nodal row; the table shows the first copy only (marginal / (samples+1) when the
    copies agree)."""
    import datetime as dt
    import eaopack as eao
    from eaopack.stoch_lin_prog import make_slp
    from ..impl import Quiet
    node = eao.assets.Node('n')
    tg = eao.assets.Timegrid(dt.datetime(2021, 1, 1), dt.datetime(2021, 1, 1, 2), freq='h')

    def build(extra=None):
        assets = [eao.assets.SimpleContract(name='A', nodes=node, min_cap=0, max_cap=4, price='pA'),
                  eao.assets.SimpleContract(name='B', nodes=node, min_cap=-3, max_cap=0, price='pB')]
        if extra is not None:
            t, d = extra
            assets.append(eao.assets.SimpleContract(name='inj', nodes=node, start=tg.timepoints[t],
                                                    end=(tg.timepoints[t + 1] if t + 1 < tg.T else tg.end), min_cap=d, max_cap=d))
        portf = eao.portfolio.Portfolio(assets)
        prices = {'pA': np.array(pA, dtype=float), 'pB': np.array([50., 50.])}
        samples = [{'pA': np.array(sample, dtype=float), 'pB': np.array([50., 50.])}]
        with Quiet():
            op = portf.setup_optim_problem(prices, tg)
            slp = make_slp(op, portf, tg, start_future=tg.timepoints[1], samples=samples)
            res = slp.optimize()
            out = eao.io.extract_output(portf, slp, res, prices)
        return res, out, slp
    res, out, slp = build()
    nn = len(slp.map_nodal_restr)
    dN = np.atleast_1d(res.duals['N'])
    ans = {}
    for t in range(2):
        ans[t] = {'reported': float(out['prices']['nodal price: n'].values[t]), 'n_scen': len(dN) // nn,
                  'duals_of_copies': [float(dN[s * nn + t]) for s in range(len(dN) // nn)],
                  'marginal_plus': float(build((t, 1.))[0].value - res.value),
                  'marginal_minus': float(res.value - build((t, -1.))[0].value)}
    return ans


# ------------------------------------------------------------------ self-test
def run_case(case, drv):
    st = {'status': None, 'disagreements': [], 'violations': []}
    ri = run_impl(case)
    st['status'] = ri['status']
    if ri['status'] != 'ok':
        return st, ri
    ri['ops_json'] = [problem_json(o) for o in ri['op'].ops]
    m = drv.ok(request(case, ri, project=False))
    st['disagreements'] += compare(case, ri, m)
    # every nodal restriction of every interval must have its price in the reported table (a missing cell is a failing input by
    # itself: the price of a node in a step with a nodal restriction is not reported at all)
    for o in ri['op'].ops:
        for (t, n) in o.map_nodal_restr:
            if (int(t), str(n)) not in ri['cells']:
                st['violations'].append({'oracle': 'split_price_gap', 'detail': 'the price table of the split run reports no price (NaN / no cell) for node %s in step %d although the nodal restriction of that node and step exists' % (n, int(t)),
                                         'facts': {'what': 'missing_cell', 'node': str(n), 'step': int(t)}})
                return st, ri
    mp = drv.ok(request(case, ri, project=True))
    ubs = [Fraction(v) for v in mp['ubs']]
    if Fraction(mp['ub']) != sum(ubs, Fraction(0)):
        st['disagreements'].append('lagrangian_block_sum: bound of the block sum %s, sum of the interval bounds %s' % (mp['ub'], sum(ubs)))
    if bool(mp['signok']) != all(mp['signoks']):
        st['disagreements'].append('signOK_block_sum: stack %s, parts %s' % (mp['signok'], mp['signoks']))
    if not mp['signok']:
        st['disagreements'].append('projected multipliers not sign-correct')
    # the projected table is the reported one
    for t, n, v in mp['read']:
        if Fraction(v) != Fraction(ri['cells'][(int(t), str(n))]):
            st['disagreements'].append('projected multipliers do not carry the reported price at (%d, %s)' % (t, n))
            break
    st['violations'] += oracle(case, ri, mp)
    st['gap'] = ri.get('gap')
    st['reopt'] = ri.get('reopt', 0)
    st['entries'] = len(m['read'])
    st['intervals'] = len(ri['op'].ops)
    st['witness'] = injected_witness(case, ri, drv)
    return st, ri


def selftest(n, seed, drv, verbose=False):
    rs = random.Random(seed)
    tot = {'cases': 0, 'ok': 0, 'entries': 0, 'multi_interval': 0, 'reopt': 0, 'status': {}, 'disagreements': [], 'violations': [],
           'witness_base_true': 0, 'witness_injected_true': 0, 'witness_injected_false': [], 'max_gap': 0.0}
    for i in range(n):
        case = gen_case(random.Random(rs.getrandbits(48)))
        st, _ = run_case(case, drv)
        tot['cases'] += 1
        tot['status'][st['status']] = tot['status'].get(st['status'], 0) + 1
        if st['status'] != 'ok':
            continue
        tot['ok'] += 1
        tot['entries'] += st['entries']
        tot['multi_interval'] += 1 if st['intervals'] > 1 else 0
        tot['reopt'] += st['reopt']
        if st.get('gap') is not None:
            tot['max_gap'] = max(tot['max_gap'], st['gap'])
        w = st['witness']
        if w and w[0]:
            tot['witness_base_true'] += 1
            if len(w) > 1 and w[1] is True:
                tot['witness_injected_true'] += 1
            elif len(w) > 1 and w[1] is False:
                tot['witness_injected_false'].append((i, w[2]))
        for d in st['disagreements']:
            tot['disagreements'].append((i, d))
        for v in st['violations']:
            tot['violations'].append((i, v['oracle'], v['detail']))
        if verbose and (st['disagreements'] or st['violations']):
            print(i, st['disagreements'][:2], [v['detail'] for v in st['violations']][:2])
    return tot


if __name__ == '__main__':
    import sys
    from .split import ScratchDriver
    drv = ScratchDriver(sys.argv[1])
    out = selftest(int(sys.argv[2]), int(sys.argv[3]), drv, verbose=True)
    drv.close()
    print(json.dumps({k: (v if not isinstance(v, list) else v[:10]) for k, v in out.items()}, indent=1, default=str))
