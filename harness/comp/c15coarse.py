"""C15 on assets with an OWN, COARSER frequency (`freq`) - in particular those that also carry INTERNAL variables - and windows
that cut THROUGH their coarse steps.

What "a variable belongs to a step" means there.  An asset with `freq` has its variables per COARSE step (one dispatch variable
or a charge / discharge pair, plus the boolean mode / "filled" variables of a storage with no_simult_in_out / max_store_duration);
a coarse step of the asset is made of the steps of the grid it covers (its minor steps).  Such a variable therefore belongs to
EVERY minor step of its coarse step - the dispatch variables and the internal ones alike - and a window that contains ANY minor
step of a coarse step (not necessarily the first one) pins all variables of that coarse step.

`cells_of` computes the coarse steps ("cells") from the SCENARIO alone (grid points, the asset's start / end / freq: cuts at
start + k * freq, complete cells only), not from the mapping the code produces; `belonging` closes the steps a variable is
labelled with in the mapping under these cells.  On the unchanged code the closure adds nothing (every variable of a coarse asset
has a mapping row at every minor step); a set-up that labels a variable with only some minor steps of its coarse step is caught.

Stream `cw*` (scenarios_cw): small portfolios (market per node; a Storage with freq = 2, 3, 4 or 6 grid steps with
no_simult_in_out (with an efficiency, costs or two nodes) and / or max_store_duration - sometimes wrapped in a ScaledAsset;
optionally a further coarse asset without internal variables, a storage with booleans at grid frequency, a plant with on / start
variables at grid frequency, and - as a probe, the class refuses it at present - a plant with a coarser frequency); the coarse
steps are anchored at the horizon start or at the asset's own start in the middle of the grid (cells then not aligned with the
horizon; a remainder of the horizon after the last complete cell); prices constant inside the coarse steps or free (idle coarse
steps - ties in the boolean variables - are frequent).  Windows: shapes defined relative to the cells (WINDOW_SHAPES), each in
the forms index mask (numpy / list of bools), step indices (list / int64 array) or - prefixes - date.

Ties (`tie_variants`): previous solutions that differ from the solver's one ONLY in internal boolean variables (a flip that keeps
feasibility and - booleans cost nothing - the value): every optimal previous solution has to be kept on the window.
"""
import random

import numpy as np
import pandas as pd

from .. import gen, pf

FINE = [('h', 'h', 3600), ('h', 'h', 3600), ('30min', 'h', 1800), ('15min', 'h', 900), ('2h', 'h', 7200), ('h', 'd', 3600), ('h', 'min', 3600)]

# window shapes relative to the coarse steps (cells) of the main coarse asset
WINDOW_SHAPES = ['cut-run', 'cut-run', 'cell-tail', 'single-inner', 'scatter', 'inner-all', 'aligned', 'prefix-cut', 'prefix-cut-date',
                 'first-only', 'cut-run', 'last-inner', 'two-cells-bridge']
WINDOW_FORMS = ['bool', 'boollist', 'list', 'array', 'bool', 'npboollist', 'array32']


def freq_str(seconds):
    return ('%dmin' % (seconds // 60)) if seconds % 3600 else ('%dh' % (seconds // 3600))


# ------------------------------------------------------------------------------------------ cells from the scenario
def grid_points(g):
    """points of the grid (without the end point) and its end, zone-aware if the grid is"""
    pts = pd.date_range(pd.Timestamp(g['start'], tz=g.get('tz')), pd.Timestamp(g['end'], tz=g.get('tz')), freq=g['freq'])
    return pts[:-1], pts[-1]


def _ts(v, tz):
    if v is None:
        return None
    t = pd.Timestamp(v['$dt'] if isinstance(v, dict) else v)
    if t.tzinfo is None and tz is not None:
        t = t.tz_localize(tz)
    return t


def cells_of(scn):
    """asset name (as it appears in the mapping) -> integer array over the grid steps: number of the asset's coarse step the grid
    step lies in, -1 where the asset has none.  Only plain assets with an own `freq` different from the grid's and ScaledAssets
    over such an asset (their variables carry the scaled asset's name; window = intersection of both windows)."""
    g = scn['grid']
    pts, gend = grid_points(g)
    tz = g.get('tz')
    out = {}
    for a in scn['assets']:
        spec, outer = a, None
        if a['type'] == 'ScaledAsset':
            spec, outer = a['base'], a
        elif a['type'] in ('StructuredAsset', 'LinkedAsset', 'OrderBook'):
            continue
        args = spec.get('args', {})
        f = args.get('freq')
        if f is None or f == g['freq']:
            continue
        try:
            td = pd.Timedelta(f)
        except Exception:
            td = pd.Timedelta(1, f)
        if td <= pd.Timedelta(seconds=g['step_s']):
            continue
        start, end = _ts(args.get('start'), tz), _ts(args.get('end'), tz)
        if outer is not None:
            s2, e2 = _ts(outer['args'].get('start'), tz), _ts(outer['args'].get('end'), tz)
            start = s2 if start is None else (start if s2 is None else max(start, s2))
            end = e2 if end is None else (end if e2 is None else min(end, e2))
        anchor = pts[0] if start is None else start
        stop = gend if end is None else end
        key = np.full(len(pts), -1, dtype=np.int64)
        for t, p in enumerate(pts):
            if p < anchor:
                continue
            k = int((p - anchor) // td)
            if anchor + (k + 1) * td <= stop:
                key[t] = k
        out[a['name']] = key
    return out


def belonging(m, steps, cells):
    """(variables belonging to a step of the window, variables that have a mapping row at a step of the window).
    m: mapping of the portfolio problem (index = variable); steps: the window; cells: result of cells_of.
    A variable belongs to the steps it is labelled with and - variable of an asset with a coarser frequency - to all minor steps
    of the coarse steps these lie in."""
    stepset = set(int(s) for s in steps)
    by_rows = set(int(i) for i in m.index[m['time_step'].isin(list(stepset))])
    full = set(by_rows)
    if not cells or not len(m) or 'asset' not in m.columns:
        return full, by_rows
    for name, key in cells.items():
        hit = set(int(key[s]) for s in stepset if 0 <= s < len(key) and key[s] >= 0)      # coarse steps the window meets
        if not hit:
            continue
        rows = m[(m['asset'] == name) & (m['type'].isin(['d', 'i']))]
        if not len(rows):
            continue
        ts = rows['time_step'].values.astype(np.int64)
        ok = (ts >= 0) & (ts < len(key))
        ks = np.where(ok, key[np.clip(ts, 0, len(key) - 1)], -1)
        for v, k in zip(rows.index.values, ks):
            if int(k) in hit:
                full.add(int(v))
    return full, by_rows


def cut_info(m, steps, cells):
    """features: does the window meet a coarse step of an asset without containing its FIRST minor step; does that asset carry internal variables"""
    feats = []
    stepset = set(int(s) for s in steps)
    for name, key in cells.items():
        cut = False
        for k in set(int(x) for x in key if x >= 0):
            mem = [int(t) for t in np.where(key == k)[0]]
            if stepset & set(mem) and mem[0] not in stepset:
                cut = True
                break
        if cut:
            feats.append('window-cuts-coarse-step')
            if 'asset' in m.columns and ((m['asset'] == name) & (m['type'] == 'i')).any():
                feats.append('window-cuts-coarse-step-of-asset-with-internal-variables')
    return sorted(set(feats))


# ------------------------------------------------------------------------------------------ previous solutions that differ in internal variables only
def tie_variants(op, x0, r2, prefer=(), max_variants=2, tol=1e-7):
    """optimal points of `op` that differ from x0 only in internal boolean variables: x0 with booleans flipped as long as all rows and
    bounds stay satisfied (booleans of this package carry no costs; a flip with costs is not taken).  `prefer`: variables tried first.
    Returns a list of (x, flipped variables)."""
    m = op.mapping
    if 'bool' not in m.columns:
        return []
    m1 = m[~m.index.duplicated(keep='first')]
    bl = [int(i) for i in m1.index[m1['bool'].fillna(False).astype(bool) & (m1['type'] == 'i')]]
    bl = [j for j in bl if op.c[j] == 0 and abs(x0[j] - round(x0[j])) < 1e-9 and op.l[j] <= 0 and op.u[j] >= 1]
    if not bl:
        return []
    base, _ = pf.feasibility_violation(op, x0)
    if base > tol:
        return []
    single = []
    for j in bl:
        x = x0.copy()
        x[j] = 1.0 - round(x0[j])
        if pf.feasibility_violation(op, x)[0] <= tol:
            single.append(j)
    if not single:
        return []
    out = []
    pref = [j for j in single if j in set(prefer)]
    orders = []
    if pref:
        orders.append(pref)                                          # only flips of variables the window reaches
    sh = list(single)
    r2.shuffle(sh)
    orders.append(pref + [j for j in sh if j not in pref])          # as many as stay feasible together
    orders.append([r2.choice(single)])                               # a single one
    seen = set()
    for order in orders:
        x, fl = x0.copy(), []
        for j in order:
            y = x.copy()
            y[j] = 1.0 - round(x0[j])
            if pf.feasibility_violation(op, y)[0] <= tol:
                x, fl = y, fl + [j]
        if fl and tuple(sorted(fl)) not in seen:
            seen.add(tuple(sorted(fl)))
            out.append((x, sorted(fl)))
        if len(out) >= max_variants:
            break
    return out


# ------------------------------------------------------------------------------------------ generator
def draw_window(r2, T, cells, shape):
    """steps of a window of the given shape; cells = list of lists of grid steps (the coarse steps of the main asset)"""
    inner = [t for c in cells for t in c[1:]]
    if shape == 'cut-run':
        a = r2.choice(inner)
        b = r2.randint(a, T - 1)
        return list(range(a, b + 1))
    if shape == 'cell-tail':
        c = r2.choice(cells)
        k = r2.randint(1, len(c) - 1)
        return c[k:]
    if shape == 'single-inner':
        return [r2.choice(inner)]
    if shape == 'last-inner':
        return [cells[-1][-1]]
    if shape == 'scatter':
        idx = [t for t in range(T) if r2.random() < 0.35]
        if not any(set(idx) & set(c) and c[0] not in idx for c in cells):
            c = r2.choice(cells)
            idx = sorted(set(idx) - {c[0]} | {r2.choice(c[1:])})
        return idx
    if shape == 'inner-all':
        return inner
    if shape == 'aligned':
        return [t for c in r2.sample(cells, r2.randint(1, len(cells))) for t in c]
    if shape in ('prefix-cut', 'prefix-cut-date'):
        return list(range(0, r2.choice(inner) + (0 if r2.random() < 0.5 else 1)))
    if shape == 'first-only':
        return [c[0] for c in r2.sample(cells, r2.randint(1, len(cells)))]
    if shape == 'two-cells-bridge':
        i = r2.randint(0, max(0, len(cells) - 2))
        a, b = cells[i], cells[min(i + 1, len(cells) - 1)]
        return sorted(set(a[r2.randint(1, len(a) - 1):] + b[:r2.randint(1, len(b))]))
    raise ValueError(shape)


def gen_case(r2, i, seed):
    freq, unit, step_s = r2.choice(FINE)
    mult = r2.choice([2, 2, 3, 4, 4, 6])
    ncell = r2.randint(2, 5 if mult <= 3 else 3)
    lead = r2.choice([0, 0, 0, 1, r2.randint(1, mult)])          # coarse steps anchored at the asset's own start inside the grid
    tail = r2.choice([0, 0, 0, 1, r2.randint(0, mult - 1)])      # rest of the horizon after the last coarse step
    own_end = tail > 0 and r2.random() < 0.5                    # remainder cut off by the asset's own end or left to the code (incomplete last cell)
    T = lead + ncell * mult + tail
    start = pd.Timestamp('2021-01-01') + r2.choice([0, 0, 6, 24]) * gen.H
    tz = r2.choice(['CET', 'UTC', 'US/Eastern']) if r2.random() < 0.1 else None
    g = {'start': gen.iso(start), 'end': gen.iso(start + T * pd.Timedelta(seconds=step_s)), 'freq': freq, 'unit': unit, 'tz': tz,
         'T_nominal': T, 'step_s': step_s}
    gen.fix_grid(g)
    cf = step_s * mult
    cells = [list(range(lead + c * mult, lead + (c + 1) * mult)) for c in range(ncell)]
    prices = {}
    nn = r2.choice([1, 1, 2])
    nodes = ['N%d' % k for k in range(1, nn + 1)]
    blocky = r2.random() < 0.6

    def price_series(lo=-4, hi=20):
        if not blocky:
            return [gen.q8(r2, lo, hi) for _ in range(T)]
        lv = {}
        out = []
        for t in range(T):
            k = (t - lead) // mult if t >= lead else -1
            if k not in lv:
                lv[k] = gen.q8(r2, lo, hi) if r2.random() < 0.7 else 8.0
            out.append(lv[k])
        return out
    assets = []
    for n in nodes:
        key = 'p%d' % len(prices)
        prices[key] = price_series()
        assets.append({'type': 'SimpleContract', 'name': 'mkt%d' % (len(assets) + 1), 'nodes': [n],
                       'args': {'min_cap': -40.0, 'max_cap': 40.0, 'price': key}})
    # the coarse asset with internal variables
    size = gen.q8(r2, 1, 8)
    hours = cf / 3600.0
    unit_per_h = {'h': 1.0, 'd': 1.0 / 24, 'min': 60.0}[unit]
    sa = {'size': size, 'cap_in': gen.q8(r2, 0.25, 4), 'cap_out': gen.q8(r2, 0.25, 4), 'freq': freq_str(cf)}
    r = r2.random()
    if r < 0.5:
        lvl = r2.choice([0.0, 0.0, gen.q8(r2, 0, size)])
        sa['start_level'], sa['end_level'] = lvl, lvl
    elif r < 0.7:
        sa['start_level'], sa['end_level'] = gen.q8(r2, 0, size), gen.q8(r2, 0, size)
    two = nn == 2 and r2.random() < 0.4
    kind = r2.choice(['nosimult', 'nosimult', 'nosimult', 'maxdur', 'both'])
    if kind in ('nosimult', 'both'):
        sa['no_simult_in_out'] = True
        opts = r2.sample(['eff', 'cin', 'cout'], r2.randint(0 if two else 1, 2))
        if 'eff' in opts:
            sa['eff_in'] = r2.choice([0.5, 0.75, 0.875])
        if 'cin' in opts:
            sa['cost_in'] = gen.q8(r2, 0.125, 1)
        if 'cout' in opts:
            sa['cost_out'] = gen.q8(r2, 0.125, 1)
    if kind in ('maxdur', 'both'):
        sa['max_store_duration'] = hours * unit_per_h * r2.randint(1, 2)
        if kind == 'maxdur' and r2.random() < 0.5:
            sa['eff_in'] = r2.choice([0.5, 0.75])
        if 'start_level' in sa:
            sa['start_level'] = sa['end_level'] = 0.0
    if r2.random() < 0.2:
        sa['cost_store'] = gen.q8(r2, 0, 0.25)
    if r2.random() < 0.25:
        key = 'p%d' % len(prices)
        prices[key] = price_series(0, 4)
        sa['price'] = key
    if lead:
        sa['start'] = gen.dtv(gen.P(g, lead))
    if own_end:
        sa['end'] = gen.dtv(gen.P(g, lead + ncell * mult))
    sto = {'type': 'Storage', 'name': 'cst', 'nodes': nodes[:2] if two else [r2.choice(nodes)], 'args': sa}
    if r2.random() < 0.12 and not two:
        sto['name'] = 'cst_b'
        sto = {'type': 'ScaledAsset', 'name': 'csc', 'base': sto,
               'args': {'min_scale': r2.choice([0.0, 0.5]), 'max_scale': r2.choice([1.0, 2.0]), 'norm_scale': r2.choice([1.0, 2.0]), 'fix_costs': gen.q8(r2, 0, 0.5)}}
    assets.append(sto)
    # company
    extra = r2.choice(['none', 'none', 'coarse_simple', 'coarse_transport', 'fine_mip_storage', 'plant', 'coarse_plant_probe', 'coarse_storage_lp'])
    if extra == 'coarse_simple':
        a = gen.gen_simple_contract(r2, g, prices, T, 'csc2', r2.choice(nodes), allow_opts=False)
        m2 = r2.choice([m_ for m_ in (2, 3, 4) if T % m_ == 0] or [None])
        if m2:
            a['args']['freq'] = freq_str(step_s * m2)
            assets.append(a)
    elif extra == 'coarse_transport' and nn == 2:
        a = gen.gen_transport(r2, g, prices, T, 'ctr', nodes[0], nodes[1])
        a['args'].pop('costs_time_series', None)
        m2 = r2.choice([m_ for m_ in (2, 3, 4) if T % m_ == 0] or [None])
        if m2:
            a['args']['freq'] = freq_str(step_s * m2)
            a['args'].pop('start', None)
            a['args'].pop('end', None)
            assets.append(a)
    elif extra == 'fine_mip_storage':
        a = gen.gen_storage(r2, g, prices, T, 'fst', [r2.choice(nodes)], allow_mip=False, allow_blocks=False)
        a['args']['no_simult_in_out'] = True
        a['args'].setdefault('eff_in', 0.5)
        assets.append(a)
    elif extra == 'plant':
        assets.append(gen.gen_plant(r2, g, prices, T, 'pl', [r2.choice(nodes)], chp=False, allow_mip=True))
    elif extra == 'coarse_plant_probe':
        a = gen.gen_plant(r2, g, prices, T, 'cpl', [r2.choice(nodes)], chp=False, allow_mip=True)
        if T % 2 == 0:
            a['args']['freq'] = freq_str(step_s * 2)
        assets.append(a)
    elif extra == 'coarse_storage_lp':
        a = gen.gen_storage(r2, g, prices, T, 'cst2', [r2.choice(nodes)], allow_mip=False, allow_blocks=False)
        m2 = r2.choice([m_ for m_ in (2, 3, 4) if T % m_ == 0] or [None])
        if m2:
            a['args']['freq'] = freq_str(step_s * m2)
            assets.append(a)
    if r2.random() < 0.3:
        r2.shuffle(assets)
    s = {'grid': g, 'nodes': nodes, 'prices': prices, 'assets': assets}
    shape = WINDOW_SHAPES[(i + seed) % len(WINDOW_SHAPES)]
    idx = draw_window(r2, T, cells, shape)
    if shape == 'prefix-cut-date' and idx:
        s['fix'] = {'mode': 'date', 'mask': None, 'k': max(idx)}
    else:
        form = WINDOW_FORMS[(i // len(WINDOW_SHAPES) + (i % len(WINDOW_SHAPES))) % len(WINDOW_FORMS)]
        s['fix'] = {'mode': 'index', 'mask': None, 'k': 0, 'idx': idx, 'shape': 'cw-' + shape, 'form': form}
    s['ties'] = True
    s['cw'] = {'mult': mult, 'lead': lead, 'tail': tail, 'cells': ncell, 'kind': kind, 'extra': extra}
    # split set-up: intervals of whole coarse steps when the cells are aligned with the horizon, else the default choice of the property module
    if lead == 0 and ncell >= 2:
        s['split_interval'] = freq_str(cf * max(1, ncell // 2))
    s['prices2'] = {key: ([gen.q8(r2, -4, 20) for _ in vals] if (key.startswith('p') and r2.random() < 0.6) else
                          ([float(v) for v in np.repeat([gen.q8(r2, -4, 20) for _ in range(T // mult + 2)], mult)[:T]] if key.startswith('p') else vals))
                    for key, vals in prices.items()}
    return s


def scenarios_cw(seed, tier):
    n = 156 if tier == 'quick' else 780
    rnd = random.Random(seed * 15485863 + 150015)
    for i in range(n):
        r2 = random.Random(rnd.getrandbits(48))
        yield 'cw%d' % i, gen_case(r2, i, seed)
