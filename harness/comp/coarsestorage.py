"""Correspondence of `Storage(freq=…)` (a storage WITH an own, coarser asset frequency) with the Lean model
`EAO.Model.CoarseStorage`, and the oracles of C13 / C05 for such storages on the real code alone.

Model side (driver op `coarse_storage`, handler `EAO.Driver.handleCoarseStorage`): the model gets the FULL grid (`ref`:
points, indices, dt, Dt and the asset's discount factors, all as the real `Timegrid` computed them), the asset's coarse
restricted grid as the real `Timegrid.set_restricted_grid(start, end, freq)` made it on a FRESH grid object (`coarse`: grid +
`I_minor_in_major`), the cuts `pd.date_range(start, end, freq)` and the lengths of both frequencies, the price data and the
storage's parameters (block starts `aa`: computed here with the pandas expression of the code on the COARSE points and handed
over as an input, as in `harness/comp/storage.py`).  It answers with the asset problem (c, l, u, rows in order, mapping
extended to the minor grid, in order) or the error class, says whether its own coarsening of `ref` along the cuts gives the
coarse grid it was handed (`coarsen`) and whether the builder run from the cuts (`mkCoarseStorageG`) gives the same answer
(`from_cuts`), with `fine: true` returns the FINE problem the theorems of `EAO/Properties/C13Storage.lean` compare the coarse
one with, and with `readout` the series `Storage.fill_level` / `io.extract_output` report for a solved portfolio.

A case is a plain JSON value:
  {kind: 'coarse_storage', grid: {start, end, freq, unit, tz}, prices: {key: [floats]},
   spec: {type: 'Storage', name, nodes, args (incl. freq, start, end, wacc)}, market: {node: {price, cap}}, order,
   exact: bool, features: [...]}

Oracles (real code only, `oracle`):
* `coarse_equals_fine_same_rate` (C13): the coarse problem the real code builds against the problem the real code builds for the
  same storage WITHOUT freq on the window made of the coarse steps, with the price series replaced by its plain mean per coarse
  step: same form (one / two variables per step), bounds of a fine step = bounds of its coarse step times dt_fine/dt_coarse, and
  for coarse points z (vertices of the coarse problem under random objectives, and perturbed ones): same feasibility and the same
  value for the expanded point x_t = z_i * dt_t/dt_i, same dispatch at every node and FINE step.  Where a hypothesis of the
  theorem fails the violation carries a kind: `coarse_wacc` (F-13h), `coarse_cost_store` (finding #1 of this package: holding
  costs are charged as if the whole volume of a coarse step moved at its begin), `coarse_level_out_of_range` (start / end level
  outside [0, size]: accepted by the constructor, PARTIAL of C05).
* `storage.*` (C05): the storage in a small portfolio with one market per node, solved: physical level per FINE step from the
  reported charge / discharge columns and the storage's parameters: within [0, size] at every fine step, end level reached,
  reported fill level (both the method and the column) = physical level at every fine step.
"""
import copy
import json
import random
import traceback
from fractions import Fraction

import numpy as np
import pandas as pd

import eaopack as eao
from .. import scen, pf
from ..impl import problem_json, Quiet, err_class, mapping_rows
from ..lean import fs
from .common import grid_json, prices_json, instant
from . import contract as ct
from . import storage as st
from .coarsebuild import (COARSE, POW2, FINER, td, coarse_points, gen_window, WINDOWS, coarse_json, cuts_of,
                          ScratchDriver, _pow2)

M = 'EAO.Properties.C13Storage'
THEOREMS_C13_STORAGE = [
    (M, 'EAO.C13S.coarse_equiv_storage', 'Storage with freq (LP form: no max_store_duration, no time blocks, no no-simultaneous booleans) on a well-formed coarse grid with at least one step: whenever the coarse problem is built the fine problem (same storage without freq on the minor steps, price series averaged per coarse step) is built too, both have the same form (1 or 2 variable blocks); every coarse point z expands (fine step t of coarse step i gets z_i*dt_t/dt_i) to a point with the same rate inside every coarse step and the same dispatch at every asset, node and FINE step; expansion feasible => z feasible for all data; z feasible => expansion feasible when 0 <= start level <= size and 0 <= end level <= size; with equal discount factors inside every coarse step and cost_store = 0 the expansion costs the same; every fine point with equal rates is such an expansion'),
    (M, 'EAO.C13S.coarse_equiv_storage_nosimult', 'the same with the no-simultaneous option (three blocks disp_in | disp_out | bool_1): expandNS spreads the dispatch blocks and COPIES the boolean of a coarse step to its fine steps; fine booleans are 0/1 iff the coarse ones are; feasibility (rate limits, fill-level rows, both no-simultaneous rows) in both directions under the same level hypotheses, same cost, same dispatch; every fine point with equal rates and equal booleans inside every coarse step is such an expansion'),
    (M, 'EAO.C13S.storage_builder_is_core', 'buildStorage (freq=None model) is the empty-window test, the sampled price and then storageCore: the tail the coarse builder and the fine comparison problem share'),
    (M, 'EAO.C13S.coarse_storage_empty_window', 'a coarse grid without steps (window misses the horizon): coarse and fine problem are the empty problem for any parameters'),
    (M, 'EAO.C13S.cumWeight_pos_le_one', 'the elapsed share of a coarse step at the end of a fine step (sum of the weights dt_fine/dt_coarse of the fine steps so far in that coarse step) is positive, at most one, and one at the last fine step of every coarse step'),
    (M, 'EAO.C13S.coarse_storage_level', 'C05, all options, all data: for any fine point x whose dispatch blocks are the expansion of a coarse point z, the physical level at the END of fine step k is the linear interpolation level_{i-1} + cumWeight_k * (level_i - level_{i-1}) between the coarse physical levels at the two ends of the coarse step i of k (level_{-1} = start level)'),
    (M, 'EAO.C13S.expansions_are_expansions', 'expand z and expandNS z satisfy the hypothesis IsExpansion of the level and read-out theorems'),
    (M, 'EAO.C13S.coarse_storage_level_at_ends', 'at the last fine step of a coarse step the physical level of the expanded schedule IS the coarse physical level of that coarse step'),
    (M, 'EAO.C13S.coarse_storage_level_bounds', 'if the start level and the coarse levels at the end of every coarse step lie in [0,size], the physical level of the expanded schedule lies in [0,size] at the end of EVERY fine step'),
    (M, 'EAO.C13S.coarse_storage_feasible_level', 'coarse storage without time blocks and holding limit (with or without no-simultaneous), start and end level in [0,size]: for every z satisfying the rows of the coarse problem the physical level of the expanded schedule is within [0,size] after every fine step and equals the end level after the last one'),
    (M, 'EAO.C13S.fill_level_coarse_reported', 'repaired Storage.fill_level (F-05e, F-05f) on the mapping a coarse storage returns, all options, any x: the increment at a full-grid step t is, summed over the fine steps of the storage that are t, (max(0,-x)*eff_in + min(0,-x) over the variables of the coarse step) * dt_fine/dt_coarse + inflow * dt_fine; nothing at other steps'),
    (M, 'EAO.C13S.fill_level_coarse_true', 'reported = physical per FINE step: the level Storage.fill_level / the column <name>_fill_level reports at the full-grid step of the k-th fine step of the storage is the physical level of the expanded schedule after that step (two-variable form: for z_in <= 0 <= z_out; one-variable form: any z; minor steps in increasing order)'),
    (M, 'EAO.C13S.fill_level_coarse_true_feasible', 'the sign condition of fill_level_coarse_true follows from the bounds of the coarse problem'),
    (M, 'EAO.C13S.coarse_mapping_weights', 'all options: every mapping row of a coarse storage (dispatch and boolean rows) sits on a minor step of the coarse step i = var mod T_c of its variable with factor dt_fine/dt_coarse, so its contribution per fine-step length is x/dt_coarse: constant rate inside the coarse step'),
    (M, 'EAO.C13S.coarse_dispatch_is_fine_dispatch', 'all options: the dispatch the extended coarse mapping reads off a coarse point at an asset, node and fine step is the dispatch the fine storage\'s own mapping reads off the expanded point'),
    (M, 'EAO.C13S.coarse_storage_grid_hyps', 'from the grid up: for a top-level reference grid and non-decreasing cuts of whole coarse steps [s,e), the coarse grid Grid.coarsen makes is well formed, its minor steps are strictly increasing and its fine steps with the reference data are ref.restrict s e: the grid hypotheses of the theorems hold for the code'),
    (M, 'EAO.C13S.Ex.cost_store_witness', 'machine-checked instance of finding #1 of pkg-coarsestorage (hypothesis cost_store = 0 is necessary): two-hour steps over an hourly grid, cost_store 1: the coarse point z = (-2, 0) (feasible in both problems) costs 8 in the coarse problem, its expansion (-1,-1,0,0) costs 7 in the fine one; all other hypotheses hold'),
    (M, 'EAO.C13S.Ex.unequal_discount_witness', 'machine-checked instance of F-13h for storages: discount factors 1, 1/2 inside a coarse step, price 1: cost -2 of z = (2,0) vs -3/2 of its expansion; EqualDiscount fails'),
    (M, 'EAO.C13S.Ex.start_below_zero_witness', 'hypothesis 0 <= start level is necessary: start level -1 (accepted by the constructor), inflow 1/2 per hour: z = 0 is feasible for the coarse problem (levels 0, 1 at the ends of the two-hour steps), its expansion is infeasible for the fine one (level -1/2 after the first hour)'),
    (M, 'EAO.C13S.Ex.end_above_size_witness', 'hypothesis end level <= size is necessary: end level 3 in a size-2 storage (accepted by the constructor): z = (0,-1) is feasible for the coarse problem (the last row only forces the end level), its expansion passes level 5/2 > size inside the last coarse step'),
    (M, 'EAO.C13S.Ex.max_hold_witness', 'max_store_duration is outside the equivalence: limit of one coarse step (2 h): the coarse point charge 2 / discharge 2 with indicators (1,0) is feasible, the expanded schedule has a non-zero level after three consecutive hours, which no 0/1 choice of the four fine indicators admits'),
]

ERR_MAP = ct.ERR_MAP
D, iso = ct.D, ct.iso
TOL = 1e-9


# ------------------------------------------------------------------------------------------ generator
# the placements of `coarsebuild.WINDOWS`, weighted towards windows that overlap the horizon (an empty window gives the empty
# problem: covered, but there is nothing to compare)
STORAGE_WINDOWS = (['none'] * 4 + ['whole'] * 4 + ['whole_tail'] * 2 + ['inside'] * 2 + ['lead', 'lead_whole', 'beyond_end',
                   'straddle_start', 'straddle_end', 'superset', 'only_start', 'only_end', 'off_grid', 'before', 'after', 'empty',
                   'reversed'])
assert set(STORAGE_WINDOWS) <= set(WINDOWS)


def gen_case(rnd, malformed=False):
    exact = rnd.random() < 0.5
    small = rnd.random() < 0.1
    while True:
        g = ct.gen_grid(rnd, tmax=6 if small else rnd.choice([8, 12, 16, 24]), exact=exact)
        if g['freq'] in COARSE and (small or len(ct.grid_points(g)) - 1 >= 4):
            break
    tz = g['tz']
    gpts = ct.grid_points(g)
    T = len(gpts) - 1
    cands = POW2[g['freq']] if exact else COARSE[g['freq']]
    fit = [f for f in cands if 2 * td(f) <= gpts[-1] - gpts[0]]
    freq = rnd.choice(fit if (fit and rnd.random() < 0.9) else cands)
    cstep = td(freq)
    how = rnd.choice(STORAGE_WINDOWS)
    win = gen_window(rnd, gpts, how, tz, cstep)
    args = {'freq': freq}
    if win[0] is not None:
        args['start'] = D(win[0])
    if win[1] is not None:
        args['end'] = D(win[1])
    if not exact and rnd.random() < 0.3:
        args['wacc'] = rnd.choice([0.05, 0.1, 0.5])
    step_u = (gpts[1] - gpts[0]) / pd.Timedelta(1, g['unit'])       # nominal fine step in main time units
    cstep_u = cstep / pd.Timedelta(1, g['unit'])                    # coarse step in main time units
    two = rnd.random() < 0.3
    nodes = ['n1', 'n2'] if two else ['n1']
    prices = {}
    size = float(ct.val(rnd, True, 0, 8)) if rnd.random() < 0.9 else 0.0

    def per_unit(v):
        """a volume per COARSE step -> rate per main time unit (dyadic when the coarse step is a power of two of the unit)"""
        return float(v / cstep_u) if cstep_u > 0 else float(v)

    def rate():
        if rnd.random() < 0.06:
            return 0.0
        return per_unit(rnd.randint(1, 32) / 8.0)
    args.update({'size': size, 'cap_in': rate(), 'cap_out': rate()})
    r = rnd.random()
    if r < 0.3:
        lvl = float(ct.val(rnd, True, 0, size))
        args['start_level'] = lvl
        args['end_level'] = lvl
    elif r < 0.75:
        args['start_level'] = float(ct.val(rnd, True, 0, size))
        args['end_level'] = float(ct.val(rnd, True, 0, size))
    if rnd.random() < 0.4:
        args['eff_in'] = rnd.choice([0.5, 0.75, 0.875, 0.25, 1.0, 1.25])
    if rnd.random() < 0.25:
        args['cost_in'] = float(ct.val(rnd, True, 0, 1))
    if rnd.random() < 0.25:
        args['cost_out'] = float(ct.val(rnd, True, 0, 1))
    if rnd.random() < 0.3:
        args['cost_store'] = float(ct.val(rnd, True, 0, 0.5))
    if rnd.random() < 0.35:
        args['inflow'] = per_unit(float(ct.val(rnd, True, 0, 1)) if rnd.random() < 0.9 else float(ct.val(rnd, True, -0.25, 0)))
    if rnd.random() < 0.6:
        prices['p'] = ct.gen_series(rnd, exact, T, -4, 20)
        args['price'] = 'p'
    mip = rnd.random() < 0.3
    if mip and rnd.random() < 0.6:
        args['no_simult_in_out'] = True
        if rnd.random() < 0.8 and not two and 'eff_in' not in args and 'cost_in' not in args and 'cost_out' not in args:
            args['eff_in'] = 0.5
    if mip and (rnd.random() < 0.6 or 'no_simult_in_out' not in args):
        k = rnd.randint(1, 3)
        args['max_store_duration'] = float(k * cstep_u) if rnd.random() < 0.5 else float((k + 0.5) * cstep_u)
    if rnd.random() < 0.2 and cstep <= pd.Timedelta(8, 'h'):
        args['block_size'] = rnd.choice(['8h', 'd', '12h', '16h', '6h'])
    feats = ['window:' + how, 'exact' if exact else 'tolerant', 'freq:%s/%s' % (g['freq'], freq), 'tz' if tz else 'naive',
             'wacc0' if not args.get('wacc') else 'wacc', 'nodes:%d' % len(nodes)]
    bad = None
    if malformed:
        bad = rnd.choice(['neg_cap_in', 'neg_cap_out', 'start_gt_size', 'missing_price', 'price_len', 'three_nodes', 'freq_finer',
                          'freq_finer', 'end_gt_size', 'neg_start'])
        feats.append('bad:' + bad)
        if bad == 'neg_cap_in':
            args['cap_in'] = -0.5
        elif bad == 'neg_cap_out':
            args['cap_out'] = -0.25
        elif bad == 'start_gt_size':
            args['start_level'] = size + 0.5
        elif bad == 'missing_price':
            args['price'] = 'nokey'
        elif bad == 'price_len':
            args['price'] = 'short'
            prices['short'] = [1.0] * (T + rnd.choice([-1, 1, 2]))
        elif bad == 'three_nodes':
            nodes = ['n1', 'n2', 'n3']
        elif bad == 'freq_finer':
            args['freq'] = rnd.choice(FINER[g['freq']])
        elif bad == 'end_gt_size':            # accepted by the constructor
            args['end_level'] = size + 0.5
        elif bad == 'neg_start':              # accepted by the constructor
            args['start_level'] = -0.5
    for k in ('eff_in', 'cost_in', 'cost_out', 'cost_store', 'inflow', 'price', 'no_simult_in_out', 'max_store_duration', 'block_size'):
        if k in args and args[k] not in (None, False):
            feats.append(k)
    market = {}
    for n in nodes[:2]:
        key = 'm_' + n
        lo = -4 if rnd.random() < 0.4 else 1
        prices[key] = ct.gen_series(rnd, exact, T, lo, 20)
        market[n] = {'price': key, 'cap': float(64.0 / step_u) if step_u > 0 else 64.0}
    spec = {'type': 'Storage', 'name': rnd.choice(['sto', 'sto', 's 1', '7']), 'nodes': nodes, 'args': args}
    return {'kind': 'coarse_storage', 'grid': g, 'prices': prices, 'spec': spec, 'market': market,
            'order': rnd.choice(['first', 'last', 'middle']), 'features': feats, 'exact': exact}


# ------------------------------------------------------------------------------------------ implementation side
def _storage(case, nodes, args=None):
    spec = case['spec']
    a = scen.dec(copy.deepcopy(spec['args'] if args is None else args))
    nn = [nodes[n] for n in spec['nodes']]
    return eao.assets.Storage(name=spec['name'], nodes=nn[0] if len(nn) == 1 else nn, **a)


def _objects(case):
    tg = scen.make_grid(case['grid'])
    nodes = scen.make_nodes(sorted(set(case['spec']['nodes'])) or ['n1'])
    prices = {k: np.asarray(v, dtype=float) for k, v in case['prices'].items()}
    return tg, nodes, prices


def run_impl(case, solve=True):
    """{'problem': …} | {'error': class}; plus the full grid, the coarse grid made on a fresh grid object, the cuts, the block
    starts on the coarse points, and (solve) the storage inside a small solved portfolio"""
    out = {}
    g = case['grid']
    tz = g.get('tz')
    a = scen.dec(copy.deepcopy(case['spec']['args']))
    try:
        tg0 = scen.make_grid(g)
        tg0.set_wacc(a.get('wacc', 0))
        out['ref'] = grid_json(tg0, tz)
    except Exception as e:
        out['grid_error'] = err_class(e)
        return out
    try:
        out['freqA'] = int(td(a['freq']).total_seconds())
        out['freqP'] = int(td(g['freq']).total_seconds())
        out['cuts'] = cuts_of(tg0, a.get('start'), a.get('end'), a['freq'])
    except Exception as e:
        out['unmodelled'] = 'frequency: %s' % type(e).__name__
        return out
    out['aa'] = None
    try:
        tg0.set_restricted_grid(a.get('start'), a.get('end'), a['freq'])
        if hasattr(tg0.restricted, 'I_minor_in_major'):
            out['coarse'] = coarse_json(tg0.restricted, tz)
        else:
            out['unmodelled'] = 'same frequency string: the freq=None path'
            return out
        if a.get('block_size') is not None and tg0.restricted.T > 0:
            try:
                out['aa'] = st.block_starts(tg0.restricted, a['block_size'])
            except Exception as e:
                out['aa_error'] = err_class(e)
    except Exception as e:
        out['coarse_error'] = err_class(e)
    try:
        with Quiet():
            tg, nodes, prices = _objects(case)
            asset = _storage(case, nodes)
            op = asset.setup_optim_problem(prices, tg)
            used = coarse_json(asset.timegrid.restricted, tz)
            usedref = grid_json(asset.timegrid, tz)
        if used != out.get('coarse') or usedref != out['ref']:
            out['grid_mismatch'] = True
        out['problem'] = problem_json(op, name=asset.name, nodes=[n.name for n in asset.nodes])
        out['_op'] = op
    except Exception as e:
        out['error'] = err_class(e)
        out['error_text'] = '%s: %s' % (type(e).__name__, str(e)[:200])
        return out
    if not solve or len(out['problem']['c']) == 0:
        return out
    # --- the storage in a small portfolio: one market per node
    try:
        with Quiet():
            tg, nodes, prices = _objects(case)
            asset = _storage(case, nodes)
            mk = [eao.assets.SimpleContract(name='mkt_' + n, nodes=nodes[n], price=m['price'], min_cap=-m['cap'], max_cap=m['cap'])
                  for n, m in case['market'].items()]
            assets = {'first': [asset] + mk, 'last': mk + [asset], 'middle': mk[:1] + [asset] + mk[1:]}[case['order']]
            portf = eao.portfolio.Portfolio(assets)
            pop = portf.setup_optim_problem(prices, tg)
            is_mip = bool(a.get('no_simult_in_out')) or a.get('max_store_duration') is not None
            res = pop.optimize(solver='SCIPY') if is_mip else pop.optimize()
            out['portf'] = {'status': res if isinstance(res, str) else 'ok'}
            if not isinstance(res, str):
                o = eao.io.extract_output(portf, pop, res, prices)
                iv = o['internal_variables']
                nm = asset.name
                out['portf'].update({
                    'x': [float(v) for v in res.x], 'mapping': mapping_rows(pop.mapping),
                    'fill_level': [float(v) for v in iv[nm + '_fill_level'].values],
                    'charge': [float(v) for v in iv[nm + '_charge'].values],
                    'discharge': [float(v) for v in iv[nm + '_discharge'].values],
                    'fill_level_method': [float(v) for v in asset.fill_level(pop, res)],
                    'dt': [float(v) for v in tg.dt], 'T': int(tg.T), 'value': float(res.value)})
    except Exception as e:
        out['portf'] = {'status': 'error:' + err_class(e) + ':' + str(e)[:200]}
    return out


def params_json(case, aa):
    sp = copy.deepcopy(case)
    sp['name'] = case['spec']['name']
    sp['nodes'] = case['spec']['nodes']
    sp['args'] = scen.dec(copy.deepcopy(case['spec']['args']))
    return st.params_json(sp, aa)


def request(case, impl_result=None, fine=True, readout=True):
    r = impl_result if impl_result is not None else run_impl(case)
    req = {'op': 'coarse_storage', 'ref': r['ref'], 'prices': prices_json(case['prices']), 'cuts': r['cuts'],
           'freqA': r['freqA'], 'freqP': r['freqP'], 'params': params_json(case, r.get('aa'))}
    if 'coarse' in r:
        req['coarse'] = r['coarse']
        req['fine'] = bool(fine)
        p = r.get('portf')
        if readout and p and p.get('status') == 'ok':
            req['readout'] = {'mapping': p['mapping'], 'x': [fs(v) for v in p['x']], 'T': p['T']}
    return req


def _small(s):
    f = Fraction(s)
    d = f.denominator
    return (d & (d - 1)) == 0 and d <= 2 ** 20 and abs(f.numerator) < 2 ** 40


def _rats(j):
    if isinstance(j, str):
        try:
            Fraction(j)
            yield j
        except Exception:
            return
    elif isinstance(j, dict):
        for k, v in j.items():
            if k in ('name', 'nodes', 'price'):
                continue
            yield from _rats(v)
    elif isinstance(j, list):
        for v in j:
            yield from _rats(v)


def is_exact(case, req):
    """every intermediate value of the implementation is exactly representable: dyadic data, no discounting, coarse steps of a
    power-of-two number of fine steps whose lengths are power-of-two fractions of the coarse step"""
    if not case.get('exact') or 'coarse' not in req:
        return False
    for k in ('prices', 'params'):
        if not all(_small(s) for s in _rats(req.get(k, []))):
            return False
    cg = req['coarse']
    if any(Fraction(s) != 1 for s in req['ref']['df']) or any(Fraction(s) != 1 for s in cg['grid']['df']):
        return False
    dtf = [Fraction(s) for s in req['ref']['dt']]
    if not all(_small(s) for s in req['ref']['dt']) or not all(_small(s) for s in cg['grid']['dt']):
        return False
    for cell, d in zip(cg['minor'], cg['grid']['dt']):
        if not _pow2(len(cell)):
            return False
        for t in cell:
            w = dtf[t] / Fraction(d)
            if not (_pow2(w.numerator) and _pow2(w.denominator)):
                return False
    return True


def compare(case, impl_result, model_result, req=None):
    """list of disagreement strings"""
    out = []
    if 'grid_error' in impl_result or 'unmodelled' in impl_result:
        return out
    if impl_result.get('grid_mismatch'):
        out.append('grids used by the asset differ from those of a fresh Timegrid (set_wacc, set_restricted_grid)')
    if 'err' in model_result:
        return ['driver rejected the request: %s' % model_result['err']]
    m = model_result['ok']
    if 'coarse' in impl_result:
        same = m.get('coarsen') == 'same'
        if m.get('coarsen') == 'differs' and not case.get('exact'):
            a, b = m['coarse_model'], impl_result['coarse']
            same = (a['minor'] == b['minor'] and a['grid']['pts'] == b['grid']['pts'] and a['grid']['idx'] == b['grid']['idx']
                    and all(pf.cmp_vec(k, a['grid'][k], b['grid'][k], 1e-12) is None for k in ('dt', 'Dt', 'df')))
            if not same:
                out.append('coarse grid: model %s vs impl %s' % (json.dumps(a)[:300], json.dumps(b)[:300]))
        elif not same:
            out.append('coarse grid: the model\'s coarsening of the full grid along the cuts is %r' % m.get('coarsen'))
        if m.get('from_cuts') != 'same' and m.get('coarsen') == 'same':
            out.append('builder from the cuts vs builder on the given coarse grid: %r' % m.get('from_cuts'))
    if 'error' in impl_result or 'error' in m:
        ie = impl_result.get('error')
        me = m.get('error')
        if ie is None or me is None or ERR_MAP.get(me) != ie:
            out.append('error class: model %r (expects impl %r) vs impl %r %s' % (me, ERR_MAP.get(me), ie, impl_result.get('error_text', '')))
        return out
    req = req or request(case, impl_result)
    tol = 0 if is_exact(case, req) else TOL
    mp, ip = m['problem'], impl_result['problem']
    if mp['name'] != ip['name'] or mp['nodes'] != ip['nodes']:
        out.append('name/nodes: %r %r (model) vs %r %r (impl)' % (mp['name'], mp['nodes'], ip['name'], ip['nodes']))
    for v in ('c', 'l', 'u'):
        d = pf.cmp_vec(v, mp[v], ip[v], tol)
        if d:
            out.append(d)
    if tol != 0 and case['spec']['args'].get('max_store_duration') is not None:
        # the holding-duration windows compare a float sum of step lengths with the limit WITH A TOLERANCE in the code (repair F-12c), the
        # model compares exactly: on non-dyadic data a window can end one step earlier / later.  Exact cases compare the rows; here only
        # costs, bounds and mapping
        d = None
    else:
        d = pf.cmp_rows('rows', mp['rows'], ip['rows'], tol, ordered=True)
    if d:
        out.append(d)
    d = ct.cmp_mapping_ordered(mp['mapping'], ip['mapping'], tol)
    if d:
        out.append(d)
    return ['[%s] %s' % ('exact' if tol == 0 else 'tol', x) for x in out]


def compare_readout(case, impl_result, model_ok):
    """`Storage.fill_level` and the storage columns of `io.extract_output` against the model (driver field `readout`)"""
    out = []
    p = impl_result['portf']
    ro = model_ok.get('readout')
    if ro is None:
        return ['readout missing in the driver answer']
    for k in ('fill_level', 'charge', 'discharge'):
        a, b = ro[k], p[k]
        if len(a) != len(b):
            out.append('readout.%s: length %d (model) vs %d (impl)' % (k, len(a), len(b)))
            continue
        for t, (x, y) in enumerate(zip(a, b)):
            if not pf.feq(Fraction(x), Fraction(float(y)), TOL):
                out.append('readout.%s step %d: %s (model) vs %s (impl)' % (k, t, float(Fraction(x)), y))
                break
    for t, (x, y) in enumerate(zip(ro['fill_level'], p['fill_level_method'])):
        if not pf.feq(Fraction(x), Fraction(float(y)), TOL):
            out.append('Storage.fill_level step %d: %s (model) vs %s (impl)' % (t, float(Fraction(x)), y))
            break
    return out


# ------------------------------------------------------------------------------------------ the fine comparison problem
def fine_case(case, impl_result):
    """the same storage WITHOUT freq on the window made of the coarse steps, price series replaced by its plain mean per coarse
    step; None (with a reason) when that window cannot be expressed"""
    cg = impl_result['coarse']
    cells = cg['minor']
    flat = [t for c in cells for t in c]
    if not flat:
        return None, 'empty'
    if flat != list(range(flat[0], flat[-1] + 1)):
        return None, 'not-contiguous'
    g = case['grid']
    tz = g.get('tz')
    gpts = ct.grid_points(g)
    s, e = gpts[flat[0]], gpts[flat[-1] + 1]
    if not (ct.localizable(s, tz) and ct.localizable(e, tz)):
        return None, 'not-localizable'
    if tz is not None and (instant(s, tz) != impl_result['ref']['pts'][flat[0]]):
        return None, 'ambiguous-local-time'
    if tz is not None and flat[-1] + 1 < len(impl_result['ref']['pts']) and instant(e, tz) != impl_result['ref']['pts'][flat[-1] + 1]:
        return None, 'ambiguous-local-time'
    fc = copy.deepcopy(case)
    args = fc['spec']['args']
    args.pop('freq')
    args['start'], args['end'] = D(s), D(e)
    key = args.get('price')
    if key is not None and key in case['prices']:
        arr = np.asarray(case['prices'][key], dtype=float).copy()
        if len(arr) == len(impl_result['ref']['pts']):
            for c in cells:
                arr[c] = arr[c].mean()
        fc['prices']['mean_' + key] = [float(v) for v in arr]
        args['price'] = 'mean_' + key
    return fc, None


def run_fine(fc):
    """the real `freq=None` storage of the fine case: problem, restricted grid"""
    out = {}
    tz = fc['grid'].get('tz')
    try:
        with Quiet():
            tg, nodes, prices = _objects(fc)
            asset = _storage(fc, nodes)
            op = asset.setup_optim_problem(prices, tg)
        out['grid'] = grid_json(asset.timegrid.restricted, tz)
        out['problem'] = problem_json(op, name=asset.name, nodes=[n.name for n in asset.nodes])
    except Exception as e:
        out['error'] = err_class(e)
        out['error_text'] = '%s: %s' % (type(e).__name__, str(e)[:200])
    return out


def compare_fine(case, impl_result, model_ok, fine_impl=None):
    """the fine problem of the theorems (driver field `fine`) against the real fine builder with averaged prices"""
    if case['spec']['args'].get('block_size') is not None:
        return [], ['fine:unjudged-blocks'], None      # the real fine storage places its blocks by the calendar on the FINE points
    if case['spec']['args'].get('max_store_duration') is not None and not case.get('exact'):
        # the holding-duration windows compare a float sum of step lengths with the limit WITH A TOLERANCE in the code (repair F-12c) and
        # exactly in the model: on non-dyadic data (limit 0.8333.. d against steps of 1/6 d) the window ends can differ by one step;
        # the fine problem with a holding limit is outside the equivalence theorems anyway (Ex.max_hold_witness)
        return [], ['fine:unjudged-max-hold-inexact'], None
    fc, why = fine_case(case, impl_result)
    if fc is None or 'fine' not in model_ok:
        return [], ['fine:unjudged'], None
    r = fine_impl or run_fine(fc)
    flat = [t for c in impl_result['coarse']['minor'] for t in c]
    if 'grid' in r and r['grid']['idx'] != flat:
        return [], ['fine:unjudged-window'], r
    out = []
    mf = model_ok['fine']
    if 'error' in mf or 'error' in r:
        if ERR_MAP.get(mf.get('error')) != r.get('error'):
            out.append('fine problem error class: model %r vs impl %r %s' % (mf.get('error'), r.get('error'), r.get('error_text', '')))
        return out, ['fine:error'], r
    mg = model_ok['fine_grid']
    for k in ('pts', 'idx', 'dt', 'df'):
        if mg[k] != r['grid'][k]:
            out.append('fine grid %s: minorGrid %s vs restricted grid of the fine asset %s' % (k, mg[k][:6], r['grid'][k][:6]))
    tol = 0 if is_exact(case, request(case, impl_result)) else TOL
    mp, ip = mf['problem'], r['problem']
    for v in ('c', 'l', 'u'):
        d = pf.cmp_vec('fine ' + v, mp[v], ip[v], tol)
        if d:
            out.append(d)
    d = pf.cmp_rows('fine rows', mp['rows'], ip['rows'], tol, ordered=True)
    if d:
        out.append(d)
    d = ct.cmp_mapping_ordered(mp['mapping'], ip['mapping'], tol)
    if d:
        out.append('fine ' + d)
    return out, ['fine:compared'], r


# ------------------------------------------------------------------------------------------ oracles (real code only)
def _rows_ok(pj, x, tol):
    """0 if x is within bounds and rows of the problem (JSON form), else a positive measure of the violation; scaled tolerance"""
    worst = Fraction(0)
    for j, (lo, hi) in enumerate(zip(pj['l'], pj['u'])):
        lo, hi = Fraction(lo), Fraction(hi)
        worst = max(worst, lo - x[j], x[j] - hi)
    for r in pj['rows']:
        v = sum(Fraction(c) * x[j] for j, c in r['coeffs'])
        b = Fraction(r['rhs'])
        if r['kind'] == 'U':
            worst = max(worst, v - b)
        elif r['kind'] == 'L':
            worst = max(worst, b - v)
        else:
            worst = max(worst, abs(v - b))
    return worst


def _disp(mapping, x):
    d = {}
    for r in mapping:
        if r['kind'] != 'd' or r['node'] is None:
            continue
        k = (r['node'], r['step'])
        d[k] = d.get(k, Fraction(0)) + Fraction(r['factor']) * x[r['var']]
    return d


def _vertices(op, rnd, n=3):
    """feasible points of the coarse LP: optima under random objectives (scipy), as exact fractions of the floats"""
    from scipy.optimize import linprog
    pts = []
    if op.A is None:
        return pts
    A = op.A.toarray() if hasattr(op.A, 'toarray') else np.asarray(op.A)
    b = np.asarray(op.b, dtype=float)
    ct_ = op.cType
    Aub, bub, Aeq, beq = [], [], [], []
    for i, k in enumerate(ct_):
        if k == 'U':
            Aub.append(A[i]); bub.append(b[i])
        elif k == 'L':
            Aub.append(-A[i]); bub.append(-b[i])
        else:
            Aeq.append(A[i]); beq.append(b[i])
    for _ in range(n):
        c = np.asarray([rnd.uniform(-1, 1) for _ in range(len(op.c))])
        try:
            r = linprog(c, A_ub=np.asarray(Aub) if Aub else None, b_ub=np.asarray(bub) if bub else None,
                        A_eq=np.asarray(Aeq) if Aeq else None, b_eq=np.asarray(beq) if beq else None,
                        bounds=list(zip(op.l, op.u)), method='highs')
        except Exception:
            continue
        if r.status == 0:
            pts.append([Fraction(float(v)) for v in r.x])
    return pts


def oracle_c13(case, impl_result, rnd=None, fine_impl=None):
    """violations of `coarse storage = fine storage with averaged prices + same rate inside a coarse step` on the real code.
    Returns (violations, features)."""
    rnd = rnd or random.Random(12345)
    a = case['spec']['args']
    if 'problem' not in impl_result or 'coarse' not in impl_result or not impl_result['problem']['c']:
        return [], ['c13:no-problem']
    if a.get('block_size') is not None or a.get('max_store_duration') is not None:
        return [], ['c13:outside-theorem']
    fc, why = fine_case(case, impl_result)
    if fc is None:
        return [], ['c13:unjudged-' + why]
    r = fine_impl or run_fine(fc)
    cg = impl_result['coarse']
    cells = cg['minor']
    flat = [t for c in cells for t in c]
    if 'error' in r:
        return [{'oracle': 'fine_builds', 'detail': 'the coarse problem is built but the same storage without freq on the coarse steps raises %s' % r.get('error_text'),
                 'facts': {'kind': None}}], ['c13:fine-error']
    if r['grid']['idx'] != flat:
        return [], ['c13:unjudged-window']
    fp, cp = r['problem'], impl_result['problem']
    Tc, Tf = len(cells), len(flat)
    owner = [i for i, c in enumerate(cells) for _ in c]
    dtf = [Fraction(impl_result['ref']['dt'][t]) for t in flat]
    dtc = [Fraction(s) for s in cg['grid']['dt']]
    w = [dtf[k] / dtc[owner[k]] for k in range(Tf)]
    fdf = [Fraction(impl_result['ref']['df'][t]) for t in flat]
    df_ok = all(fdf[k] == Fraction(cg['grid']['df'][owner[k]]) for k in range(Tf))
    size, s0, e0 = a['size'], a.get('start_level', 0.), a.get('end_level', 0.)
    lvl_ok = 0 <= s0 <= size and 0 <= e0 <= size
    cs_ok = a.get('cost_store', 0.) == 0
    cost_kind = None if (df_ok and cs_ok) else ('coarse_wacc' if not df_ok else 'coarse_cost_store')
    feas_kind = None if lvl_ok else 'coarse_level_out_of_range'
    feats = ['c13:judged', 'c13:cost-hyp-' + (cost_kind or 'ok'), 'c13:feas-hyp-' + (feas_kind or 'ok')]
    exact = is_exact(case, request(case, impl_result, readout=False))
    tol = Fraction(0) if exact else Fraction(1, 10 ** 8)
    viol = []

    def close(x, y):
        return x == y or abs(x - y) <= tol * max(1, abs(x), abs(y))

    def V(detail, kind):
        viol.append({'oracle': 'coarse_equals_fine_same_rate', 'detail': detail,
                     'facts': {'kind': kind, 'freq': a['freq'], 'cost_store': not cs_ok, 'two_vars': len(cp['c']) > Tc}})
    nC, nF = len(cp['c']), len(fp['c'])
    if Tc == 0 or nC % Tc != 0 or nF != (nC // Tc) * Tf:
        V('form: %d coarse variables on %d coarse steps, %d fine variables on %d fine steps' % (nC, Tc, nF, Tf), None)
        return viol, feats
    B = nC // Tc
    ns = bool(a.get('no_simult_in_out')) and B == 3
    cc, cl, cu = ([Fraction(s) for s in cp[k]] for k in ('c', 'l', 'u'))
    fcst, fl, fu = ([Fraction(s) for s in fp[k]] for k in ('c', 'l', 'u'))

    def expand(z):
        return [z[b * Tc + owner[k]] * (1 if (ns and b == 2) else w[k]) for b in range(B) for k in range(Tf)]
    for b in range(B):
        for k in range(Tf):
            j, i = b * Tf + k, b * Tc + owner[k]
            ww = 1 if (ns and b == 2) else w[k]
            if not close(fl[j], cl[i] * ww) or not close(fu[j], cu[i] * ww):
                V('bounds of fine variable %d: [%s, %s], of its coarse variable %d times dt_fine/dt_coarse: [%s, %s]' % (
                    j, float(fl[j]), float(fu[j]), i, float(cl[i] * ww), float(cu[i] * ww)), None)
                break
    pts = _vertices(impl_result['_op'], rnd, 3) if '_op' in impl_result else []
    feats.append('c13:vertices%d' % len(pts))
    scale = max([1, abs(Fraction(size))] + [abs(v) for v in cl] + [abs(v) for v in cu])
    ftol = Fraction(1, 10 ** 7) * scale
    trial = list(pts)
    for z in pts[:2]:                      # perturbed: mostly infeasible for both
        trial.append([v + Fraction(rnd.randint(-4, 4), 8) * (1 if rnd.random() < 0.3 else 0) for v in z])
    for z in trial:
        x = expand(z)
        vc = -sum(p_ * q_ for p_, q_ in zip(cc, z))
        vf = -sum(p_ * q_ for p_, q_ in zip(fcst, x))
        if not close(vc, vf):
            V('value of a coarse point %s vs of its expansion in the fine problem %s' % (float(vc), float(vf)), cost_kind)
        dc, dfi = _disp(cp['mapping'], z), _disp(fp['mapping'], x)
        if set(dc) != set(dfi):
            V('steps with dispatch rows differ: %s' % sorted(set(dc) ^ set(dfi))[:6], None)
        else:
            for k_ in dc:
                if not close(dc[k_], dfi[k_]):
                    V('dispatch at %s: %s (coarse mapping) vs %s (fine)' % (k_, float(dc[k_]), float(dfi[k_])), None)
                    break
        wc, wf = _rows_ok(cp, z, ftol), _rows_ok(fp, x, ftol)
        okc, okf = wc <= ftol, wf <= ftol
        margin = min(abs(wc - ftol), abs(wf - ftol)) > 10 * ftol or (wc == 0 and wf == 0)
        if okc != okf and (exact or margin or okc):
            V('feasibility: coarse point %s (violation %s), its expansion %s for the fine problem (violation %s)' % (
                'feasible' if okc else 'infeasible', float(wc), 'feasible' if okf else 'infeasible', float(wf)), feas_kind)
        if len(viol) >= 3:
            break
    return viol, feats + (['c13:exact'] if exact else [])


def oracle_c05(case, impl_result):
    """physical level per FINE step from the reported charge / discharge and the storage's parameters; reported fill level.
    Returns (violations, features)."""
    p = impl_result.get('portf')
    if not p or p.get('status') != 'ok' or 'coarse' not in impl_result:
        return [], ['c05:no-solution']
    a = case['spec']['args']
    size, eff, inflow = a['size'], a.get('eff_in', 1.), a.get('inflow', 0.)
    s0, e0 = a.get('start_level', 0.), a.get('end_level', 0.)
    T = p['T']
    dt_all = p['dt']
    cells = impl_result['coarse']['minor']
    flat = sorted(t for c in cells for t in c)
    act = set(flat)
    charge, dis = p['charge'], p['discharge']          # discharge is reported with negative sign
    scale = max(1.0, abs(size), abs(s0), abs(e0))
    tol = 2e-5 * scale
    viol = []
    blocks = a.get('block_size') is not None

    def add(orc, detail, **facts):
        f = {'kind': None, 'freq': a['freq'], 'inflow_nonzero': inflow != 0, 'blocks': blocks, 'max_store_duration': a.get('max_store_duration') is not None}
        f.update(facts)
        viol.append({'oracle': orc, 'detail': detail, 'facts': f})
    lvl = []
    cur = s0
    for t in range(T):
        if t in act:
            cur = cur + eff * charge[t] + dis[t] + inflow * dt_all[t]
        elif abs(charge[t]) > tol or abs(dis[t]) > tol:
            add('storage.window', 'step %d outside the storage\'s coarse steps has charge %.6g / discharge %.6g' % (t, charge[t], dis[t]))
            break
        lvl.append(cur)
    if len(lvl) < T:
        return viol, ['c05:judged']
    in_range = 0 <= s0 <= size and 0 <= e0 <= size
    if not blocks:
        for t in flat:
            if lvl[t] < -tol or lvl[t] > size + tol:
                add('storage.level_bounds', 'physical level %.6g at FINE step %d outside [0, %.6g]' % (lvl[t], t, size), step=t,
                    kind=None if in_range else 'coarse_level_out_of_range')
                break
    if flat and abs(lvl[flat[-1]] - e0) > tol:
        add('storage.end_level', 'physical level %.6g at the last fine step %d, end level %.6g' % (lvl[flat[-1]], flat[-1], e0))
    for nm in ('fill_level', 'fill_level_method'):
        for t in range(T):
            if abs(p[nm][t] - lvl[t]) > tol:
                add('storage.reported', '%s %.8g at step %d, physical level %.8g' % (nm, p[nm][t], t, lvl[t]), what=nm, step=t)
                break
    return viol, ['c05:judged'] + (['c05:moves'] if max([abs(v) for v in charge] + [abs(v) for v in dis] + [0]) > 1e-6 else [])


def oracle(case, impl_result):
    """list of violation dicts {oracle, detail, facts}"""
    return oracle_c13(case, impl_result)[0] + oracle_c05(case, impl_result)[0]


KNOWN_KINDS = {'coarse_wacc': 'F-13h', 'coarse_cost_store': 'pkg-coarsestorage finding #1 (candidate for known_findings.json)',
               'coarse_level_out_of_range': 'PARTIAL of C05 (start / end level outside [0,size] accepted by the constructor)'}


def run_case(case, drv, rnd=None, solve=True):
    """one case -> record {features, disagreements, violations, impl}"""
    r = run_impl(case, solve=solve)
    rec = {'features': list(case.get('features', [])), 'disagreements': [], 'violations': [],
           'impl': 'error:' + r['error'] if 'error' in r else 'ok'}
    if 'grid_error' in r:
        rec['features'].append('grid-error:' + r['grid_error'])
        return rec
    if 'unmodelled' in r:
        rec['features'].append('unmodelled')
        return rec
    tzerr = ('NonExistentTimeError', 'AmbiguousTimeError')
    if r.get('error') in tzerr or r.get('coarse_error') in tzerr or r.get('aa_error'):
        rec['features'].append('pandas-error')      # pandas refuses a wall-clock time of the input / calendar arithmetic: not modelled
        if r.get('aa_error') and 'error' not in r:
            rec['disagreements'].append('pandas date_range for the blocks failed (%s) in the harness but the set-up succeeded' % r['aa_error'])
        return rec
    req = request(case, r)
    mres = drv.ask(req)
    rec['disagreements'] = compare(case, r, mres, req)
    rec['exact'] = is_exact(case, req) and 'problem' in r
    if 'problem' in r:
        rec['nvars'] = len(r['problem']['c'])
        rec['features'].append('result:' + ('empty' if not r['problem']['c'] else 'problem'))
        fine_impl = None
        if 'ok' in mres and 'coarse' in r:
            d, f, fine_impl = compare_fine(case, r, mres['ok'])
            rec['disagreements'] += d
            rec['features'] += f
        p = r.get('portf')
        if p:
            rec['features'].append('solve:' + p['status'].split(':')[0] + (':' + p['status'].split(':')[1] if p['status'].startswith('error') else ''))
            if p['status'] == 'ok' and 'ok' in mres:
                rec['disagreements'] += compare_readout(case, r, mres['ok'])
                rec['features'].append('readout:compared')
        v, f = oracle_c13(case, r, rnd, fine_impl if (fine_impl and 'grid' in fine_impl) else None)
        rec['violations'] += v
        rec['features'] += f
        v, f = oracle_c05(case, r)
        rec['violations'] += v
        rec['features'] += f
    return rec


def selftest(n, seed, drv, verbose=False, solve=True):
    """n cases (every 5th malformed): correspondence of the coarse storage builder, of the fine comparison problem, of the
    fill-level read-out, and the oracles on the real code.  Returns counts, disagreements, violations (those of a known kind
    separately), features."""
    rnd = random.Random(seed)
    feats = {}
    dis, viol, known = [], [], []
    counts = {'cases': 0, 'impl_ok': 0, 'impl_error': 0, 'exact': 0, 'malformed': 0, 'harness_errors': 0, 'skipped': 0,
              'fine_compared': 0, 'readout_compared': 0, 'c13_judged': 0, 'c05_judged': 0, 'c05_moves': 0}
    for i in range(n):
        case = gen_case(random.Random(rnd.getrandbits(48)), malformed=(i % 5 == 4))
        try:
            rec = run_case(case, drv, random.Random(rnd.getrandbits(48)), solve=solve)
        except Exception as e:
            counts['harness_errors'] += 1
            dis.append({'case': case, 'detail': 'harness error %s: %s' % (type(e).__name__, traceback.format_exc()[-800:])})
            continue
        counts['cases'] += 1
        counts['malformed'] += int(i % 5 == 4)
        counts['impl_ok' if rec['impl'] == 'ok' else 'impl_error'] += 1
        counts['exact'] += int(bool(rec.get('exact')))
        fl = rec['features']
        counts['skipped'] += int(any(f in ('unmodelled', 'pandas-error') or f.startswith('grid-error') for f in fl))
        counts['fine_compared'] += int('fine:compared' in fl)
        counts['readout_compared'] += int('readout:compared' in fl)
        counts['c13_judged'] += int('c13:judged' in fl)
        counts['c05_judged'] += int('c05:judged' in fl)
        counts['c05_moves'] += int('c05:moves' in fl)
        for f in fl + [rec['impl']]:
            feats[f] = feats.get(f, 0) + 1
        for d in rec['disagreements']:
            dis.append({'case': case, 'detail': d})
            if verbose:
                print('DISAGREE', i, d)
        for v in rec['violations']:
            v['case'] = case
            (known if v['facts'].get('kind') in KNOWN_KINDS else viol).append(v)
            if verbose and v['facts'].get('kind') not in KNOWN_KINDS:
                print('VIOLATION', i, v['oracle'], v['detail'])
    return {'counts': counts, 'disagreements': dis, 'violations': viol, 'known_violations': known,
            'features': dict(sorted(feats.items()))}
