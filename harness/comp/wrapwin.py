"""Correspondence and oracles for the window logic of the wrappers (C08) - model `EAO.Model.WrapWindow`, driver op `wrap_window`.

A case is ONE top-level object tree of real eaopack objects (plain JSON spec): `StructuredAsset`s and `ScaledAsset`s nested to depth 3
around leaves of every kind (SimpleContract, OrderBook - which has no start/end of its own -, Storage, Transport, Contract with take
periods, Plant), every object with its own window placed in every way relative to the horizon (inside, one side only, straddling, covering,
before, after, between grid points, none) and given in every date form Python offers (datetime, date, naive / aware Timestamp, aware
datetime in the grid's zone or UTC, numpy datetime64, ISO string, None), on grids with and without time zone (some across a DST switch).
Streams: 'plain' (forms that can be compared), 'mixed' (naive and aware forms in one tree: TypeError of the comparison, aware dates on a
grid without zone: TypeError of the grid), 'fail' (a wrapped SimpleContract whose price key is missing: AssertionError after the windows
were clipped).

`run_impl` builds the objects, records every successful `Asset.set_timegrid` call (object, attributes start / end at that moment as instants,
steps `I` and summed `dt` of the restricted grid the call produced), captures what every object's `setup_optim_problem` returned, calls
`setup_optim_problem(prices, timegrid)` of the top object and afterwards reads the attributes `start` / `end` of every object (value AND
object identity with what was there before).

`compare` (model = literal level `setupTop`, plus the pure level `buildTop` / `effWin` the theorems are about):
  * exception class (TypeError of a date comparison / of the grid, error of a wrapped builder, none);
  * the trace of `set_restricted_grid` windows, object by object in call order (consecutive repetitions collapsed: builders call
    `set_timegrid` again), with the steps and the summed dt of each restricted grid;
  * attributes after the call = attributes before (model: `after`), also after a failing set-up;
  * where every leaf has a Lean builder (SimpleContract with plain parameters, OrderBook): the problem of the top object, exactly
    (c, l, u, rows, mapping in order) - literal level and pure level;
  * effective windows read from the CAPTURED problems of the leaves: their steps lie in the steps of `effWin` (equal for a leaf with one
    variable per step); a captured scaled problem charges `fix_costs * summed dt of its own effective window`;
  * model-internal: pure level = literal level whenever no TypeError occurs.

`oracle` (real code alone, date arithmetic in pandas, no model): `wrapped_outside_window` (a wrapped leaf has a variable at a step outside
the intersection of all windows above it, its own and the horizon), `window_not_reached` (a one-variable-per-step leaf lacks a step of that
intersection), `not_restored` (an attribute start / end differs from - or is another object than - before the call).
"""
import copy
import datetime as dt
import json
import os
import random
import subprocess
import sys
import warnings
from fractions import Fraction

import numpy as np
import pandas as pd

sys.path.insert(0, os.environ.get('EAO_REPO', '/repo'))
import eaopack as eao  # noqa: E402
from eaopack.assets import Asset  # noqa: E402
from eaopack.portfolio import Portfolio, StructuredAsset  # noqa: E402

from .. import gen, scen  # noqa: E402
from ..impl import Quiet, problem_json, err_class  # noqa: E402
from ..lean import fs, LEAN_DIR  # noqa: E402

OP = 'wrap_window'

THEOREMS_C08_WRAP = [
    ('EAO.Properties.C08Wrap', 'EAO.C08W.clip_is_intersection',
     "the window a wrapped asset is set up with contains an instant iff its own window and the wrapper's both do - for every combination of start / end given or None on either side"),
    ('EAO.Properties.C08Wrap', 'EAO.C08W.clip_cases',
     'the sixteen None / given combinations spelled out: a side only one gives is taken from it, a side both give is the later start / the earlier end'),
    ('EAO.Properties.C08Wrap', 'EAO.C08W.clip_is_intersection_nested',
     'to any depth (structure in structure, scaled over structure, structure containing scaled): the window of a wrapped object is the intersection of the windows of ALL objects on the path from the top-level wrapper down to it'),
    ('EAO.Properties.C08Wrap', 'EAO.C08W.clip_is_intersection_grid',
     "restricting the grid by the clipped window = restricting by the wrapped asset's own window the grid the wrapper's window leaves (Grid.restrict twice; None = the grid's own start / end)"),
    ('EAO.Properties.C08Wrap', 'EAO.C08W.restricted_steps',
     'the steps of a restricted grid are exactly the steps of the grid whose start point lies in the window'),
    ('EAO.Properties.C08Wrap', 'EAO.C08W.clip_is_intersection_literal',
     "where the code's max / min on pd.Timestamp do not raise, the attributes they leave stand for the intersection of the two windows as instants (dates without zone compared by wall clock, with zone by instant; localisation monotone)"),
    ('EAO.Properties.C08Wrap', 'EAO.C08W.clip_type_error_iff',
     'the comparison raises TypeError exactly when both sides give the date and one is zone-aware, the other not'),
    ('EAO.Properties.C08Wrap', 'EAO.C08W.setup_eq_pure',
     'the literal set-up (own set_timegrid, clipping loop, set-up of the wrapped objects, finally-restoration) returns exactly structured / buildScaled of the wrapped builders run on Grid.restrict through the clipped windows, or raises exactly the exception of the first failing wrapped builder - unless it stops at a TypeError'),
    ('EAO.Properties.C08Wrap', 'EAO.C08W.no_type_error',
     'with all dates of one form (all without zone, or all zone-aware on a grid with zone) the set-up never raises a TypeError'),
    ('EAO.Properties.C08Wrap', 'EAO.C08W.setup_is_pure',
     'for such a tree the literal set-up IS the pure function: same problem, same exception'),
    ('EAO.Properties.C08Wrap', 'EAO.C08W.every_grid_call_clipped',
     'every set_restricted_grid call made during a set-up - also one that ends in an exception - is made for an object of the tree with its own window clipped by the windows of all wrappers above it'),
    ('EAO.Properties.C08Wrap', 'EAO.C08W.leaf_simple_contract',
     'SimpleContract satisfies the leaf hypothesis of wrapped_rows_in_window (vars_only_in_window)'),
    ('EAO.Properties.C08Wrap', 'EAO.C08W.leaf_contract',
     'Contract satisfies the leaf hypothesis'),
    ('EAO.Properties.C08Wrap', 'EAO.C08W.leaf_multi',
     'MultiCommodityContract satisfies the leaf hypothesis'),
    ('EAO.Properties.C08Wrap', 'EAO.C08W.leaf_transport',
     'Transport satisfies the leaf hypothesis'),
    ('EAO.Properties.C08Wrap', 'EAO.C08W.leaf_ext_transport',
     'ExtendedTransport satisfies the leaf hypothesis'),
    ('EAO.Properties.C08Wrap', 'EAO.C08W.leaf_storage',
     'Storage (all options) satisfies the leaf hypothesis'),
    ('EAO.Properties.C08Wrap', 'EAO.C08W.leaf_orderbook',
     'OrderBook satisfies the leaf hypothesis'),
    ('EAO.Properties.C08Wrap', 'EAO.C08W.wrapped_rows_in_window',
     'every mapping row of a wrapped problem, whatever the nesting, is the row of a scale variable (type size, step 0) or belongs to a leaf and sits at a step of the horizon whose start lies in the window of the top wrapper AND of every object on the path down to the leaf: window(structure) ∩ ... ∩ window(leaf) ∩ horizon'),
    ('EAO.Properties.C08Wrap', 'EAO.C08W.wrapped_rows_in_window_literal',
     'the same for the problem the literal set-up returns'),
    ('EAO.Properties.C08Wrap', 'EAO.C08W.wrapped_dispatch_in_window',
     'dispatch rows without exception: a wrapped asset is dispatched only at steps inside all windows above it'),
    ('EAO.Properties.C08Wrap', 'EAO.C08W.restore_exact',
     'after the set-up - successful, stopped by a TypeError in the middle of the clipping loop, or aborted by a wrapped builder - every object of the tree carries the start / end it had before'),
    ('EAO.Properties.C08Wrap', 'EAO.C08W.restore_exact_everywhere',
     "an object set up by a wrapper is found afterwards exactly as it was handed over (so the wrapper's finally restores the original)"),
    ('EAO.Properties.C08Wrap', 'EAO.C08W.orderbook_in_structure_window',
     "an order book inside wrappers has mapping rows only at steps whose start lies inside the order AND inside the wrappers' windows"),
    ('EAO.Properties.C08Wrap', 'EAO.C08W.orderbook_window_is_wrappers',
     "an order book has no window of its own: inside a wrapper it gets exactly the wrapper's window"),
    ('EAO.Properties.C08Wrap', 'EAO.C08W.order_outside_structure_window_inert',
     "an order without a step inside the wrappers' windows has cost 0 and no mapping row"),
]

# Lean `BuildError.toString` -> class of the Python exception (harness.impl.err_class)
ERR_MAP = {'type': 'type', 'nan': 'assert', 'assert': 'assert', 'missing-price': 'assert', 'ill-posed': 'value', 'length': 'value',
           'overlap': 'value', 'not-implemented': 'not-implemented', 'index': 'index'}

NAIVE_FORMS = ['dt', 'dt', 'ts', 'np64', 'str', 'date']
AWARE_FORMS = ['dt_tz', 'ts_tz', 'ts_utc', 'dt_utc']
ONE_VAR_PER_STEP = ('SimpleContract', 'Contract', 'Transport', 'Storage', 'Plant')


# ------------------------------------------------------------------ dates
def mk_date(d):
    """the Python object of a date spec {form, iso, tz}"""
    if d is None:
        return None
    ts = pd.Timestamp(d['iso'])
    f = d['form']
    if f == 'dt':
        return ts.to_pydatetime()
    if f == 'ts':
        return ts
    if f == 'date':
        return ts.date()
    if f == 'np64':
        return np.datetime64(ts)
    if f == 'str':
        return d['iso']
    loc = ts.tz_localize(d['tz'])
    if f == 'dt_tz':
        return loc.to_pydatetime()
    if f == 'ts_tz':
        return loc
    if f == 'ts_utc':
        return loc.tz_convert('UTC')
    if f == 'dt_utc':
        return loc.tz_convert('UTC').to_pydatetime()
    raise ValueError(f)


def is_aware(d):
    return d['form'] in AWARE_FORMS


def wall_of(d):
    """seconds of the wall clock of a naive form (as if UTC)"""
    return int(pd.Timestamp(d['iso']).value // 10 ** 9)


def inst_of(d, gtz):
    """instant (seconds, UTC) the date stands for on a grid of zone `gtz` (naive on a grid without zone: as if UTC)"""
    ts = pd.Timestamp(d['iso'])
    if is_aware(d):
        return int(ts.tz_localize(d['tz']).value // 10 ** 9)
    if gtz is None:
        return int(ts.value // 10 ** 9)
    return int(ts.tz_localize(gtz).value // 10 ** 9)


def jdate(d):
    if d is None:
        return None
    if is_aware(d):
        return {'aware': inst_of(d, None)}
    return {'naive': wall_of(d)}


def canon_attr(x):
    """an attribute start / end as the model transports it"""
    if x is None:
        return None
    ts = pd.Timestamp(x)
    if ts.tzinfo is None:
        return {'naive': int(ts.value // 10 ** 9)}
    return {'aware': int(ts.value // 10 ** 9)}


def attr_inst(x, gtz):
    if x is None:
        return None
    ts = pd.Timestamp(x)
    if ts.tzinfo is None:
        ts = ts.tz_localize(gtz if gtz is not None else 'UTC')
    return int(ts.value // 10 ** 9)


def render(rnd, ts, g, aware_prob):
    """date spec of the naive local time `ts` in a random form"""
    if ts is None:
        return None
    iso = gen.iso(ts)
    if rnd.random() < aware_prob:
        tz = g['tz'] if g['tz'] is not None else rnd.choice(['UTC', 'CET'])
        f = rnd.choice(AWARE_FORMS)
        try:
            pd.Timestamp(iso).tz_localize(tz)
        except Exception:
            return {'form': 'dt', 'iso': iso, 'tz': None}
        return {'form': f, 'iso': iso, 'tz': tz}
    f = rnd.choice(NAIVE_FORMS)
    if f == 'date' and pd.Timestamp(iso) != pd.Timestamp(iso).normalize():
        f = 'dt'
    return {'form': f, 'iso': iso, 'tz': None}


# ------------------------------------------------------------------ generator
def _name(path):
    return 'w' + ''.join(str(i) for i in path)


def _window(rnd, g, aware_prob, none_prob=0.25):
    if rnd.random() < none_prob:
        return None, None
    _, s, e = gen.window(rnd, g, kinds=['inside', 'inside', 'inside', 'start_only', 'end_only', 'straddle_start', 'straddle_end',
                                        'covering', 'equal', 'before', 'after', 'offgrid', 'offgrid'])
    return render(rnd, s, g, aware_prob), render(rnd, e, g, aware_prob)


def _gen_simple(rnd, g, prices, T, name, node, fail):
    lo, hi = gen.q8(rnd, -4, 0), gen.q8(rnd, 0, 4)
    mode = rnd.choice(['both', 'both', 'buy', 'sell'])
    if mode == 'buy':
        lo = 0.0
    elif mode == 'sell':
        hi = 0.0
    args = {'min_cap': lo, 'max_cap': hi}
    if fail:
        args['price'] = 'missing_key'
    elif rnd.random() < 0.85:
        args['price'] = gen.price_key(rnd, prices, T)
    if rnd.random() < 0.3:
        args['extra_costs'] = gen.q8(rnd, 0.125, 2)
    return {'cls': 'SimpleContract', 'name': name, 'nodes': [node], 'args': args, 'modelled': True}


def _gen_leaf(rnd, g, prices, T, path, aware_prob, fail=False):
    name = _name(path)
    node = rnd.choice(['N1', 'N1', 'N2', 'I1'])
    kind = 'simple' if fail else rnd.choice(['simple', 'simple', 'simple', 'orderbook', 'orderbook', 'storage', 'transport', 'contract', 'plant'])
    if kind == 'simple':
        a = _gen_simple(rnd, g, prices, T, name, node, fail)
    elif kind == 'orderbook':
        s = gen.gen_orderbook(rnd, g, prices, T, name, node, allow_mip=True)
        a = {'cls': 'OrderBook', 'name': name, 'nodes': [node], 'args': s['args'], 'modelled': True}
    else:
        if kind == 'storage':
            s = gen.gen_storage(rnd, g, prices, T, name, [node], False, False)
        elif kind == 'transport':
            other = rnd.choice([n for n in ['N1', 'N2', 'I1'] if n != node])
            s = gen.gen_transport(rnd, g, prices, T, name, node, other)
        elif kind == 'contract':
            s = gen.gen_contract(rnd, g, prices, T, name, node)
        else:
            s = gen.gen_plant(rnd, g, prices, T, name, [node], chp=False, allow_mip=False)
        s['args'].pop('start', None)
        s['args'].pop('end', None)
        a = {'cls': s['type'], 'name': name, 'nodes': s['nodes'], 'args': s['args'], 'modelled': False}
    if a['cls'] == 'OrderBook':
        a['start'], a['end'] = None, None      # an order book takes no start / end
    else:
        a['start'], a['end'] = _window(rnd, g, aware_prob, none_prob=0.35)
    return a


def _gen_tree(rnd, g, prices, T, path, depth, aware_prob, fail_at):
    """fail_at: a mutable one-element list; when it holds True the next generated leaf gets a missing price key"""
    r = rnd.random()
    if depth == 0 or (path and r < 0.6):
        fail = fail_at[0] and rnd.random() < 0.5
        if fail:
            fail_at[0] = False
        return _gen_leaf(rnd, g, prices, T, path, aware_prob, fail)
    name = _name(path)
    s, e = _window(rnd, g, aware_prob, none_prob=0.15 if not path else 0.3)
    if r < 0.82 or not path and r < 0.75:
        ext = ['N1'] if rnd.random() < 0.6 else ['N1', 'N2']
        n = rnd.randint(1, 4 if depth > 1 else 3)
        inner = [_gen_tree(rnd, g, prices, T, path + [i], depth - 1, aware_prob, fail_at) for i in range(n)]
        return {'cls': 'StructuredAsset', 'name': name, 'nodes': ext, 'start': s, 'end': e, 'inner': inner}
    base = _gen_tree(rnd, g, prices, T, path + [0], depth - 1, aware_prob, fail_at)
    args = {'min_scale': 0.0, 'max_scale': gen.q8(rnd, 0.5, 4), 'norm_scale': rnd.choice([1.0, 2.0, 0.5]),
            'fix_costs': gen.q8(rnd, 0, 3)}
    return {'cls': 'ScaledAsset', 'name': name, 'start': s, 'end': e, 'args': args, 'base': base}


def gen_case(rnd, stream=None):
    stream = stream or rnd.choice(['plain', 'plain', 'plain', 'plain', 'mixed', 'fail'])
    g = gen.gen_grid(rnd, tmin=3, tmax=10, tz_prob=0.45,
                     grids=[x for x in gen.GRIDS if (x[0], x[1]) != ('h', 'd')])   # (dt = 1/24 is not dyadic)
    T = gen.real_T(g)
    prices = {}
    if stream == 'mixed':
        aware_prob = rnd.choice([0.15, 0.4]) if g['tz'] is not None else 0.12
    elif g['tz'] is not None:
        aware_prob = rnd.choice([0.0, 0.0, 1.0])      # one family of forms throughout: comparable
    else:
        aware_prob = 0.0
    fail_at = [stream == 'fail']
    tree = _gen_tree(rnd, g, prices, T, [], rnd.choice([1, 2, 2, 3]), aware_prob, fail_at)
    if tree['cls'] not in ('StructuredAsset', 'ScaledAsset'):
        tree = {'cls': 'StructuredAsset', 'name': 'w', 'nodes': ['N1'], 'start': None, 'end': None,
                'inner': [_gen_leaf(rnd, g, prices, T, [0], aware_prob, fail_at[0])]}
        s, e = _window(rnd, g, aware_prob, none_prob=0.1)
        tree['start'], tree['end'] = s, e
    gg = {k: v for k, v in g.items() if not k.startswith('_')}
    return {'stream': stream, 'grid': gg, 'prices': prices, 'tree': tree}


# ------------------------------------------------------------------ walking the spec
def subs(spec):
    if spec['cls'] == 'ScaledAsset':
        return [spec['base']]
    if spec['cls'] == 'StructuredAsset':
        return spec['inner']
    return []


def walk(spec, path=()):
    """(path, spec) of every object, the wrapper before what it wraps"""
    yield list(path), spec
    for i, c in enumerate(subs(spec)):
        yield from walk(c, tuple(path) + (i,))


def all_modelled(spec):
    return all(s.get('modelled', True) for _, s in walk(spec))


# ------------------------------------------------------------------ real objects
def build_obj(spec, nodes):
    cls = spec['cls']
    if cls == 'ScaledAsset':
        base = build_obj(spec['base'], nodes)
        o = eao.assets.ScaledAsset(name=spec['name'], base_asset=base, **spec['args'])
    elif cls == 'StructuredAsset':
        inner = [build_obj(s, nodes) for s in spec['inner']]
        o = StructuredAsset(name=spec['name'], nodes=[nodes[n] for n in spec['nodes']], portfolio=Portfolio(inner))
    else:
        o = scen.build_asset({'type': cls, 'name': spec['name'], 'nodes': spec['nodes'], 'args': spec['args']}, nodes)
    o.start = mk_date(spec.get('start'))
    o.end = mk_date(spec.get('end'))
    return o


def obj_subs(o):
    if isinstance(o, eao.assets.ScaledAsset):
        return [o.base_asset]
    if isinstance(o, StructuredAsset):
        return list(o.portfolio.assets)
    return []


def walk_obj(o, path=()):
    yield list(path), o
    for i, c in enumerate(obj_subs(o)):
        yield from walk_obj(c, tuple(path) + (i,))


def run_impl(case):
    tg = scen.make_grid(case['grid'])
    gtz = case['grid'].get('tz')
    nodes = scen.make_nodes(['N1', 'N2', 'I1'])
    top = build_obj(case['tree'], nodes)
    prices = {k: np.asarray(v, dtype=float) for k, v in case['prices'].items()}
    objs = list(walk_obj(top))
    path_of = {id(o): p for p, o in objs}
    before = {tuple(p): (o.start, o.end) for p, o in objs}
    trace, captured = [], {}
    orig_set = Asset.set_timegrid

    def rec_set(self, timegrid):
        s, e = self.start, self.end
        orig_set(self, timegrid)
        if id(self) in path_of:
            r = self.timegrid.restricted
            trace.append({'path': path_of[id(self)], 'start': attr_inst(s, gtz), 'end': attr_inst(e, gtz),
                          'idx': [int(i) for i in r.I], 'dt_sum': fs(float(np.sum(r.dt)))})
    for p, o in objs:
        orig = o.setup_optim_problem

        def wrapped(*a, _orig=orig, _p=tuple(p), **kw):
            op = _orig(*a, **kw)
            captured.setdefault(_p, []).append(copy.deepcopy(op))
            return op
        o.__dict__['setup_optim_problem'] = wrapped
    Asset.set_timegrid = rec_set
    err, op = None, None
    try:
        with Quiet(), warnings.catch_warnings():
            warnings.simplefilter('ignore')
            op = top.setup_optim_problem(prices, tg)
    except Exception as ex:  # noqa: BLE001
        err = err_class(ex)
    finally:
        Asset.set_timegrid = orig_set
        for _, o in objs:
            o.__dict__.pop('setup_optim_problem', None)
    after, same = {}, True
    for p, o in objs:
        after[tuple(p)] = (canon_attr(o.start), canon_attr(o.end))
        b = before[tuple(p)]
        if o.start is not b[0] or o.end is not b[1]:
            same = False
    cap = {}
    for p, ops in captured.items():
        last = ops[-1]
        m = getattr(last, 'mapping', None)
        steps = sorted(set(int(t) for t in m['time_step'])) if m is not None and len(m) > 0 and 'time_step' in m.columns else []
        cap[p] = {'steps': steps, 'n': int(len(last.l)), 'c_last': (fs(last.c[-1]) if len(last.c) else None)}
    tgj = {'pts': [int(t.value // 10 ** 9) for t in (tg.timepoints if gtz is None else tg.timepoints.tz_convert('UTC'))],
           'idx': [int(i) for i in tg.I], 'dt': [fs(v) for v in tg.dt], 'Dt': [fs(v) for v in tg.Dt],
           'df': [fs(1.0) for _ in tg.dt],
           'gs': attr_inst(tg.start, gtz), 'ge': attr_inst(tg.end, gtz)}
    return {'error': err, 'problem': None if op is None else problem_json(op), 'trace': trace, 'after': after, 'same_objects': same,
            'captured': cap, 'grid': tgj, 'T': int(tg.T)}


# ------------------------------------------------------------------ request
def _order_inst(v, gtz):
    ts = pd.Timestamp(scen.dec(v))
    if ts.tzinfo is None:
        ts = ts.tz_localize(gtz if gtz is not None else 'UTC')
    return int(ts.value // 10 ** 9)


def node_json(spec, gtz):
    cls = spec['cls']
    j = {'start': jdate(spec.get('start')), 'end': jdate(spec.get('end'))}
    if cls == 'StructuredAsset':
        j.update(kind='structured', name=spec['name'], ext=spec['nodes'], inner=[node_json(s, gtz) for s in spec['inner']])
    elif cls == 'ScaledAsset':
        a = spec['args']
        b = spec['base']
        while b['cls'] == 'ScaledAsset':
            b = b['base']
        j.update(kind='scaled', base=node_json(spec['base'], gtz),
                 params={'name': spec['name'], 'node0': b['nodes'][0], 'min_scale': fs(a['min_scale']), 'max_scale': fs(a['max_scale']),
                         'norm_scale': fs(a['norm_scale']), 'fix_costs': fs(a['fix_costs'])})
    elif cls == 'SimpleContract' and spec.get('modelled'):
        a = spec['args']
        j.update(kind='simple', params={'name': spec['name'], 'nodes': spec['nodes'], 'price': a.get('price'),
                                        'extra_costs': {'scalar': fs(a.get('extra_costs', 0.0))},
                                        'min_cap': {'scalar': fs(a['min_cap'])}, 'max_cap': {'scalar': fs(a['max_cap'])}})
    elif cls == 'OrderBook':
        o = spec['args']['orders']
        j.update(kind='orderbook', name=spec['name'], node=spec['nodes'][0], full_exec=bool(spec['args'].get('full_exec', False)),
                 orders={'start': [_order_inst(v, gtz) for v in o['start']], 'stop': [_order_inst(v, gtz) for v in o['end']],
                         'capa': [fs(v) for v in o['capa']], 'price': [fs(v) for v in o['price']]})
    else:
        j.update(kind='leaf', name=spec['name'], node=spec['nodes'][0], fail=None)
    return j


def request(case, impl_result):
    gtz = case['grid'].get('tz')
    g = impl_result['grid']
    loc = []
    for _, s in walk(case['tree']):
        for k in ('start', 'end'):
            d = s.get(k)
            if d is not None and not is_aware(d):
                loc.append([wall_of(d), inst_of(d, gtz)])
    return {'op': OP, 'grid': {k: g[k] for k in ('pts', 'idx', 'dt', 'Dt', 'df')}, 'gs': g['gs'], 'ge': g['ge'],
            'aware': gtz is not None, 'loc': loc, 'prices': {k: [fs(x) for x in v] for k, v in case['prices'].items()},
            'fullT': impl_result['T'], 'tree': node_json(case['tree'], gtz)}


# ------------------------------------------------------------------ compare
def _collapse(evs):
    out = []
    for e in evs:
        k = (tuple(e['path']), e['start'], e['end'], tuple(e['idx']), Fraction(e['dt_sum']))
        if not out or out[-1] != k:
            out.append(k)
    return out


def _canon_rows(rows):
    out = []
    for r in rows:
        acc = {}
        for j, v in r['coeffs']:
            acc[int(j)] = acc.get(int(j), Fraction(0)) + Fraction(v)
        out.append((sorted((j, v) for j, v in acc.items() if v != 0), Fraction(r['rhs']), r['kind']))
    return out


def _canon_map(ms):
    return [(int(m['var']), m['asset'], m['node'], m['kind'], int(m['step']), Fraction(m['factor']), bool(m['bool']), m['var_name'])
            for m in ms]


def cmp_problem(tag, a, b):
    """a, b: asset / problem JSON; exact"""
    dis = []
    for k in ('c', 'l', 'u'):
        if [Fraction(x) for x in a[k]] != [Fraction(x) for x in b[k]]:
            dis.append('%s: %s differs' % (tag, k))
    if _canon_rows(a['rows']) != _canon_rows(b['rows']):
        dis.append('%s: rows differ' % tag)
    if _canon_map(a['mapping']) != _canon_map(b['mapping']):
        dis.append('%s: mapping differs' % tag)
    return dis


def _after_tree(spec_after, path=()):
    yield tuple(path), (spec_after['start'], spec_after['end'])
    for i, c in enumerate(spec_after['subs']):
        yield from _after_tree(c, tuple(path) + (i,))


def compare(case, ir, mr):
    dis = []
    merr = mr['error']
    if (ERR_MAP.get(merr, merr) if merr is not None else None) != ir['error']:
        dis.append('error: impl %r model %r' % (ir['error'], merr))
    # trace
    ti, tm = _collapse(ir['trace']), _collapse(mr['trace'])
    if ti != tm:
        dis.append('trace differs: impl %r model %r' % (ti[:6], tm[:6]))
    # attributes afterwards
    am = dict(_after_tree(mr['after']))
    if am != ir['after']:
        dis.append('attributes after the call differ: impl %r model %r' % (ir['after'], am))
    if not ir['same_objects']:
        dis.append('attributes after the call are not the objects they were')
    spec_of = {tuple(p): s for p, s in walk(case['tree'])}
    if {p: (jdate(s.get('start')), jdate(s.get('end'))) for p, s in spec_of.items()} != am:
        dis.append('model: attributes after the call differ from those before')
    # problems
    if ir['error'] is None and merr is None and all_modelled(case['tree']):
        dis += cmp_problem('literal', mr['problem'], ir['problem'])
    pe = mr['pure']['error']
    if merr != 'type':
        if pe != merr:
            dis.append('model: pure level error %r, literal %r' % (pe, merr))
        elif merr is None:
            dis += cmp_problem('pure vs literal', mr['pure']['problem'], mr['problem'])
    # effective windows read from the captured problems
    eff = {tuple(e['path']): e for e in mr['eff']}
    dts = {i: Fraction(v) for i, v in zip(ir['grid']['idx'], ir['grid']['dt'])}
    if merr != 'type':
        for p, c in ir['captured'].items():
            s = spec_of[p]
            e = eff[p]
            if s['cls'] in ('StructuredAsset',):
                continue
            if s['cls'] == 'ScaledAsset':
                if c['n'] > 0 and c['c_last'] is not None:      # (an inactive base: the empty problem is handed on, no scale)
                    want = Fraction(s['args']['fix_costs']) * sum(dts[i] for i in e['idx'])
                    if Fraction(c['c_last']) != want:
                        dis.append('scaled %s: fix costs %s, own effective window gives %s' % (s['name'], c['c_last'], want))
                continue
            if not set(c['steps']) <= set(e['idx']):
                dis.append('leaf %s: captured steps %r outside effective window %r' % (s['name'], c['steps'], e['idx']))
            if s['cls'] in ONE_VAR_PER_STEP and c['steps'] != sorted(e['idx']):
                dis.append('leaf %s: captured steps %r, effective window %r' % (s['name'], c['steps'], e['idx']))
    return dis


# ------------------------------------------------------------------ oracle (real code alone)
def _viol(name, detail, **facts):
    return {'oracle': name, 'detail': detail, 'facts': facts}


def _pts(case):
    tg = scen.make_grid(case['grid'])
    return tg


def oracle(case, ir):
    out = []
    if not ir['same_objects']:
        out.append(_viol('not_restored', 'start / end of a wrapped object is another object after the set-up', stream=case['stream']))
    spec_of = {tuple(p): s for p, s in walk(case['tree'])}
    for p, s in spec_of.items():
        if ir['after'][p] != (jdate(s.get('start')), jdate(s.get('end'))):
            out.append(_viol('not_restored', 'start / end of %s changed: %r' % (s['name'], ir['after'][p]), stream=case['stream']))
    if ir['error'] is not None:
        return out
    tg = _pts(case)
    gtz = case['grid'].get('tz')

    def inside(t, d_lo, d_hi):
        for d in d_lo:
            x = pd.Timestamp(mk_date(d))
            if x.tzinfo is None:
                x = x.tz_localize(gtz) if gtz is not None else x
            if not (t >= x):
                return False
        for d in d_hi:
            x = pd.Timestamp(mk_date(d))
            if x.tzinfo is None:
                x = x.tz_localize(gtz) if gtz is not None else x
            if not (t < x):
                return False
        return True
    for p, c in ir['captured'].items():
        s = spec_of[p]
        if s['cls'] in ('StructuredAsset', 'ScaledAsset'):
            continue
        los = [spec_of[p[:k]].get('start') for k in range(len(p) + 1)]
        his = [spec_of[p[:k]].get('end') for k in range(len(p) + 1)]
        los = [d for d in los if d is not None]
        his = [d for d in his if d is not None]
        want = [int(i) for i, t in zip(tg.I, tg.timepoints) if inside(t, los, his)]
        extra = sorted(set(c['steps']) - set(want))
        if extra:
            out.append(_viol('wrapped_outside_window', '%s has variables at steps %r outside the windows above it' % (s['name'], extra),
                             cls=s['cls'], depth=len(p)))
        if s['cls'] in ONE_VAR_PER_STEP and sorted(set(want) - set(c['steps'])):
            out.append(_viol('window_not_reached', '%s lacks steps %r of its window' % (s['name'], sorted(set(want) - set(c['steps']))),
                             cls=s['cls'], depth=len(p)))
    return out


# ------------------------------------------------------------------ drivers, self-test
class ScratchDriver:
    """a line-protocol driver run through the Lean interpreter from a scratch Main (development only)"""

    def __init__(self, main='/tmp/pkg-wrapwin/Main.lean'):
        self.p = subprocess.Popen(['lake', 'env', 'lean', '--run', main], cwd=LEAN_DIR, stdin=subprocess.PIPE,
                                  stdout=subprocess.PIPE, text=True, bufsize=1)

    def ask(self, req):
        self.p.stdin.write(json.dumps(req) + '\n')
        self.p.stdin.flush()
        line = self.p.stdout.readline()
        if not line:
            raise RuntimeError('driver died on request op=%s' % req.get('op'))
        return json.loads(line)

    def close(self):
        try:
            self.p.stdin.close()
            self.p.wait(timeout=5)
        except Exception:
            self.p.kill()


def run_case(case, drv):
    """returns (disagreements, violations, impl_result, model_result)"""
    ir = run_impl(case)
    r = drv.ask(request(case, ir))
    if 'ok' not in r:
        return ['driver: %s' % r.get('err')], [], ir, None
    mr = r['ok']
    return compare(case, ir, mr), oracle(case, ir), ir, mr


def features(case, ir):
    f = set()
    f.add('stream:' + case['stream'])
    f.add('err:%s' % ir['error'])
    f.add('tz' if case['grid'].get('tz') else 'naive-grid')
    depth = max(len(p) for p, _ in walk(case['tree']))
    f.add('depth:%d' % depth)
    for p, s in walk(case['tree']):
        f.add('cls:' + s['cls'])
        for k in ('start', 'end'):
            if s.get(k) is not None:
                f.add('form:' + s[k]['form'])
        if s['cls'] == 'ScaledAsset':
            f.add('scaled-over:' + s['base']['cls'])
        if s['cls'] == 'StructuredAsset':
            for c in s['inner']:
                f.add('structured-around:' + c['cls'])
    if ir['error'] is None and all_modelled(case['tree']):
        f.add('exact-problem')
    return f


def selftest(n, seed, drv, verbose=False):
    rnd = random.Random(seed)
    res = {'cases': 0, 'disagreements': [], 'violations': [], 'errors': {}, 'features': {}, 'exact_problems': 0}
    for k in range(n):
        case = gen_case(rnd)
        dis, viol, ir, mr = run_case(case, drv)
        res['cases'] += 1
        res['errors'][str(ir['error'])] = res['errors'].get(str(ir['error']), 0) + 1
        for ft in features(case, ir):
            res['features'][ft] = res['features'].get(ft, 0) + 1
        if ir['error'] is None and all_modelled(case['tree']):
            res['exact_problems'] += 1
        if dis:
            res['disagreements'].append({'k': k, 'dis': dis, 'case': case})
            if verbose:
                print('DISAGREEMENT case', k, dis[:3])
        if viol:
            res['violations'].append({'k': k, 'viol': viol, 'case': case})
            if verbose:
                print('VIOLATION case', k, viol[:3])
    return res


if __name__ == '__main__':
    n = int(sys.argv[1]) if len(sys.argv) > 1 else 100
    seed = int(sys.argv[2]) if len(sys.argv) > 2 else 1
    if os.path.exists('/tmp/pkg-wrapwin/Main.lean'):
        d = ScratchDriver()
    else:
        from ..lean import Driver
        d = Driver()      # the compiled driver (after the handler `handleWrapWindow` is registered in Main.lean)
    try:
        r = selftest(n, seed, d, verbose=True)
    finally:
        d.close()
    print(json.dumps({k: (v if k not in ('disagreements', 'violations') else len(v)) for k, v in r.items()}, indent=1, sort_keys=True))
    for x in r['disagreements'][:3]:
        print(json.dumps(x, default=str)[:3000])
