"""Component correspondence + property oracles for `eaopack.basic_classes.Timegrid.prices_to_grid` (property C19, prices).

A case is a plain JSON value:
  {grid: {start, end, freq, unit, tz},                the top-level grid (gen.gen_grid)
   target: {kind: 'full'} | {kind: 'restricted', i0, i1} | {kind: 'outside'} | {kind: 'coarse', k},
                                                     the Timegrid object whose method is called: the grid itself, its
                                                     restriction to the steps i0..i1-1, a restriction that misses the
                                                     horizon (T = 0), a coarse restriction (k fine steps per coarse step)
   form: see FORMS,                                  the Python form of the `prices` argument
   zone: None | tz name,                             zone of the timestamps of a datetime-indexed form
   index: [sec],  cols: [[name, [v|None]]],           forms with ONE index (DataFrame, arrays, lists, numeric keys)
   percol: [[name, [[sec, v|None], …]]],              forms with one index PER COLUMN (dict of dicts, dict of Series)
   stream: 'exact' | 'tolerant', pattern: str}

* build_prices(case, tg)  the Python object handed to the real code
* run_impl(case)          real code: `prices_to_grid` on the target grid (+ the derived calls the oracles need: the result
                          gridded again, the same data gridded on the full grid / on a restriction, caller's data after the call)
* request(case, rec)      JSON request for the Lean driver (op `prices_to_grid`).  The FRAME is an input of the model: it is
                          built here with the same pandas expressions as in the code (`DataFrame.from_dict`, `pd.to_datetime`
                          of the keys); what the model does starts at the frame: index path, union, interpolation, selection.
* compare(...)            disagreement strings: error class; per entry EXACT where the entry is an entry of the input or lies
                          outside the defined range (no arithmetic happens), 1e-12 relative where it is interpolated in floating
                          point (the positions are nanoseconds: slopes are not dyadic, whatever the values)
* oracle(...)             statements on the real code alone: pass-through of gridded data (NaN gaps filled = known finding F-19f),
                          between / constant outside, idempotence, restriction commutes with gridding (direct and in the
                          split form: gridding the gridded frame on the sub-grid), caller's data untouched
"""
import copy
import math
import random
import warnings
from fractions import Fraction

import numpy as np
import pandas as pd

import eaopack as eao
from .. import gen
from ..impl import Quiet, err_class
from ..lean import fs

NAME = 'prices'
TOL = 1e-12

# ------------------------------------------------------------------ registered theorems (audited with `#print axioms`)
M = 'EAO.Properties.C19Prices'
THEOREMS_C19_PRICES = [
    (M, 'EAO.C19P.column_is_pointwise',
     'one column brought to any grid: the entry at grid instant p is np.interp of the DEFINED rows at p (none iff the column has no defined row) - a function of the rows and p alone'),
    (M, 'EAO.C19P.gridded_passthrough',
     'a column that has a defined value at every grid instant comes back with exactly these values, whatever other instants (defined or not) the input has'),
    (M, 'EAO.C19P.gridded_passthrough_array',
     'an array / numeric-index frame of the grid\'s length without undefined entries comes back unchanged; any other length (with at least one column) is the error class length'),
    (M, 'EAO.C19P.passthrough_models_agree',
     'the earlier model of the gridded case (pricesPassThrough, EAO.C19.gridded_passthrough) is the special case one array without undefined entry of this model: same acceptance, same result, same error class'),
    (M, 'EAO.C19P.gridded_passthrough_frame',
     'a frame with a sorted datetime index of the grid\'s kind: every column that is defined at all grid instants comes back with its values at these instants'),
    (M, 'EAO.C19P.interp_linear',
     'between two neighbouring defined rows (a,v), (b,w) the entry at a grid instant p, a <= p <= b, is (w-v)/(b-a)*(p-a)+v'),
    (M, 'EAO.C19P.interp_linear\'',
     'the same entry in the usual form v + (w-v)*(p-a)/(b-a)'),
    (M, 'EAO.C19P.interp_between',
     'that entry lies between min(v,w) and max(v,w), equals v at p = a and w at p = b'),
    (M, 'EAO.C19P.interp_const_outside',
     'at grid instants up to the first defined row the entry is the first defined value, from the last defined row on the last defined value'),
    (M, 'EAO.C19P.interp_defined_iff',
     'a column with at least one defined row is defined at every grid instant; a column without one is undefined at every grid instant'),
    (M, 'EAO.C19P.interp_idempotent',
     'the gridded column put back on its grid instants and gridded again is unchanged'),
    (M, 'EAO.C19P.interp_idempotent_frame',
     'whatever prices_to_grid returns (any index kind, unsorted keys), handed back as a frame on the grid instants (datetime index or numeric index) it returns the same'),
    (M, 'EAO.C19P.nan_filled_witness',
     'machine-checked instance of finding F-19f: the gridded array [nan,1,2,nan,4] comes back as [1,1,2,3,4]'),
    (M, 'EAO.C19P.interp_restrict',
     'restricting the grid by any mask commutes with gridding a column'),
    (M, 'EAO.C19P.interp_restrict_frame',
     'for a frame with a datetime index: gridding on the masked grid = masking the columns of the result on the whole grid (same error class otherwise, grid not empty after masking)'),
    (M, 'EAO.C19P.split_sees_same_prices',
     'the split set-up: gridding on the whole grid, then gridding THAT frame on a masked grid gives the masked columns - the same values the unsplit set-up sees at these steps'),
    (M, 'EAO.C19P.sort_irrelevant',
     'the order of the rows of a frame with distinct instants does not matter'),
    (M, 'EAO.C19P.error_classes',
     'exactly when prices_to_grid fails: numeric index of another length than the grid (with a column); repeated instant (grid not empty); naive index on a zone-aware grid or the reverse (with a column and a row after the union)'),
]

FORMS = ['arrays', 'lists', 'dict_num', 'series_range', 'df_range', 'df_float',          # numeric index: rows ARE the grid points
         'df', 'df_str', 'dict_ts', 'dict_str', 'dict_series', 'dict_date']               # datetime index / keys
NUMERIC_FORMS = FORMS[:6]


# ------------------------------------------------------------------ grid objects
def make_grids(case):
    """(top-level Timegrid, Timegrid whose prices_to_grid is called)"""
    g = case['grid']
    tg = eao.Timegrid(pd.Timestamp(g['start']).to_pydatetime(), pd.Timestamp(g['end']).to_pydatetime(), freq=g['freq'],
                      main_time_unit=g.get('unit', 'h'), timezone=g.get('tz'))
    t = case['target']
    if t['kind'] == 'full':
        return tg, tg
    pts = list(tg.timepoints) + [tg.end]
    if t['kind'] == 'restricted':
        tg.set_restricted_grid(pts[t['i0']], pts[t['i1']])
    elif t['kind'] == 'outside':
        step = pts[1] - pts[0]
        tg.set_restricted_grid(pts[-1] + 2 * step, pts[-1] + 4 * step)
    elif t['kind'] == 'coarse':
        tg.set_restricted_grid(freq='%d%s' % (t['k'] * t['n'], t['u']))
    return tg, tg.restricted


def secs(ts):
    """integer seconds since the epoch; naive timestamps: wall clock read as UTC"""
    ts = pd.Timestamp(ts)
    v = ts.value
    assert v % 10 ** 9 == 0, 'instants on whole seconds only'
    return int(v // 10 ** 9)


def grid_secs(cur):
    return [secs(p) for p in cur.timepoints]


def stamp(sec, zone):
    """the instant as a Timestamp of the frame's zone (None: naive, wall clock = UTC clock)"""
    ts = pd.Timestamp(sec, unit='s', tz='UTC')
    return ts.tz_localize(None) if zone is None else ts.tz_convert(zone)


def val(v):
    return float('nan') if v is None else float(v)


# ------------------------------------------------------------------ the prices object
def build_prices(case):
    f = case['form']
    z = case.get('zone')
    if f == 'arrays':
        return {n: np.array([val(v) for v in vs], dtype=float) for n, vs in case['cols']}
    if f == 'lists':
        return {n: [val(v) for v in vs] for n, vs in case['cols']}
    if f == 'dict_num':
        return {n: {k: val(v) for k, v in zip(case['index'], vs)} for n, vs in case['cols']}
    if f == 'series_range':
        return {n: pd.Series([val(v) for v in vs], dtype=float) for n, vs in case['cols']}
    if f in ('df_range', 'df_float'):
        df = pd.DataFrame({n: np.array([val(v) for v in vs], dtype=float) for n, vs in case['cols']})
        if f == 'df_float':
            df.index = pd.Index(np.array(case['index'], dtype=float))
        elif case.get('index') is not None:
            df.index = pd.Index(np.array(case['index'], dtype=int))
        return df
    if f in ('df', 'df_str'):
        if f == 'df':
            idx = pd.DatetimeIndex([stamp(s, z) for s in case['index']], tz=z)
        else:
            idx = pd.Index([key_str(s, z) for s in case['index']], dtype=object)
        return pd.DataFrame({n: np.array([val(v) for v in vs], dtype=float) for n, vs in case['cols']}, index=idx)
    if f == 'dict_ts':
        return {n: {stamp(s, z): val(v) for s, v in rows} for n, rows in case['percol']}
    if f == 'dict_date':
        return {n: {stamp(s, None).to_pydatetime(): val(v) for s, v in rows} for n, rows in case['percol']}
    if f == 'dict_str':
        return {n: {key_str(s, z): val(v) for s, v in rows} for n, rows in case['percol']}
    if f == 'dict_series':
        return {n: pd.Series([val(v) for _, v in rows], index=pd.DatetimeIndex([stamp(s, z) for s, _ in rows], tz=z), dtype=float)
                for n, rows in case['percol']}
    raise ValueError('unknown form %r' % f)


def key_str(sec, z):
    """ISO key; a zone is written as a FIXED offset (the one of the first instant is used for all keys of the case by the generator)"""
    if z is None:
        return stamp(sec, None).strftime('%Y-%m-%d %H:%M:%S')
    off = pd.Timedelta(z)   # fixed offset such as '+01:00:00' given as a Timedelta string
    ts = pd.Timestamp(sec, unit='s') + off
    s = int(off.total_seconds())
    return ts.strftime('%Y-%m-%d %H:%M:%S') + '%s%02d:%02d' % ('+' if s >= 0 else '-', abs(s) // 3600, abs(s) % 3600 // 60)


def frame_of(prices):
    """the frame as the code builds it, up to the index path: (DataFrame, index description) — pandas' own work"""
    if not isinstance(prices, pd.DataFrame):
        prices = pd.DataFrame.from_dict(prices)
    if isinstance(prices.index, pd.DatetimeIndex):
        idx = prices.index
    elif pd.api.types.is_any_real_numeric_dtype(prices.index):
        return prices, {'numeric': int(len(prices.index))}
    else:
        idx = pd.to_datetime(prices.index)
    if not isinstance(idx, pd.DatetimeIndex):
        raise TypeError('keys of mixed zones: no DatetimeIndex')
    return prices, {'instants': [secs(t) for t in idx], 'aware': idx.tz is not None}


def col_values(series):
    return [None if (isinstance(x, float) and math.isnan(x)) or pd.isna(x) else Fraction(float(x)) for x in series.values]


def out_json(df):
    return [[str(c), col_values(df[c])] for c in df.columns]


def err_tag(e):
    """error class; the three ValueErrors of the component are told apart by a key word of pandas' message"""
    c = err_class(e)
    m = str(e)
    if c == 'value':
        if 'Length mismatch' in m:
            return 'length'
        if 'duplicate labels' in m:
            return 'duplicate'
        if 'time-weighted' in m:
            return 'tz'
    return c + ':' + type(e).__name__


def same_frame(a, b):
    """bitwise equality of two gridded frames (NaN = NaN), as list of differences"""
    d = []
    if list(a.columns) != list(b.columns):
        return ['columns %s vs %s' % (list(a.columns), list(b.columns))]
    if len(a) != len(b):
        return ['length %d vs %d' % (len(a), len(b))]
    for c in a.columns:
        x, y = np.asarray(a[c].values, dtype=float), np.asarray(b[c].values, dtype=float)
        bad = ~((x == y) | (np.isnan(x) & np.isnan(y)))
        if bad.any():
            i = int(np.argmax(bad))
            d.append('column %s entry %d: %r vs %r' % (c, i, float(x[i]), float(y[i])))
    return d


def snapshot(obj):
    """a comparable picture of the caller's data"""
    if isinstance(obj, pd.DataFrame):
        return ('df', [repr(i) for i in obj.index], str(obj.index.dtype), [(str(c), [repr(float(x)) for x in obj[c].values]) for c in obj.columns])
    if isinstance(obj, dict):
        return ('dict', [(str(k), snapshot(v)) for k, v in obj.items()])
    if isinstance(obj, pd.Series):
        return ('series', [repr(i) for i in obj.index], [repr(float(x)) for x in obj.values])
    if isinstance(obj, np.ndarray):
        return ('array', [repr(float(x)) for x in obj])
    if isinstance(obj, list):
        return ('list', [repr(x) for x in obj])
    return repr(obj)


# ------------------------------------------------------------------ real code
def run_impl(case):
    rec = {}
    with warnings.catch_warnings():
        warnings.simplefilter('ignore')
        with Quiet():
            tg, cur = make_grids(case)
        rec['pts'] = grid_secs(cur)
        rec['aware'] = case['grid'].get('tz') is not None
        rec['full_pts'] = grid_secs(tg)
        prices = build_prices(case)
        before = snapshot(prices)
        try:
            fr, idx = frame_of(build_prices(case))
            rec['frame'] = {'index': idx, 'cols': out_json(fr)}
        except Exception as e:
            rec['frame'] = {'err': err_class(e) + ':' + type(e).__name__}
        try:
            with Quiet():
                df = cur.prices_to_grid(prices)
            rec['result'] = {'cols': out_json(df), 'rows': int(len(df)),
                             'index_ok': bool(len(df.index) == len(cur.timepoints) and all(a == b for a, b in zip(df.index, cur.timepoints)))}
        except Exception as e:
            rec['result'] = {'err': err_tag(e), 'msg': str(e)[:120]}
            df = None
        rec['input_unchanged'] = snapshot(prices) == before
        if df is None:
            return rec
        # gridded again: the frame itself, and its columns as arrays
        try:
            with Quiet():
                again = cur.prices_to_grid(df)
                arr = cur.prices_to_grid({c: df[c].values for c in df.columns})
            rec['again'] = same_frame(df, again) + ['(as arrays) ' + s for s in same_frame(df, arr)]
        except Exception as e:
            rec['again'] = ['raised %s: %s' % (type(e).__name__, str(e)[:100])]
        # restriction commutes with gridding (datetime-indexed data only: arrays are tied to the length of their grid)
        if case['form'] not in NUMERIC_FORMS and case['target']['kind'] in ('full', 'restricted') and len(df) > 0:
            try:
                with Quiet():
                    full = tg.prices_to_grid(build_prices(case)) if cur is not tg else df
                    rec['restrict_direct'] = same_frame(full.loc[cur.timepoints], df) if cur is not tg else []
                    # the split form: sub-grids of the target grid, fed with the gridded frame and with the raw data
                    subs = []
                    T = len(rec['pts'])
                    for (a, b) in case.get('subs', []):
                        sub = eao.Timegrid(cur.timepoints[a], (list(cur.timepoints) + [cur.end])[b] if b <= T else cur.end, freq=tg.freq,
                                           main_time_unit=tg.main_time_unit, ref_timegrid=tg)
                        if sub.T == 0:
                            continue
                        d1 = sub.prices_to_grid(df)
                        d2 = sub.prices_to_grid(build_prices(case))
                        want = df.loc[sub.timepoints]
                        subs.append({'ab': [a, b], 'T': int(sub.T), 'split': same_frame(want, d1), 'direct': same_frame(want, d2)})
                    rec['subs'] = subs
            except Exception as e:
                rec['restrict_err'] = '%s: %s' % (type(e).__name__, str(e)[:100])
    return rec


# ------------------------------------------------------------------ model request / comparison
def request(case, rec):
    fr = rec['frame']
    if 'err' in fr:
        return None
    return {'op': 'prices_to_grid', 'pts': rec['pts'], 'aware': rec['aware'], 'index': fr['index'],
            'cols': [[n, [None if v is None else fs(v) for v in vs]] for n, vs in fr['cols']]}


def entry_kinds(pts, index, vals):
    """per grid instant: 'kept' (a defined entry of the input), 'outside' (up to the first / from the last defined instant),
    'interp' (strictly between two defined instants), 'none' (column without defined entry)"""
    known = sorted((t, v) for t, v in zip(index, vals) if v is not None)
    if not known:
        return ['none'] * len(pts)
    ts = {t for t, _ in known}
    return ['kept' if p in ts else ('outside' if p < known[0][0] or p > known[-1][0] else 'interp') for p in pts]


def compare(case, rec, model):
    dis = []
    res = rec['result']
    if 'err' in res or 'err' in model:
        fr0 = rec.get('frame') or {}
        inst = (fr0.get('index') or {}).get('instants')
        if len(rec.get('pts', [])) == 0 and inst is not None and len(set(inst)) != len(inst) and {res.get('err'), model.get('err')} <= {None, 'duplicate'}:
            # a target grid WITHOUT any point and an index with a repeated instant: whether pandas' reindex(index.union(empty)) raises
            # depends on whether the union comes back as the identical index object (zone conversion, sortedness) - outside the model,
            # and no value is produced either way
            return dis
        if res.get('err') != model.get('err'):
            dis.append('error class: code %s (%s), model %s' % (res.get('err', 'no error'), res.get('msg', ''), model.get('err', 'no error')))
        return dis
    if not res['index_ok']:
        dis.append('the returned frame is not indexed by the grid points (%d rows, %d grid points)' % (res['rows'], len(rec['pts'])))
        return dis
    mc = model['cols']
    if [n for n, _ in mc] != [n for n, _ in res['cols']]:
        return ['columns: code %s, model %s' % ([n for n, _ in res['cols']], [n for n, _ in mc])]
    fr = rec['frame']
    index = rec['pts'] if 'numeric' in fr['index'] else fr['index']['instants']
    for (n, a), (_, b), (_, inp) in zip(res['cols'], mc, fr['cols']):
        if len(a) != len(b):
            dis.append('column %s: %d entries (code) vs %d (model)' % (n, len(a), len(b)))
            continue
        kinds = entry_kinds(rec['pts'], index, inp)
        scale = max([1] + [abs(v) for v in inp if v is not None])
        for i, (x, y, k) in enumerate(zip(a, b, kinds)):
            y = None if y is None else Fraction(y)
            if (x is None) != (y is None):
                dis.append('column %s entry %d: code %s, model %s' % (n, i, x, y))
                break
            if x is None or x == y:
                continue
            if k != 'interp' or abs(x - y) > Fraction(TOL) * scale:
                dis.append('column %s entry %d (%s): code %r, model %s' % (n, i, k, float(x), y))
                break
    return dis


def exact_share(case, rec, model):
    """(bit-exact interpolated entries, interpolated entries)"""
    if 'cols' not in rec['result'] or 'cols' not in model:
        return 0, 0
    fr = rec['frame']
    index = rec['pts'] if 'numeric' in fr['index'] else fr['index']['instants']
    ex = tot = 0
    for (n, a), (_, b), (_, inp) in zip(rec['result']['cols'], model['cols'], fr['cols']):
        for x, y, k in zip(a, b, entry_kinds(rec['pts'], index, inp)):
            if k == 'interp' and x is not None and y is not None:
                tot += 1
                ex += int(x == Fraction(y))
    return ex, tot


def interp_check(rec, drv):
    """the model's `npInterp` against numpy's `np.interp` itself (the function pandas calls), on the defined rows of the first
    column and the grid instants plus the instants of the rows (knots included), positions in nanoseconds as pandas passes them"""
    fr = rec['frame']
    if 'err' in fr or not fr['cols'] or 'numeric' in fr['index']:
        return []
    index = fr['index']['instants']
    if len(set(index)) != len(index):
        return []
    known = sorted((t, v) for t, v in zip(index, fr['cols'][0][1]) if v is not None)
    if not known:
        return []
    xs = sorted(set(rec['pts']) | set(index))
    ans = drv.ask({'op': 'prices_interp', 'known': [[t, fs(v)] for t, v in known], 'x': xs})
    if 'ok' not in ans:
        return ['driver: %s' % ans.get('err')]
    got = np.interp(np.array(xs, dtype=np.int64) * 10 ** 9, np.array([t for t, _ in known], dtype=np.int64) * 10 ** 9,
                    np.array([float(v) for _, v in known]))
    ts = {t for t, _ in known}
    scale = max([1] + [abs(v) for _, v in known])
    for x, a, b in zip(xs, got, ans['ok']):
        a, b = Fraction(float(a)), Fraction(b)
        inner = known[0][0] < x < known[-1][0] and x not in ts
        if a != b and (not inner or abs(a - b) > Fraction(TOL) * scale):
            return ['np.interp at %d: numpy %r, model %s' % (x, float(a), b)]
    return []


# ------------------------------------------------------------------ oracles on the real code alone
def oracle(case, rec):
    viol = []

    def add(name, detail, **facts):
        viol.append({'oracle': name, 'detail': detail, 'facts': dict(facts, form=case['form'], target=case['target']['kind'])})

    res = rec['result']
    fr = rec['frame']
    if not rec.get('input_unchanged', True):
        add('prices.input_unchanged', 'the caller\'s price data differ after the call')
    if 'err' in res or 'err' in fr:
        return viol
    pts = rec['pts']
    numeric = 'numeric' in fr['index']
    index = pts if numeric else fr['index']['instants']
    if len(set(index)) != len(index):
        return viol
    for (n, out), (_, inp) in zip(res['cols'], fr['cols']):
        if len(out) != len(pts):
            add('prices.shape', 'column %s has %d entries on a grid of %d points' % (n, len(out), len(pts)))
            continue
        at = dict(zip(index, inp))
        known = sorted((t, v) for t, v in at.items() if v is not None)
        # (1) gridded data pass through unchanged
        if all(p in at for p in pts):
            want = [at[p] for p in pts]
            if any(w is None for w in want):
                if numeric and out != want:
                    i = [k for k in range(len(pts)) if out[k] != want[k]][0]
                    add('prices.passthrough', 'array on the grid, entry %d undefined, comes back as %s' % (i, out[i]),
                        kind='prices_nan_filled', column=n)
            elif out != want:
                i = [k for k in range(len(pts)) if out[k] != want[k]][0]
                add('prices.passthrough', 'column %s is defined at every grid point; entry %d: %s given, %s returned' % (n, i, want[i], out[i]),
                    kind='changed', column=n)
        else:
            for i, p in enumerate(pts):
                if at.get(p) is not None and out[i] != at[p]:
                    add('prices.passthrough', 'column %s has the value %s at grid point %d; %s returned' % (n, at[p], i, out[i]), kind='changed', column=n)
                    break
        # (2) defined everywhere iff some entry defined
        if known and any(v is None for v in out):
            add('prices.defined', 'column %s has defined entries but an undefined result' % n)
        if not known and any(v is not None for v in out):
            add('prices.defined', 'column %s has no defined entry but a defined result' % n)
        if not known:
            continue
        # (3) between the neighbours / constant outside / linear
        for i, p in enumerate(pts):
            r = out[i]
            if r is None:
                continue
            if p <= known[0][0]:
                if r != known[0][1]:
                    add('prices.const_outside', 'column %s grid point %d lies before the first defined entry: %s, first value %s' % (n, i, r, known[0][1]))
                    break
                continue
            if p >= known[-1][0]:
                if r != known[-1][1]:
                    add('prices.const_outside', 'column %s grid point %d lies after the last defined entry: %s, last value %s' % (n, i, r, known[-1][1]))
                    break
                continue
            j = max(k for k in range(len(known)) if known[k][0] <= p)
            (a, v), (b, w) = known[j], known[j + 1]
            tol = Fraction(TOL) * max(1, abs(v), abs(w))
            if r < min(v, w) - tol or r > max(v, w) + tol:
                add('prices.between', 'column %s grid point %d: %s outside [%s, %s]' % (n, i, float(r), float(min(v, w)), float(max(v, w))))
                break
            lin = v + (w - v) * Fraction(p - a, b - a)
            if abs(r - lin) > tol:
                add('prices.linear', 'column %s grid point %d: %r, linear in time between the neighbours %r' % (n, i, float(r), float(lin)))
                break
    # (4) idempotence
    for d in rec.get('again', []):
        add('prices.idempotent', 'gridding the gridded frame again: ' + d)
    # (5) restriction commutes with gridding
    for d in rec.get('restrict_direct', []):
        add('prices.restrict', 'gridding on the restricted grid vs restriction of the result on the whole grid: ' + d)
    if 'restrict_err' in rec:
        add('prices.restrict', 'gridding on a sub-grid raised ' + rec['restrict_err'])
    for s in rec.get('subs', []):
        for d in s['split']:
            add('prices.restrict', 'split form, steps %s: %s' % (s['ab'], d), how='split')
        for d in s['direct']:
            add('prices.restrict', 'direct form, steps %s: %s' % (s['ab'], d), how='direct')
    return viol


# ------------------------------------------------------------------ generator
COLS = ['p', 'q', 'r', 'price', 'fuel']


def q8(rnd, lo=-4, hi=24):
    return rnd.randint(lo * 8, hi * 8) / 8.0


def anyval(rnd, stream):
    if stream == 'exact':
        return q8(rnd)
    return rnd.choice([q8(rnd), round(rnd.uniform(-5, 60), rnd.choice([1, 2, 3])), rnd.uniform(-1, 1) * 10 ** rnd.randint(-3, 3)])


def with_gaps(rnd, vals, pattern):
    """undefined entries inside an array that lies on its instants"""
    n = len(vals)
    v = list(vals)
    if pattern == 'full' or n == 0:
        return v
    if pattern == 'all_nan':
        return [None] * n
    if pattern == 'single':
        k = rnd.randrange(n)
        return [v[i] if i == k else None for i in range(n)]
    if pattern == 'edges':       # undefined at the start and / or the end: constant extension
        a = rnd.randint(0, max(0, n // 2))
        b = rnd.randint(0, max(0, n - a - 1))
        return [None if (i < a or i >= n - b) else v[i] for i in range(n)]
    if pattern == 'holes':
        prob = rnd.choice([0.15, 0.3, 0.6])
        return [None if rnd.random() < prob else v[i] for i in range(n)]
    if pattern == 'f19f' and n >= 5:   # the recorded situation: [nan, 1, 2, nan, 4]
        v[0] = None
        v[3] = None
        return v
    return v


def gen_case(rnd, malformed_prob=0.08):
    stream = 'exact' if rnd.random() < 0.6 else 'tolerant'
    g = gen.gen_grid(rnd, tmin=1 if rnd.random() < 0.08 else 2, tmax=rnd.choice([6, 10, 16, 30]), tz_prob=0.35)
    g.pop('_pts', None)
    T = g['T_nominal']
    step = g['step_s']
    case = {'grid': g, 'stream': stream, 'target': {'kind': 'full'}}
    r = rnd.random()
    if r < 0.22 and T >= 2:
        i0 = rnd.randint(0, T - 1)
        case['target'] = {'kind': 'restricted', 'i0': i0, 'i1': rnd.randint(i0 + 1, T)}
    elif r < 0.26:
        case['target'] = {'kind': 'outside'}
    elif r < 0.33 and T >= 4 and g['freq'] in ('h', '2h', '30min', '15min') and g.get('tz') in (None, 'UTC'):
        n, u = {'h': (1, 'h'), '2h': (2, 'h'), '30min': (30, 'min'), '15min': (15, 'min')}[g['freq']]
        case['target'] = {'kind': 'coarse', 'k': rnd.choice([2, 3, 4]), 'n': n, 'u': u}
    with Quiet():
        tg, cur = make_grids(case)
    pts = grid_secs(cur)
    Tc = len(pts)
    tz = g.get('tz')
    malformed = rnd.random() < malformed_prob
    ncol = rnd.choice([1, 1, 2, 2, 3])
    names = rnd.sample(COLS, ncol)
    form = rnd.choice(FORMS + ['df', 'dict_ts', 'arrays'])
    case['form'] = form
    if form in NUMERIC_FORMS:
        n = Tc
        if malformed:
            n = max(0, Tc + rnd.choice([-2, -1, 1, 2, 5]))
            case['pattern'] = 'wrong_length'
        pat = rnd.choice(['full', 'full', 'holes', 'edges', 'single', 'all_nan', 'f19f'])
        case.setdefault('pattern', pat)
        case['cols'] = [[nm, with_gaps(rnd, [anyval(rnd, stream) for _ in range(n)], pat if k == 0 else rnd.choice(['full', pat]))]
                        for k, nm in enumerate(names)]
        if form == 'dict_num':
            keys = list(range(n))
            how = rnd.choice(['range', 'shuffled', 'offset', 'float'])
            if how == 'shuffled':
                rnd.shuffle(keys)
            elif how == 'offset':
                keys = [3 * k + 7 for k in keys]
            elif how == 'float':
                keys = [k + 0.5 for k in keys]
            case['index'] = keys
        elif form == 'df_float':
            case['index'] = [k * 0.25 for k in range(n)]
        elif form == 'df_range':
            case['index'] = rnd.choice([None, [k + 1 for k in range(n)], [5 * k + 2 for k in range(n)]])
        if rnd.random() < 0.05:
            case['cols'] = []      # a frame without columns may change its length
            case['form'] = 'df_range'
            case['index'] = list(range(n))
        return case
    # ---- datetime-indexed forms
    # zone of the timestamps: the grid's kind (same zone, UTC, another zone) or - malformed - the other kind
    if tz is None:
        zone = None
        if malformed and rnd.random() < 0.5:
            zone = rnd.choice(['UTC', 'CET'])
    else:
        zone = rnd.choice([tz, tz, 'UTC', 'Asia/Tokyo'])
        if malformed and rnd.random() < 0.5:
            zone = None
    if form == 'dict_date':
        zone = None
    if form in ('df_str', 'dict_str') and zone is not None:
        zone = rnd.choice(['01:00:00', '00:00:00', '-05:00:00', '05:30:00'])   # ISO keys with a fixed offset
    case['zone'] = zone
    # lattice of candidate instants: step / 2^j, from a few steps before the grid to a few steps after it
    j = rnd.choice([0, 1, 1, 2])
    q = step // (2 ** j)
    lo = (pts[0] if pts else secs(tg.timepoints[0])) - rnd.choice([0, 1, 3]) * step
    hi = (pts[-1] if pts else secs(tg.timepoints[-1])) + rnd.choice([0, 1, 3]) * step
    lattice = list(range(lo, hi + 1, q))

    def pick_instants(pattern):
        if pattern == 'on_grid':
            return list(pts)
        if pattern == 'on_grid_plus':      # all grid points and some instants in between / outside
            return sorted(set(pts) | set(rnd.sample(lattice, min(len(lattice), rnd.randint(1, 6)))))
        if pattern == 'off_grid':
            c = [t for t in lattice if t not in set(pts)] or lattice
            return sorted(rnd.sample(c, min(len(c), rnd.randint(1, 8))))
        if pattern == 'sparse':
            return sorted(rnd.sample(lattice, min(len(lattice), rnd.randint(1, 4))))
        if pattern == 'dense':
            return sorted(rnd.sample(lattice, max(1, int(len(lattice) * rnd.choice([0.5, 0.8, 1.0])))))
        if pattern == 'pow2':              # neighbouring instants at distances q * 2^m
            out, t = [], lo + rnd.randint(0, 3) * q
            while t <= hi + 4 * step and len(out) < 40:
                out.append(t)
                t += q * 2 ** rnd.randint(0, 3)
            return out
        if pattern == 'before':
            return [pts[0] - k * q for k in range(rnd.randint(1, 3), 0, -1)] if pts else [lo]
        if pattern == 'after':
            return [pts[-1] + k * q for k in range(1, rnd.randint(2, 4))] if pts else [hi]
        if pattern == 'inside' and len(pts) >= 3:
            c = [t for t in lattice if pts[0] < t < pts[-1]]
            return sorted(rnd.sample(c, min(len(c), rnd.randint(1, 5))))
        if pattern == 'empty':
            return []
        return sorted(rnd.sample(lattice, min(len(lattice), 3)))

    patterns = ['on_grid', 'on_grid_plus', 'off_grid', 'off_grid', 'sparse', 'sparse', 'dense', 'dense', 'dense', 'pow2', 'pow2', 'pow2',
                'before', 'after', 'inside', 'inside']
    pat = rnd.choice(patterns)
    if rnd.random() < 0.03:
        pat = 'empty'
    case['pattern'] = pat
    gaps = ['full', 'full', 'holes', 'edges', 'single', 'all_nan']
    if form in ('df', 'df_str'):
        idx = pick_instants(pat)
        if malformed and rnd.random() < 0.5 and len(idx) >= 1 and form == 'df':
            # a repeated instant; kept away from the one situation outside the model (sorted index containing every grid point)
            k = rnd.randrange(len(idx))
            idx = idx[:k] + [idx[k]] + idx[k:]
            if Tc > 0 and set(pts) <= set(idx):
                idx = idx[::-1] if len(set(idx)) > 1 else idx + [pts[0] - q]
            case['pattern'] = pat + '+dup'
        elif rnd.random() < 0.25:
            rnd.shuffle(idx)
            case['pattern'] = pat + '+unsorted'
        case['index'] = idx
        case['cols'] = [[nm, with_gaps(rnd, [anyval(rnd, stream) for _ in idx], rnd.choice(gaps))] for nm in names]
        if rnd.random() < 0.04:
            case['cols'] = []
    else:
        percol = []
        for k, nm in enumerate(names):
            idx = pick_instants(pat if k == 0 or rnd.random() < 0.5 else rnd.choice(patterns))
            if form in ('dict_ts', 'dict_str', 'dict_date') and rnd.random() < 0.25:
                rnd.shuffle(idx)
            vals = with_gaps(rnd, [anyval(rnd, stream) for _ in idx], rnd.choice(gaps))
            percol.append([nm, [[t, v] for t, v in zip(idx, vals)]])
        if all(len(rows) == 0 for _, rows in percol):
            percol[0][1] = [[lattice[0], 1.0]]
        case['percol'] = percol
    # sub-grids for the restriction statement
    if Tc >= 2 and case['target']['kind'] in ('full', 'restricted'):
        subs = []
        for _ in range(rnd.randint(1, 2)):
            a = rnd.randint(0, Tc - 1)
            subs.append([a, rnd.randint(a + 1, Tc)])
        case['subs'] = subs
    return case


def corner_cases():
    """the matrix of the quirks around the error classes: (naive | aware grid) x (full | empty target) x index (empty, sorted,
    unsorted, repeated instant) x zone (same kind | other kind) x (columns | no column), and the recorded F-19f input"""
    out = []
    t0 = 1609459200   # 2021-01-01 00:00 UTC
    for tz in (None, 'CET'):
        g = {'start': '2021-01-01T00:00:00', 'end': '2021-01-01T05:00:00', 'freq': 'h', 'unit': 'h', 'tz': tz,
             'T_nominal': 5, 'step_s': 3600}
        base = t0 - (3600 if tz else 0)
        for target in ({'kind': 'full'}, {'kind': 'outside'}, {'kind': 'restricted', 'i0': 1, 'i1': 3}):
            for idx in ([], [base + 1800, base + 9000], [base + 9000, base + 1800], [base + 1800, base + 1800, base + 9000],
                        [base + 9000, base + 1800, base + 1800], [base + 3600 * k for k in range(5)]):
                for zone in (None, 'UTC', 'CET'):
                    for cols in (True, False):
                        c = {'grid': dict(g), 'stream': 'exact', 'target': dict(target), 'form': 'df', 'zone': zone,
                             'pattern': 'corner', 'index': list(idx),
                             'cols': [['p', [float(k + 1) for k in range(len(idx))]], ['q', [None] * len(idx)]] if cols else []}
                        out.append(c)
            for n in (0, 3, 5, 2):
                for cols in (True, False):
                    out.append({'grid': dict(g), 'stream': 'exact', 'target': dict(target), 'form': 'df_range', 'index': None, 'pattern': 'corner',
                                'cols': [['p', [float(k) for k in range(n)]]] if cols else [], 'index': list(range(n))})
        out.append({'grid': dict(g), 'stream': 'exact', 'target': {'kind': 'full'}, 'form': 'arrays', 'pattern': 'f19f',
                    'cols': [['p', [None, 1.0, 2.0, None, 4.0]]]})
    return out


# ------------------------------------------------------------------ one case, self-test
def features(case, rec, model):
    f = ['form:' + case['form'], 'target:' + case['target']['kind'], 'stream:' + case['stream'], 'pattern:' + str(case.get('pattern'))]
    if case['grid'].get('tz'):
        f.append('grid:tz')
    res = rec['result']
    f.append('result:' + ('error:' + res['err'] if 'err' in res else ('empty' if not rec['pts'] else 'frame')))
    if 'cols' in res:
        fr = rec['frame']
        if 'cols' in fr:
            index = rec['pts'] if 'numeric' in fr['index'] else fr['index']['instants']
            ks = set()
            for (_, inp) in fr['cols']:
                ks |= set(entry_kinds(rec['pts'], index, inp))
            f += ['entries:' + k for k in sorted(ks)]
    if rec.get('subs'):
        f.append('subgrids')
    return f


def run_case(case, drv):
    rec = run_impl(case)
    r = {'evaluated': 1, 'nontrivial': False, 'features': [], 'disagreements': [], 'violations': [], 'exact': (0, 0)}
    req = request(case, rec)
    if req is None:
        # pandas refuses to build the frame: before the model; the code must fail as well
        r['features'] = ['form:' + case['form'], 'frame-error:' + rec['frame']['err']]
        if 'err' not in rec['result']:
            r['disagreements'].append({'component': 'prices', 'detail': 'the frame cannot be built (%s) but prices_to_grid returned' % rec['frame']['err']})
        return r
    ans = drv.ask(req)
    if 'ok' not in ans:
        r['disagreements'].append({'component': 'prices', 'detail': 'driver: %s' % ans.get('err')})
        return r
    model = ans['ok']
    r['features'] = features(case, rec, model)
    for d in compare(case, rec, model):
        r['disagreements'].append({'component': 'prices', 'detail': d})
    for d in interp_check(rec, drv):
        r['disagreements'].append({'component': 'prices.np_interp', 'detail': d})
    r['exact'] = exact_share(case, rec, model)
    r['violations'] = oracle(case, rec)
    r['nontrivial'] = 'cols' in rec['result'] and any(any(v is not None for v in vs) for _, vs in rec['result']['cols'])
    return r


def selftest(n, seed, drv, verbose=False):
    rnd = random.Random(seed)
    counts = {'cases': 0, 'disagreeing': 0, 'violating': 0, 'violating_known_F19f_only': 0, 'nontrivial': 0,
              'interpolated_entries': 0, 'interpolated_bit_exact': 0}
    feats = {}
    dis, viol = [], []
    corner = corner_cases()
    counts['corner_cases'] = len(corner)
    for i in range(-len(corner), n):
        case = corner[i] if i < 0 else gen_case(random.Random(rnd.getrandbits(48)))
        r = run_case(case, drv)
        counts['cases'] += 1
        counts['nontrivial'] += int(r['nontrivial'])
        counts['interpolated_bit_exact'] += r['exact'][0]
        counts['interpolated_entries'] += r['exact'][1]
        for f in r['features']:
            feats[f] = feats.get(f, 0) + 1
        if r['disagreements']:
            counts['disagreeing'] += 1
            dis.append((i, case, r['disagreements']))
            if verbose:
                print('DISAGREE', i, case['form'], case.get('pattern'), r['disagreements'][:2])
        if r['violations']:
            if all(v['facts'].get('kind') == 'prices_nan_filled' for v in r['violations']):
                counts['violating_known_F19f_only'] += 1
            else:
                counts['violating'] += 1
                viol.append((i, case, r['violations']))
                if verbose:
                    print('VIOLATION', i, [(v['oracle'], v['detail']) for v in r['violations']][:3])
    return {'counts': counts, 'features': feats, 'disagreements': dis, 'violations': viol}
