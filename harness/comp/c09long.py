"""C09, widened region: LONG time grids (12..60 steps, thorough: up to 130) under names that are confusable THROUGH CONCATENATION.

The adversarial and the confusable name pools of the other streams of C09 meet short grids only (at most 8..12 steps), so a step
number there has one digit, seldom two.  Whatever is built by gluing a name to something else - a name and a step number, a name and
a name with a separator the package itself uses (' (' and ')' of the dispatch labels, '__' of the variable names of wrappers,
'_internal_' of the nodes of a LinkedAsset), a name and a literal - is distinct for distinct inputs only if the glue cannot be read
as part of a name.  The families here are built on exactly that: around one drawn stem X the names X / X+digits / X+'1'+digits /
X+digits+digits, pure digit strings next to names that end in digits, X and X+separator(+Y), X and X+'nan', X and X+<something
that looks like a step suffix> ('_3', '.3', '_t3', '_step_3', ' 3', ...), and - for ANY family - a drawn member with drawn digits
appended once more.  Node names AND asset names come from such families (as drawn from the same one: an asset may bear the name
of a node).

The portfolios are tiny and cheap (LP only): 2..3 nodes, a market per node at its own price level with its own price series, one
or two further cheap assets (a fixed demand, a cheap supply, a storage, a contract with takes, seldom a transport between two
nodes), some of them on their own window - so that WHICH flows meet at which (node, step) shows in the optimal value: two
(node, step) pairs that are taken for one, or one that is taken for two, change it.

Nothing here knows what the package does with a name; the generators only produce inputs (base scenario under plainly distinct
names N1, N2, mkt_N1, a1, ... and an injective renaming onto the confusable names)."""
from .. import gen, scen

STEMS = ['n', 'hub', 'mk', 'N', 'no', 'x', 'a', 'gas', 'pw', 'q', 'k', 'node', 'z_', 'B-', 'el', 'T']


def digits(r):
    """a short digit string: mostly one digit 1..5 (<digits><step number> is then again a step number of a grid of 12..60 steps),
    sometimes 0, 6..9 or two digits (also with a leading zero)"""
    u = r.random()
    if u < 0.6:
        return str(r.randint(1, 5))
    if u < 0.68:
        return '0'
    if u < 0.78:
        return str(r.randint(6, 9))
    if u < 0.9:
        return r.choice(['10', '11', '12', '20', '21', '01', '00', '13'])
    return str(r.randint(1, 5)) + str(r.randint(0, 9))


def stem(r):
    return r.choice(STEMS) if r.random() < 0.8 else r.choice(STEMS) + r.choice(STEMS)


def fam_chain(r):
    x, d1, d2 = stem(r), digits(r), digits(r)
    return [x, x + d1, x + '1' + d1, x + d1 + d2, x + d2, x + d1 + '0', x + '0' + d1, x + '1']


def fam_digits(r):
    x, d1, d2 = r.choice(['1', '1', '2', '3', '0', '10', '4']), digits(r), digits(r)
    return [x, x + d1, x + '1' + d1, x + d1 + d2, d1 + x, x + '0', '0' + x, x + x, d2]


def fam_tail(r):
    """names that END in digits next to names that ARE digits"""
    x, d1, d2 = stem(r), digits(r), digits(r)
    return [x + d1, d1, x, d1 + d2, x + d1 + d2, d1 + x, x + '_' + d1, d2, x + d2, d1 + x + d1]


def fam_paren(r):
    """the separators of the dispatch labels '<asset> (<node>)'"""
    x, y, d1 = stem(r), stem(r), digits(r)
    return [x, x + ' (', x + ')', x + ' (' + y + ')', x + ' (' + y, y + ')', '(' + x + ')', x + ' ()', x + ' (' + y + d1 + ')',
            x + ') (' + y, x + '(' + y + ')', x + ' (' + d1 + ')', x + ' ', y]


def fam_sep(r):
    """the separators of the variable names of wrappers ('__') and of the nodes inside a LinkedAsset ('_internal_')"""
    x, y, d1 = stem(r), stem(r), digits(r)
    return [x, x + '__' + y, x + '_internal_' + y, x + '__', '__' + y, x + '_' + y, x + '_internal_', '_internal_' + y, x + '___' + y,
            x + '__' + y + d1, '__', '_internal_', x + '_', y]


def fam_nan(r):
    x, d1, d2 = stem(r), digits(r), digits(r)
    return [x, x + 'nan', 'nan', 'nan' + d1, 'NaN', 'nan' + x, x + '_nan', 'nan' + d1 + d2, 'na', 'None', 'nan ', 'inf', 'inf' + d1, 'None' + d1]


def fam_step(r):
    """suffixes that look like the way a step number (or a time) might be appended to a name"""
    x, d1, d2 = stem(r), digits(r), digits(r)
    return [x, x + '_' + d1, x + '_0', x + '.' + d1, x + '-' + d1, x + ' ' + d1, x + '_t' + d1, x + '_step_' + d1, x + '_' + d1 + d2,
            x + d1 + '.0', x + '@' + d1, x + '[' + d1 + ']', x + ':' + d1, x + ',' + d1, x + 't' + d1, x + '_' + d1 + '.0', x + '_', x + '.']


FAMILIES = {'chain': fam_chain, 'digits': fam_digits, 'tail': fam_tail, 'paren': fam_paren, 'sep': fam_sep, 'nan': fam_nan, 'step': fam_step}
WEIGHTS = ['chain', 'chain', 'chain', 'digits', 'digits', 'tail', 'tail', 'paren', 'sep', 'nan', 'step', 'step']


def is_digits(s):
    return len(s) > 0 and all(ch in '0123456789' for ch in s)


def related(a, b):
    """one name is the other followed (or preceded) by digits only"""
    for u, v in ((a, b), (b, a)):
        if len(v) > len(u) and ((v.startswith(u) and is_digits(v[len(u):])) or (v.endswith(u) and is_digits(v[:len(v) - len(u)]))):
            return True
    return False


def family(r, name=None):
    """(family name, candidates; the plain form first).  For ANY family, as drawn, a drawn member gets drawn digits appended
    (m+D, m+'1'+D, m+D+D'): every name has a neighbour by concatenation with a number"""
    name = name or r.choice(WEIGHTS)
    cand = list(dict.fromkeys(c for c in FAMILIES[name](r) if c))
    if r.random() < 0.6:
        m, d, e = r.choice(cand[:6]), digits(r), digits(r)
        cand += [c for c in (m + d, m + '1' + d, m + d + e) if c not in cand]
    return name, cand


def pick(r, cand, n, avoid=()):
    """n pairwise distinct names from the candidates: the plain form first (mostly), then with preference names that are a chosen
    name followed / preceded by digits (or the other way round)"""
    pool = [c for c in cand if c not in avoid]
    out = []
    if pool and r.random() < 0.7:
        out.append(pool[0])
    while len(out) < n and len(out) < len(pool):
        rest = [c for c in pool if c not in out]
        w = [5.0 if any(related(c, o) for o in out) else 1.0 for c in rest]
        out.append(r.choices(rest, weights=w)[0])
    k = 0
    while len(out) < n:
        c = 'z%d' % k
        k += 1
        if c not in out and c not in avoid:
            out.append(c)
    r.shuffle(out)
    return out


def draw_names(r, asset_names, node_names):
    """injective renamings (amap, nmap) onto confusable names; info = families used"""
    fn, cn = family(r)
    nn = pick(r, cn, len(node_names))
    u = r.random()
    if u < 0.35:
        # the same family and stem once more: assets bear the names of nodes or of their neighbours
        fa, ca = fn, list(cn)
        r.shuffle(ca)
        an = pick(r, list(dict.fromkeys(nn + ca)) if r.random() < 0.5 else ca, len(asset_names))
    else:
        fa, ca = family(r, fn if u < 0.5 else None)
        an = pick(r, ca, len(asset_names), avoid=() if r.random() < 0.5 else tuple(nn))
    amap = {a: an[k] for k, a in enumerate(asset_names)}
    nmap = {n: nn[k] for k, n in enumerate(node_names)}
    return amap, nmap, {'nodes': 'long:' + fn, 'assets': 'long:' + fa}


def gen_long(r2, tier):
    """a tiny LP portfolio on a long grid: 2..3 nodes, a market per node (own price level and series; two-way or buy-only), one or
    two further cheap assets"""
    g = gen.gen_grid(r2, tmin=12, tmax=60 if tier == 'quick' else 130, tz_prob=0.05)
    T = scen.make_grid(g).T
    prices = {}
    nodes = ['N1', 'N2'] + (['N3'] if r2.random() < 0.35 else [])
    out = []
    cap = {}
    for n in nodes:
        key = 'p%d' % len(prices)
        lvl = r2.choice([1, 4, 8, 12, 16])
        prices[key] = [gen.q8(r2, lvl, lvl + 6) for _ in range(T)]
        c = gen.q8(r2, 2, 8)
        cap[n] = c
        a = {'type': 'SimpleContract', 'name': 'mkt_' + n, 'nodes': [n],
             'args': {'min_cap': -c if r2.random() < 0.7 else 0.0, 'max_cap': c, 'price': key}}
        if r2.random() < 0.3:
            a['args']['extra_costs'] = gen.q8(r2, 0.125, 1)
        out.append(a)
    for k in range(1 if r2.random() < 0.5 else 2):
        nm = 'a%d' % (k + 1)
        node = r2.choice(nodes)
        kind = r2.choice(['demand', 'demand', 'demand', 'supply', 'supply', 'supply', 'storage', 'storage', 'contract', 'transport'])
        if kind == 'demand':
            d = min(gen.q8(r2, 0.5, 3), cap[node])
            a = {'type': 'SimpleContract', 'name': nm, 'nodes': [node], 'args': {'min_cap': -d, 'max_cap': -d}}
        elif kind == 'supply':
            a = {'type': 'SimpleContract', 'name': nm, 'nodes': [node], 'args': {'min_cap': 0.0, 'max_cap': gen.q8(r2, 0.5, 4), 'extra_costs': gen.q8(r2, 0, 2)}}
            if r2.random() < 0.3:
                key = 'p%d' % len(prices)
                prices[key] = [gen.q8(r2, 0, 4) for _ in range(T)]
                a['args']['price'] = key
        elif kind == 'storage':
            a = gen.gen_storage(r2, g, prices, T, nm, [node], False, False)
        elif kind == 'contract':
            a = gen.gen_contract(r2, g, prices, T, nm, node)
        else:
            two = r2.sample(nodes, 2)
            a = gen.gen_transport(r2, g, prices, T, nm, two[0], two[1])
        if 'start' not in a['args'] and 'end' not in a['args'] and r2.random() < 0.3:
            gen.put_window(a['args'], gen.window(r2, g, kinds=['inside', 'start_only', 'end_only']))
        out.insert(r2.randint(0, len(out)), a)
    return {'grid': g, 'nodes': nodes, 'prices': prices, 'assets': out}
