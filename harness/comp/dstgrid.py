"""Component correspondence + property oracles for daily grids in zones with daylight saving (properties C19 + C12):
`eaopack.Timegrid(start, end, freq='<k>d', main_time_unit, timezone=zone)` against the Lean model `EAO.dayGrid` /
`EAO.dayGridNaive` (`EAO/Model/DstGrid.lean`, driver op `day_grid`).

A case is a plain JSON value:
  {zone: tz name, k: 1|2|3|7, freq: 'd'|'D'|'2d'|…, unit: 'h'|'d'|'min',
   start: {'wall': 'YYYY-MM-DD HH:MM'} | {'instant': sec},     naive datetime (the constructor localises it) or an instant
   end:   likewise,                                            handed over as zone-aware Timestamp
   pattern: str}

* zone_table(zone, lo, hi)  the zone as a finite table {base, trans:[[instant, offset]]} from the zone data base (pytz, the
                            one pandas uses) for the instants lo..hi - an INPUT of the model
* run_impl(case)            the real constructor: points, I, dt, Dt, start, end (or the error class)
* request(case)             JSON request for the driver (op `day_grid`); `ambiguousFirst` = which instant pandas takes for a naive
                            wall time that exists twice (the reading flagged as DST in the zone data base: an input)
* compare(...)              error class; points / I / start / end exact; dt, Dt exact as fractions for the units h and min
                            (integers), 1e-12 relative for the unit d (23 h / 1 d is no dyadic number)
* oracle(...)               on the real code alone: points strictly increasing, first = start, all < end; every point is a local
                            wall time start + j*k days; every step lasts k*86400 s minus the change of UTC offset across it;
                            the total is the elapsed time from start to the closing point (= end when the end lies on the
                            lattice of days); what is not covered at the end is shorter than one step
"""
import datetime as dtm
import random
from fractions import Fraction

import numpy as np
import pandas as pd
import pytz

import eaopack as eao
from ..impl import Quiet, err_class
from ..lean import fs

NAME = 'dstgrid'
UNIT_SEC = {'h': 3600, 'd': 86400, 'min': 60}

M = 'EAO.Properties.C19Dst'
THEOREMS_C19_DST = [
    (M, 'EAO.C19D.localize_ok_iff',
     'tz_localize of a wall time answers the instant u exactly when u has this wall time and no other instant has it'),
    (M, 'EAO.C19D.localize_error_iff',
     'it raises NonExistentTimeError exactly when no instant has the wall time, AmbiguousTimeError exactly when two different instants have it; there is no other error'),
    (M, 'EAO.C19D.day_grid_walls',
     'a daily range that is built: as many points as whole periods of k days fit between the wall times of start and end plus one; the j-th point is THE instant whose local wall time is wall(start) + j*k days (local midnights for a start at midnight)'),
    (M, 'EAO.C19D.day_grid_points',
     'zone whose offsets differ by less than k days, wall(start) <= wall(end): the points are strictly increasing, the first is the start, none lies after the end (the last under the order hypothesis on the zone or the decidable endOK, e.g. end on the lattice of days)'),
    (M, 'EAO.C19D.wall_le_of_wallOrder',
     'under the order hypothesis wall(start) <= wall(end) follows from start <= end for a range that is built'),
    (M, 'EAO.C19D.day_grid_dt',
     'each step lasts k*86400 s minus the change of UTC offset across it (23 h / 25 h days), in main time units dt_j*unit = that; every dt > 0'),
    (M, 'EAO.C19D.day_grid_total',
     'Dt_j is the elapsed time from the start to the end of step j; the step lengths add up to the elapsed time from the start to the closing point; = end - start (and T = n) when wall(end) = wall(start) + n*k days'),
    (M, 'EAO.C19D.day_grid_calendarOK',
     'for these grids CalendarOK holds: all C19 theorems about calendar grids apply without the hypothesis on what pandas returned'),
    (M, 'EAO.C19D.day_grid_calendar_points',
     'dayGrid that is built: start < end, grid points strictly increasing, first = start, all before the end, I = 0..T-1 (EAO.C19.calendar_grid_points without hypothesis)'),
    (M, 'EAO.C19D.day_grid_errors',
     'dayGrid fails exactly with: assert when start >= end; else the class of the first wall time of the range, then of start, then of end, that no instant or two instants have'),
    (M, 'EAO.C19D.wallOrder_of_no_drop',
     'the order hypothesis holds for every zone table whose offsets never decrease in time'),
    (M, 'EAO.C19D.wallOrder_of_regular',
     'the order hypothesis holds for every REGULAR zone table (decidable Zone.regular: instants in order, each setting-back of the clock at most as large as the gaps to the neighbouring transitions)'),
    (M, 'EAO.C19D.regular_witness',
     'machine-checked: the CET 2021 table is regular and satisfies the order hypothesis; a table set forward 2 h and back 1 h within 1000 s is not regular and the order hypothesis fails for it'),
    (M, 'EAO.C19D.cet_spring_autumn_witness',
     'machine-checked instances: CET 2021 spring day of 23 h, autumn day of 25 h, 2-day step of 47 h; unit d: 23/24'),
    (M, 'EAO.C19D.midnight_change_witness',
     'zones changing at midnight: Sao Paulo 2018-11-04 00:00 does not exist (NonExistentTimeError), Havana 2021-11-07 00:00 exists twice (AmbiguousTimeError), Lord Howe 30 min: day of 24.5 h'),
]

ZONES = ['CET', 'Europe/Dublin', 'Europe/Berlin', 'Europe/London', 'Europe/Lisbon', 'America/New_York', 'America/St_Johns', 'America/Sao_Paulo',
         'America/Havana', 'America/Santiago', 'America/Asuncion', 'Australia/Lord_Howe', 'Australia/Sydney',
         'Pacific/Auckland', 'Asia/Tehran', 'Asia/Beirut', 'Asia/Amman', 'Atlantic/Azores', 'Africa/Cairo',
         'America/Scoresbysund', 'Pacific/Apia', 'Asia/Kolkata', 'UTC', 'Etc/GMT+5']
EPOCH = dtm.datetime(1970, 1, 1)
MARGIN = 370 * 86400


# ------------------------------------------------------------------ zone tables
def _all_transitions(zone):
    tz = pytz.timezone(zone)
    tt = getattr(tz, '_utc_transition_times', None)
    if tt is None:
        return int(tz.utcoffset(dtm.datetime(2020, 1, 1)).total_seconds()), []
    out = []
    for t, info in zip(tt, tz._transition_info):
        out.append((int((t - EPOCH).total_seconds()), int(info[0].total_seconds())))
    return out[0][1], out[1:]


def zone_table(zone, lo, hi):
    base, trans = _all_transitions(zone)
    keep = []
    for t, o in trans:
        if t < lo:
            base = o
        elif t <= hi:
            keep.append([t, o])
    return {'base': base, 'trans': keep}


def wall_sec(s):
    return int((dtm.datetime.strptime(s, '%Y-%m-%d %H:%M') - EPOCH).total_seconds())


def wall_str(sec):
    return (EPOCH + dtm.timedelta(seconds=sec)).strftime('%Y-%m-%d %H:%M')


def secs(ts):
    v = pd.Timestamp(ts).value
    assert v % 10 ** 9 == 0
    return int(v // 10 ** 9)


def _arg(spec, zone):
    if 'wall' in spec:
        return dtm.datetime.strptime(spec['wall'], '%Y-%m-%d %H:%M')
    return pd.Timestamp(spec['instant'], unit='s', tz='UTC').tz_convert(zone)


# ------------------------------------------------------------------ real code
def run_impl(case):
    z = case['zone']
    try:
        with Quiet():
            tg = eao.Timegrid(_arg(case['start'], z), _arg(case['end'], z), freq=case['freq'], main_time_unit=case['unit'], timezone=z)
    except Exception as e:                                    # noqa: BLE001 (class is compared)
        return {'err': err_class(e)}
    pts = [secs(p) for p in tg.timepoints]
    return {'pts': pts, 'I': [int(i) for i in tg.I], 'dt': [float(x) for x in tg.dt], 'Dt': [float(x) for x in tg.Dt],
            'T': int(tg.T), 'start': secs(tg.start), 'end': secs(tg.end),
            'walls': [secs(p.tz_localize(None)) for p in tg.timepoints],
            'offsets': [int(p.utcoffset().total_seconds()) for p in tg.timepoints],
            'start_wall': secs(tg.start.tz_localize(None)), 'end_wall': secs(tg.end.tz_localize(None)),
            'end_offset': int(tg.end.utcoffset().total_seconds())}


# ------------------------------------------------------------------ model
def ambiguous_first(zone, walls):
    """which instant `pd.Timestamp(pd.Timestamp(naive), tz=zone)` takes for a wall time that exists twice: the reading flagged
    as daylight-saving time in the zone data base; True when that is the earlier instant (read from pytz for the first
    ambiguous wall time among `walls`; True when none is ambiguous)"""
    tz = pytz.timezone(zone)
    if not hasattr(tz, '_utc_transition_times'):
        return True
    for w in walls:
        naive = EPOCH + dtm.timedelta(seconds=w)
        try:
            tz.localize(naive, is_dst=None)
        except pytz.exceptions.AmbiguousTimeError:
            a, b = tz.localize(naive, is_dst=True), tz.localize(naive, is_dst=False)
            return a.utcoffset() >= b.utcoffset()
        except pytz.exceptions.NonExistentTimeError:
            pass
    return True


def _approx(spec):
    return wall_sec(spec['wall']) if 'wall' in spec else spec['instant']


def request(case):
    a, b = _approx(case['start']), _approx(case['end'])
    req = {'op': 'day_grid', 'zone': zone_table(case['zone'], min(a, b) - MARGIN, max(a, b) + MARGIN),
           'kdays': case['k'], 'unitSec': UNIT_SEC[case['unit']]}
    req['ambiguousFirst'] = ambiguous_first(case['zone'], [wall_sec(sp['wall']) for sp in (case['start'], case['end']) if 'wall' in sp])
    for key, spec in (('start', case['start']), ('stop', case['end'])):
        if 'wall' in spec:
            req[key + 'Wall'] = wall_sec(spec['wall'])
        else:
            req[key] = spec['instant']
    return req


def run_model(case, drv):
    r = drv.ask(request(case))
    if 'ok' not in r:
        return {'bad': r.get('err')}
    return r['ok']


def _close(x, q, unit):
    f = Fraction(x)
    if f == q:
        return True
    if unit == 'd':
        return abs(f - q) <= Fraction(1, 10 ** 12) * max(1, abs(q))
    return False


def compare(case, impl, model):
    if 'bad' in model:
        return ['driver refused the request: %s' % model['bad']]
    if 'err' in impl or 'err' in model:
        if impl.get('err') != model.get('err'):
            return ['error class: impl %s, model %s' % (impl.get('err'), model.get('err'))]
        return []
    out = []
    if impl['pts'] != model['pts']:
        out.append('points differ: impl %s model %s' % (impl['pts'][:6], model['pts'][:6]))
    if impl['I'] != model['idx']:
        out.append('I differs')
    if impl['start'] != model['start'] or impl['end'] != model['stop']:
        out.append('start / end differ: impl %s %s model %s %s' % (impl['start'], impl['end'], model['start'], model['stop']))
    if impl['walls'] != model['walls'][:-1]:
        out.append('wall times differ')
    if impl['offsets'] != model['offsets'][:-1]:
        out.append('offsets differ')
    for name in ('dt', 'Dt'):
        a, b = impl[name], [Fraction(s) for s in model[name]]
        if len(a) != len(b):
            out.append('%s: length %d vs %d' % (name, len(a), len(b)))
        else:
            bad = [i for i, (x, q) in enumerate(zip(a, b)) if not _close(x, q, case['unit'])]
            if bad:
                out.append('%s differs at %s: impl %r model %s' % (name, bad[:3], a[bad[0]], b[bad[0]]))
    if not model['calendarOK']:
        out.append('model: CalendarOK false on a grid that was built')
    if not model['wallLE']:
        out.append('model: wall(start) > wall(end) on a grid that was built')
    return out


# ------------------------------------------------------------------ oracles on the real code
def oracle(case, impl):
    if 'err' in impl:
        return []
    v = []

    def bad(name, detail, **facts):
        v.append({'oracle': name, 'detail': detail, 'facts': dict(facts, zone=case['zone'], k=case['k'])})

    pts, k, u = impl['pts'], case['k'], UNIT_SEC[case['unit']]
    if any(b <= a for a, b in zip(pts, pts[1:])):
        bad('day_grid_points', 'points not strictly increasing')
    if pts and pts[0] != impl['start']:
        bad('day_grid_points', 'first point is not the start', first=pts[0], start=impl['start'])
    if any(p >= impl['end'] for p in pts):
        bad('day_grid_points', 'point at or after the end')
    for j, w in enumerate(impl['walls']):
        if w != impl['start_wall'] + j * k * 86400:
            bad('day_grid_walls', 'point %d is not the local wall time start + j*k days' % j, wall=w)
            break
    offs = impl['offsets']
    tol = 0 if case['unit'] != 'd' else 1e-12
    for j in range(len(pts) - 1):
        want = Fraction(k * 86400 - (offs[j + 1] - offs[j]), u)
        if pts[j + 1] - pts[j] != k * 86400 - (offs[j + 1] - offs[j]) or abs(Fraction(impl['dt'][j]) - want) > tol * want:
            bad('day_grid_dt', 'step %d is not k days minus the change of offset' % j, dt=impl['dt'][j], want=str(want))
            break
    if pts:
        n = len(pts)
        on_lattice = impl['end_wall'] == impl['start_wall'] + n * k * 86400
        total = Fraction(impl['Dt'][-1])
        if on_lattice:
            want = Fraction(impl['end'] - impl['start'], u)
            if abs(total - want) > (1e-12 if case['unit'] == 'd' else 0) * want:
                bad('day_grid_total', 'total of dt is not the elapsed time start..end', total=float(total), want=str(want))
        closing = impl['start'] + total * u
        rest = impl['end'] - closing
        if rest < -1e-6 or impl['end_wall'] - (impl['start_wall'] + n * k * 86400) >= k * 86400:
            bad('day_grid_total', 'remainder at the end negative or a whole step', rest=float(rest))
        if abs(sum(Fraction(x) for x in impl['dt']) - total) > 1e-9:
            bad('day_grid_total', 'Dt[-1] is not the sum of dt')
    return v


# ------------------------------------------------------------------ generator
def _zone_year_transitions(zone, year):
    """[(instant, offset before, offset after)] of the zone in that year"""
    base, trans = _all_transitions(zone)
    out, prev = [], base
    lo, hi = wall_sec('%d-01-01 00:00' % year), wall_sec('%d-01-01 00:00' % (year + 1))
    for t, o in trans:
        if lo <= t < hi and o != prev:
            out.append((t, prev, o))
        prev = o
    return out


def gen_case(rnd):
    zone = rnd.choice(ZONES)
    k = rnd.choice([1, 1, 1, 2, 3, 7])
    unit = rnd.choice(['h', 'h', 'd', 'min'])
    freq = ('%dd' % k) if (k > 1 or rnd.random() < 0.3) else rnd.choice(['d', 'D'])
    if k > 1 and rnd.random() < 0.3:
        freq = '%dD' % k
    year = rnd.randint(2005, 2033)
    trs = _zone_year_transitions(zone, year)
    pattern = 'plain'
    if trs and rnd.random() < 0.9:
        t, before, after = rnd.choice(trs)
        pattern = 'spring' if after > before else 'autumn'
        # local date of the change (wall clock just before it)
        wall_change = t + before
        day0 = wall_change - wall_change % 86400
    else:
        day0 = wall_sec('%d-01-01 00:00' % year) + rnd.randint(0, 364) * 86400
        wall_change = None
    back = rnd.randint(0, 4 * k)
    r = rnd.random()
    if r < 0.62:
        tod = 0
    elif r < 0.80:
        tod = rnd.choice([3600, 7200, 9000, 10800, 12 * 3600, 23 * 3600 + 1800, 1800, 5400, 22 * 3600])
    elif wall_change is not None:
        # a wall time inside the hour that is skipped (spring) or repeated (autumn)
        tod = (min(t + before, t + after) + rnd.choice([0, 600, 1800])) % 86400
        pattern += '-in-gap'
    else:
        tod = rnd.choice([0, 3600])
    start_wall = day0 - back * 86400 + tod
    n = rnd.randint(1, 4) + (back // k) + rnd.randint(0, 3)
    end_wall = start_wall + n * k * 86400
    r = rnd.random()
    if r < 0.25:
        end_wall += rnd.choice([3600, 7200, 12 * 3600, 1800, 86400 + 3600, -3600, k * 86400 - 60])
        pattern += '+rest'
    elif r < 0.29 and wall_change is not None:
        end_wall = day0 + (min(t + before, t + after) + 1800) % 86400
        pattern += '+end-in-gap'
    elif r < 0.33:
        end_wall = start_wall - rnd.choice([0, 86400])
        pattern += '+end-before-start'
    case = {'zone': zone, 'k': k, 'freq': freq, 'unit': unit, 'pattern': pattern,
            'start': {'wall': wall_str(start_wall)}, 'end': {'wall': wall_str(end_wall)}}
    # zone-aware ends: an instant (reaches both readings of a repeated hour)
    if rnd.random() < 0.3:
        tab = zone_table(zone, start_wall - MARGIN, end_wall + MARGIN)
        offs = [tab['base']] + [o for _, o in tab['trans']]
        for key, w in (('start', start_wall), ('end', end_wall)):
            if rnd.random() < 0.6:
                case[key] = {'instant': w - rnd.choice(offs)}
        case['pattern'] += '+aware'
    return case


def corner_cases():
    c = []

    def add(zone, s, e, k=1, unit='h', freq=None, pattern='corner', si=None, ei=None):
        c.append({'zone': zone, 'k': k, 'freq': freq or ('%dd' % k), 'unit': unit, 'pattern': pattern,
                  'start': {'instant': si} if si is not None else {'wall': s},
                  'end': {'instant': ei} if ei is not None else {'wall': e}})
    add('CET', '2021-03-26 00:00', '2021-04-02 00:00')
    add('CET', '2021-10-29 00:00', '2021-11-03 00:00', unit='d')
    add('CET', '2021-03-26 02:30', '2021-04-02 00:00', pattern='point-in-gap')
    add('CET', '2021-10-29 02:30', '2021-11-03 00:00', pattern='point-ambiguous')
    add('CET', '2021-10-29 00:00', None, ei=1635640200, pattern='end-ambiguous-first')      # 02:30 CEST
    add('CET', '2021-10-29 00:00', None, ei=1635643800, pattern='end-ambiguous-second')     # 02:30 CET
    add('CET', None, '2021-11-03 00:00', si=1635640200, pattern='start-ambiguous-first')
    add('America/Sao_Paulo', '2018-11-01 00:00', '2018-11-08 00:00', pattern='midnight-missing')
    add('America/Sao_Paulo', '2018-02-15 00:00', '2018-02-22 00:00', pattern='midnight-autumn')
    add('America/Havana', '2021-11-04 00:00', '2021-11-10 00:00', pattern='midnight-twice')
    add('America/Havana', '2021-03-10 00:00', '2021-03-17 00:00', pattern='midnight-missing')
    add('Australia/Lord_Howe', '2021-03-30 00:00', '2021-04-08 00:00', k=1, unit='min')
    add('Australia/Lord_Howe', '2021-09-30 00:00', '2021-10-08 00:00', k=2)
    add('Pacific/Apia', '2011-12-27 00:00', '2012-01-03 00:00', pattern='day-skipped')
    add('Pacific/Apia', '2011-12-27 00:00', '2012-01-03 00:00', k=2, pattern='day-skipped-k2')
    add('Pacific/Apia', '2011-12-28 00:00', '2012-01-03 00:00', k=2, pattern='day-skipped-k2-hit')
    add('UTC', '2021-03-26 00:00', '2021-04-02 00:00', k=3)
    add('Asia/Kolkata', '2021-03-26 00:00', '2021-04-02 12:00', k=7)
    # naive wall times that exist twice are NOT refused by the constructor itself (finding): assert comes first
    add('America/St_Johns', '2013-11-03 01:00', '2013-11-02 01:00', freq='D', unit='min', pattern='naive-ambiguous-assert')
    add('CET', '2021-10-31 02:30', '2021-10-31 02:10', pattern='naive-ambiguous-assert')
    add('Europe/Dublin', '2021-10-31 01:30', '2021-10-31 01:10', pattern='naive-ambiguous-assert-negative-dst')
    add('Europe/Dublin', '2021-10-31 01:10', '2021-10-31 01:30', pattern='naive-ambiguous-negative-dst')
    add('CET', '2021-10-30 00:00', '2021-10-31 02:30', pattern='naive-end-ambiguous')
    add('CET', '2021-03-26 00:00', '2021-03-26 00:00', pattern='empty')
    add('CET', '2021-03-26 00:00', '2021-03-26 12:00', pattern='no-step')
    return c


# ------------------------------------------------------------------ one case, self-test
def run_case(case, drv):
    impl = run_impl(case)
    model = run_model(case, drv)
    feats = [case['pattern'].split('+')[0], 'zone:' + case['zone'], 'k%d' % case['k'], 'unit:' + case['unit']]
    if 'err' in impl:
        feats.append('err:' + impl['err'])
    else:
        d = set(b - a for a, b in zip(impl['pts'] + [None], impl['pts'][1:]) if b is not None)
        if any(x != case['k'] * 86400 for x in d):
            feats.append('short-or-long-day')
        feats.append('built')
    if isinstance(model, dict) and 'spreadOK' in model:
        feats.append('hyp:spread' if model['spreadOK'] else 'hyp:spread-false')
        feats.append('hyp:endOK' if model['endOK'] else 'hyp:endOK-false')
        if model['spreadOK'] and model['endOK'] and model['wallLE']:
            feats.append('hyp:all-decidable-hypotheses-hold')
    return {'disagreements': compare(case, impl, model), 'violations': oracle(case, impl), 'features': feats,
            'nontrivial': 'err' not in impl and impl['T'] >= 2}


def selftest(n, seed, drv, verbose=False):
    rnd = random.Random(seed)
    counts = {'cases': 0, 'disagreeing': 0, 'violating': 0, 'nontrivial': 0}
    feats = {}
    dis, viol = [], []
    corner = corner_cases()
    counts['corner_cases'] = len(corner)
    for i in range(-len(corner), n):
        case = corner[i] if i < 0 else gen_case(random.Random(rnd.getrandbits(48)))
        r = run_case(case, drv)
        counts['cases'] += 1
        counts['nontrivial'] += int(r['nontrivial'])
        for f in r['features']:
            feats[f] = feats.get(f, 0) + 1
        if r['disagreements']:
            counts['disagreeing'] += 1
            dis.append((i, case, r['disagreements']))
            if verbose:
                print('DISAGREE', i, case, r['disagreements'][:2])
        if r['violations']:
            counts['violating'] += 1
            viol.append((i, case, r['violations']))
            if verbose:
                print('VIOLATION', i, case, [(v['oracle'], v['detail']) for v in r['violations']][:3])
    return {'counts': counts, 'features': feats, 'disagreements': dis, 'violations': viol}
