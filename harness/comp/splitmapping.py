"""pkg-c07split - C07: mapping faithfulness of SPLIT problems (proof package).

Lean side: `EAO/Lemmas/SplitMapping.lean` (namespace `EAO.SplitMapping`: `jointRows`, `jointMapping`, `jointNodal`,
`jointRowsOf`, `splitOffset`, `StepsDisjoint`) and `EAO/Properties/C07Split.lean` (namespace `EAO.C07S`).  No new executable
definition is evaluated by the driver: the joint problem is `splitProblem` of `EAO/Model/FixSplit.lean` (block sum of the
contributing interval problems, mapping in ORIGINAL steps), the loop inputs are `IntervalIn`, the offsets `withOffsets`; the
correspondence of the split loop is the one of `harness/comp/fixsplit.py` / `harness/comp/splitbuild.py`.  This module only
carries the theorem list.

Not proved here (see the final report of the package): that every interval problem returned by `setupSplit` of
`EAO/Model/SplitBuild.lean` is `Assembled` (that is `setupPortfolio` = `assemble` of the builders' outputs, which have to
satisfy `EAO.C07.AssetWF` - evaluated by the harness on captured asset problems, not a Lean theorem for the builders).
"""

M = 'EAO.Properties.C07Split'

THEOREMS_C07_SPLIT = [
    (M, 'EAO.C07S.split_joint_fields',
     'the joint problem (block sum of the contributing interval problems) field by field: its mapping IS the joint mapping pd.concat(mappings) '
     '(index += len_res, steps original), its rows are the interval rows shifted by the offsets in loop order, one cost / pair of bounds per '
     'variable, n = sum of the interval sizes; every offset of the loop is the number of variables of the contributing intervals before'),
    (M, 'EAO.C07S.split_block',
     'variable offset_k + j of the joint problem has the cost and both bounds of variable j of interval problem k (every variable of the block, '
     'mapped or not), lies inside the joint vector, and belongs to no other block'),
    (M, 'EAO.C07S.split_mapping_faithful',
     'C07 for the split set-up: every joint mapping row is the row m\' of exactly one contributing interval k with var = offset_k + m\'.var and '
     'step = tmp_I[m\'.step]; it points into block k, cost and bounds of that variable are those of m\'.var in interval problem k, its step is an '
     'original step of interval k and (disjoint step lists) of NO other interval, its variable index lies in no other block'),
    (M, 'EAO.C07S.split_rows_of_variable',
     'the rows of variable offset_k + j are the rows of variable j of interval problem k: every interval row is, shifted, a joint row; a joint row '
     'mentioning offset_k + j is the shifted row of interval k (no other), mentions j there with the same coefficient, and all its columns lie in block k'),
    (M, 'EAO.C07S.split_nodal_once',
     'for interval problems assembled on their re-based grids from well-formed asset problems (EAO.C07.AssetWF), duplicate-free and pairwise disjoint '
     'step lists: SplitOptimProblem.map_nodal_restr has no duplicates, lists (t, n) iff n is not skipped and the JOINT mapping has a dispatch row at '
     'node n and original step t, and the step of every entry belongs to exactly one contributing interval'),
    (M, 'EAO.C07S.split_nodal_rows',
     'one nodal row per (original step, node) with dispatch: the rows of type N of the joint problem are, in the order of the joint nodal record, the '
     'nodal rows of the JOINT mapping (its dispatch rows at (n, t) with their factors = the shifted dispatch rows of the one interval owning step t)'),
    (M, 'EAO.C07S.split_skipped_shift_nothing',
     'an interval without steps or without variables, put anywhere into the loop, changes neither the joint problem nor the joint mapping nor the '
     'nodal record nor any offset; the joint objects depend on the contributing intervals only'),
]
