"""Correspondence and oracles for ScaledAsset (assets.py) and StructuredAsset (portfolio.py) — property C16.

Correspondence: the Lean models `buildScaled` / `structured` are applied to the problems CAPTURED from
the real base asset / the real inner assets (their `setup_optim_problem` is wrapped like `impl.Capture`
does) and compared with what the real wrapper returned.

Oracles on the real code alone:
  (a) `scaled_fixed`   scaled asset with min_scale = max_scale = s  vs  plain portfolio with the base asset whose
                       capacities are all multiplied by s/norm and whose window is its own window INTERSECTED with the scaled
                       asset's start/end (the scaled asset hands its window down to the base, as a structured asset does),
                       minus s * fix_costs * sum(dt of the scaled asset's own window)  (case['duration'] == 'instants': the duration
                       from the scenario alone, `window_duration`); with case['cost_samples'] also through
                       Portfolio.create_cost_samples: the optimal point valued with the cost vector made for the same prices is worth
                       the same reference, and the entry of the scale variable is fix_costs * duration
  (b) `scaled_free`    free scale: V(free) >= V(s_i) on a grid of [min, max] and V(free) = V(s*) at the reported scale;
                       (b') the same against the REFERENCE R(s) = plain portfolio with the base at all capacities * s/norm less
                       s * fix_costs * duration: V(free) >= R(s_i) for every scanned scale (end points included) and
                       V(free) = R(s*) - the optimum is the best over the allowed range
  (c) `structured_flat` [outer.., StructuredAsset(inner)]  vs  flat [outer.., inner..]: same c, l, u, same rows up to
                       N<->S and order, same dispatch rows at outer nodes, same optimal value, solutions transport

A case is a plain JSON value: {'kind': 'scaled'|'structured', 'scn': <scenario of harness.scen>, 'target': name,
'build': one of BUILDS (how the objects are made from the scenario: shared Node objects / a Node object per use / re-loaded from
JSON / deep copies inside the wrappers - see `build_variant`; nodes are identified by name, so all give the same problem), ...}.
"""
import copy
import json
import os
import random
import subprocess
import sys
from fractions import Fraction

import numpy as np
import pandas as pd

sys.path.insert(0, os.environ.get('EAO_REPO', '/repo'))
import eaopack as eao  # noqa: E402
from eaopack.portfolio import Portfolio, StructuredAsset  # noqa: E402

from .. import gen, scen, impl, pf  # noqa: E402
from ..impl import Quiet, problem_json, err_class  # noqa: E402
from ..lean import fs, LEAN_DIR  # noqa: E402
from .common import grid_json  # noqa: E402


# ------------------------------------------------------------------ drivers
class ScratchDriver:
    """a line-protocol driver run through the Lean interpreter from a scratch Main (development only)"""

    def __init__(self, main='/tmp/pkg-C16/lean/Main.lean'):
        self.p = subprocess.Popen(['lake', 'env', 'lean', '--run', main], cwd=LEAN_DIR, stdin=subprocess.PIPE,
                                  stdout=subprocess.PIPE, text=True, bufsize=1)

    def ask(self, req):
        self.p.stdin.write(json.dumps(req) + '\n')
        self.p.stdin.flush()
        line = self.p.stdout.readline()
        if not line:
            raise RuntimeError('driver died on request op=%s' % req.get('op'))
        return json.loads(line)

    def ok(self, req):
        r = self.ask(req)
        if 'ok' not in r:
            raise RuntimeError('driver error: %s' % r.get('err'))
        return r['ok']

    def close(self):
        try:
            self.p.stdin.close()
            self.p.wait(timeout=5)
        except Exception:
            self.p.kill()


def _ok(drv, req):
    r = drv.ask(req)
    if 'ok' not in r:
        raise RuntimeError('driver error: %s' % r.get('err'))
    return r['ok']


class _Shim:
    def __init__(self, assets):
        self.assets = assets


# ------------------------------------------------------------------ generators
SCALED_BASES = ['simple', 'contract', 'storage', 'storage2', 'transport', 'ext_transport', 'multi', 'orderbook',
                'orderbook', 'plant_lp', 'plant_mip', 'storage_mip', 'structured', 'structured']


def _markets(rnd, g, prices, T, node_names, prob=1.0, cap=40.0):
    out = []
    for n in node_names:
        if rnd.random() < prob:
            out.append({'type': 'SimpleContract', 'name': 'mkt_' + n, 'nodes': [n],
                        'args': {'min_cap': -cap, 'max_cap': cap, 'price': gen.price_key(rnd, prices, T)}})
    return out


def gen_base(rnd, g, prices, T, kind, name, node_names):
    node = rnd.choice(node_names)
    two = rnd.sample(node_names, 2) if len(node_names) >= 2 else None
    if kind == 'simple':
        return gen.gen_simple_contract(rnd, g, prices, T, name, node)
    if kind == 'contract':
        a = gen.gen_contract(rnd, g, prices, T, name, node)
        if 'max_take' not in a['args'] and 'min_take' not in a['args']:
            a['args']['max_take'] = gen.take_dict(rnd, g, 2, 30)
        return a
    if kind == 'storage':
        return gen.gen_storage(rnd, g, prices, T, name, [node], False, False)
    if kind == 'storage2' and two:
        return gen.gen_storage(rnd, g, prices, T, name, two, False, False)
    if kind == 'storage_mip':
        a = gen.gen_storage(rnd, g, prices, T, name, [node], False, False)
        if rnd.random() < 0.5:
            a['args']['no_simult_in_out'] = True
            a['args'].setdefault('eff_in', 0.5)
        else:
            a['args']['max_store_duration'] = float(rnd.randint(1, 4))
        return a
    if kind == 'transport' and two:
        return gen.gen_transport(rnd, g, prices, T, name, two[0], two[1])
    if kind == 'ext_transport' and two:
        return gen.gen_transport(rnd, g, prices, T, name, two[0], two[1], ext=True)
    if kind == 'multi' and two:
        return gen.gen_multi(rnd, g, prices, T, name, two)
    if kind == 'orderbook':
        return gen.gen_orderbook(rnd, g, prices, T, name, node, allow_mip=rnd.random() < 0.3)
    if kind == 'plant_lp':
        return gen.gen_plant(rnd, g, prices, T, name, [node], chp=False, allow_mip=False)
    if kind == 'plant_mip':
        a = gen.gen_plant(rnd, g, prices, T, name, [node], chp=False, allow_mip=True)
        a['args'].setdefault('min_cap', 0.5)
        return a
    if kind == 'structured':
        # a wrapped sub-portfolio: a source / storage at an INTERNAL node behind a transport to the external node
        ni = name + '_i1'
        inner = [gen.gen_transport(rnd, g, prices, T, name + '_tr', ni, node)]
        inner[0]['args'].pop('costs_time_series', None)
        ik = rnd.choice(['simple', 'simple', 'storage', 'contract', 'simple+plant'])
        if ik == 'simple+plant':
            # a plain LP asset at the internal node next to an asset with boolean variables: the mapping of the wrapped
            # problem then has a bool column with empty entries for the LP asset
            inner.append(gen.gen_simple_contract(rnd, g, prices, T, name + '_c', ni))
            pl = gen.gen_plant(rnd, g, prices, T, name + '_p', [ni], chp=False, allow_mip=True)
            pl['args'].setdefault('min_cap', 0.5)
            inner.append(pl)
        elif ik == 'simple':
            inner.append(gen.gen_simple_contract(rnd, g, prices, T, name + '_c', ni))
        elif ik == 'contract':
            inner.append(gen.gen_contract(rnd, g, prices, T, name + '_c', ni))
        else:
            inner.append(gen.gen_storage(rnd, g, prices, T, name + '_s', [ni], False, False))
        if rnd.random() < 0.4:
            inner.append(gen.gen_simple_contract(rnd, g, prices, T, name + '_d', node))
        return {'type': 'StructuredAsset', 'name': name, 'nodes': [node], 'inner': inner, 'args': {}, 'inner_nodes': [ni]}
    return gen.gen_simple_contract(rnd, g, prices, T, name, node)


def gen_scaled_case(rnd, tmax=10, kinds=None, exact=True, g=None):
    g = g or gen.gen_grid(rnd, tmin=2, tmax=tmax, tz_prob=0.1)
    tg = scen.make_grid(g)
    T = tg.T
    prices = {}
    nn = rnd.randint(1, 2)
    node_names = ['N%d' % i for i in range(1, nn + 1)]
    assets = _markets(rnd, g, prices, T, node_names)
    kind = rnd.choice(kinds or SCALED_BASES)
    base = gen_base(rnd, g, prices, T, kind, 'sca_b', node_names)
    extra_nodes = list(base.get('inner_nodes', []))
    if base['type'] not in ('OrderBook', 'StructuredAsset'):
        if rnd.random() < 0.4:
            gen.put_window(base['args'], gen.window(rnd, g))
        if rnd.random() < 0.1:
            base['args']['wacc'] = rnd.choice([0.05, 0.5])
    if exact:
        sargs = {'min_scale': rnd.choice([0.0, 0.0, 0.5, 1.0]), 'max_scale': rnd.choice([1.0, 2.0, 4.0, 1.5]),
                 'norm_scale': rnd.choice([1.0, 2.0, 0.5, 4.0]), 'fix_costs': gen.q8(rnd, 0, 2)}
    else:
        sargs = {'min_scale': rnd.choice([0.0, 0.3, 0.7]), 'max_scale': rnd.choice([1.0, 2.1, 3.3]),
                 'norm_scale': rnd.choice([3.0, 0.7, 1.1, 10.0]), 'fix_costs': rnd.choice([0.1, 0.33, 1.7])}
    r = rnd.random()
    if r < 0.04:
        sargs['min_scale'], sargs['max_scale'] = 2.0, 1.0      # assert min <= max
    elif r < 0.07:
        sargs['norm_scale'] = rnd.choice([0.0, -1.0])          # assert norm > 0
    elif r < 0.10:
        sargs['min_scale'] = -0.5                              # assert min >= 0
    if rnd.random() < 0.45:
        # the scaled asset's OWN window (start / end / both; inside, straddling, covering, off the grid points, outside the
        # horizon), over a base with or without a window of its own: the base is active in the intersection, the fixed costs
        # are charged over the scaled asset's window
        gen.put_window(sargs, gen.window(rnd, g, kinds=['inside', 'inside', 'start_only', 'end_only', 'straddle_start', 'straddle_end',
                                                        'covering', 'equal', 'before', 'after', 'offgrid']))
    sc = {'type': 'ScaledAsset', 'name': rnd.choice(['sca', 'sca', 'sca_b']), 'base': base, 'args': sargs}
    pos = rnd.randint(0, len(assets))
    assets.insert(pos, sc)
    if rnd.random() < 0.3:
        assets.append(gen.gen_simple_contract(rnd, g, prices, T, 'extra', rnd.choice(node_names)))
    s = {'grid': g, 'nodes': node_names + extra_nodes, 'prices': prices, 'assets': assets}
    # (drawn last: the scenario itself is the one of the earlier stream)
    return {'kind': 'scaled', 'scn': s, 'target': sc['name'], 'base_kind': kind, 'build': draw_build(rnd)}


def gen_structured_case(rnd, tmax=10, g=None):
    g = g or gen.gen_grid(rnd, tmin=2, tmax=tmax, tz_prob=0.1)
    tg = scen.make_grid(g)
    T = tg.T
    prices = {}
    n_out = rnd.randint(1, 2)
    outer_nodes = ['N%d' % i for i in range(1, n_out + 1)]
    n_in = rnd.randint(1, 2)
    nm = 'sa'
    inner_nodes = ['sa_i%d' % i for i in range(1, n_in + 1)]
    ext = [outer_nodes[0]] if (n_out == 1 or rnd.random() < 0.6) else list(outer_nodes)
    inner = []
    # every inner node is connected to an external node or to the other inner node
    inner.append(gen.gen_transport(rnd, g, prices, T, nm + '_tr1', inner_nodes[0], rnd.choice(ext)))
    if n_in == 2:
        tgt = rnd.choice(ext + [inner_nodes[0]])
        if rnd.random() < 0.5:
            inner.append(gen.gen_transport(rnd, g, prices, T, nm + '_tr2', inner_nodes[1], tgt))
        else:
            inner.append(gen.gen_transport(rnd, g, prices, T, nm + '_tr2', tgt, inner_nodes[1]))
    k = rnd.randint(1, 3)
    pool = ['simple', 'contract', 'storage', 'storage', 'multi', 'ext_simple', 'orderbook', 'scaled', 'plant_lp', 'plant_mip']
    for i in range(k):
        ik = rnd.choice(pool)
        nd = rnd.choice(inner_nodes)
        name = '%s_a%d' % (nm, i)
        if ik == 'simple':
            inner.append(gen.gen_simple_contract(rnd, g, prices, T, name, nd))
        elif ik == 'contract':
            inner.append(gen.gen_contract(rnd, g, prices, T, name, nd))
        elif ik == 'storage':
            inner.append(gen.gen_storage(rnd, g, prices, T, name, [nd], False, rnd.random() < 0.3))
        elif ik == 'multi':
            inner.append(gen.gen_multi(rnd, g, prices, T, name, [nd, rnd.choice(ext + inner_nodes)]))
        elif ik == 'ext_simple':
            inner.append(gen.gen_simple_contract(rnd, g, prices, T, name, rnd.choice(ext)))
        elif ik == 'orderbook' and rnd.random() < 0.4:
            inner.append(gen.gen_orderbook(rnd, g, prices, T, name, nd, allow_mip=False))
        elif ik == 'scaled':
            b = gen.gen_storage(rnd, g, prices, T, name + '_b', [nd], False, False)
            inner.append({'type': 'ScaledAsset', 'name': name, 'base': b,
                          'args': {'min_scale': 0.0, 'max_scale': rnd.choice([1.0, 2.0]), 'norm_scale': rnd.choice([1.0, 2.0]),
                                   'fix_costs': gen.q8(rnd, 0, 1)}})
        elif ik == 'plant_lp':
            inner.append(gen.gen_plant(rnd, g, prices, T, name, [nd], chp=False, allow_mip=False))
        elif ik == 'plant_mip':
            inner.append(gen.gen_plant(rnd, g, prices, T, name, [nd], chp=False, allow_mip=True))
        else:
            inner.append(gen.gen_simple_contract(rnd, g, prices, T, name, nd))
    for a in inner:
        if a['type'] not in ('OrderBook', 'ScaledAsset') and rnd.random() < 0.3:
            gen.put_window(a['args'], gen.window(rnd, g))
    sargs = {}
    if rnd.random() < 0.5:
        gen.put_window(sargs, gen.window(rnd, g))
    sa = {'type': 'StructuredAsset', 'name': nm, 'nodes': ext, 'inner': inner, 'args': sargs, 'inner_nodes': inner_nodes}
    assets = _markets(rnd, g, prices, T, outer_nodes)
    if n_out == 2 and rnd.random() < 0.5:
        assets.append(gen.gen_transport(rnd, g, prices, T, 'otr', outer_nodes[0], outer_nodes[1]))
    if rnd.random() < 0.4:
        assets.append(gen.gen_storage(rnd, g, prices, T, 'ost', [rnd.choice(outer_nodes)], False, False))
    pos = rnd.randint(0, len(assets))
    assets.insert(pos, sa)
    s = {'grid': g, 'nodes': outer_nodes + inner_nodes, 'prices': prices, 'assets': assets}
    return {'kind': 'structured', 'scn': s, 'target': nm, 'build': draw_build(rnd)}


def gen_case(rnd, tmax=10):
    r = rnd.random()
    if r < 0.5:
        return gen_scaled_case(rnd, tmax)
    if r < 0.58:
        return gen_scaled_case(rnd, tmax, exact=False)
    return gen_structured_case(rnd, tmax)


# ------------------------------------------------------------------ ways of building the objects
# Nodes are identified by their NAME throughout the package (Portfolio keys its nodes by name, the mapping and the nodal
# restrictions carry names): a portfolio whose assets share one Node object per name and a portfolio in which every asset (and a
# structured asset's own `nodes`) holds a Node object of its own describe the same problem.  The way the objects are built is
# drawn per case; correspondence and oracles apply unchanged to every one of them.
BUILDS = ['shared', 'fresh', 'json', 'copies']
#   shared : one Node object per name, used by every asset and wrapper (what harness.scen.build does)
#   fresh  : a new Node(name) at every use - every asset, every base / inner asset and the `nodes` of a structured asset get their own
#   json   : built as `shared`, then the whole portfolio sent through eao.serialization.to_json / load_from_json before the set-up
#   copies : built as `shared`, but the inner portfolio of a structured asset is made of deep copies of the inner assets and a
#            scaled asset gets a deep copy of its base


class _FreshNodes(dict):
    """node table handing out a NEW Node object at every look-up (a script that writes Node('N1') wherever it needs the node)"""

    def __getitem__(self, n):
        return eao.Node(dict.__getitem__(self, n).name)


def _build_asset(spec, nodes, copies):
    """harness.scen.build_asset with the wrappers built here (so that `copies` reaches nested wrappers)"""
    t = spec['type']
    if t == 'ScaledAsset':
        args = scen.dec(copy.deepcopy(spec.get('args', {})))
        base = _build_asset(spec['base'], nodes, copies)
        return eao.assets.ScaledAsset(name=spec['name'], base_asset=copy.deepcopy(base) if copies else base, **args)
    if t == 'StructuredAsset':
        args = scen.dec(copy.deepcopy(spec.get('args', {})))
        inner = [_build_asset(s, nodes, copies) for s in spec['inner']]
        if copies:
            inner = [copy.deepcopy(a) for a in inner]
        return StructuredAsset(name=spec['name'], nodes=[nodes[n] for n in spec['nodes']], portfolio=Portfolio(inner), **args)
    return scen.build_asset(spec, nodes)


def build_variant(scn, variant=None):
    """harness.scen.build(scn) with the objects built in the way `variant` (one of BUILDS; None = shared)"""
    if variant in (None, 'shared'):
        return scen.build(scn)
    if variant not in BUILDS:
        raise ValueError('unknown way of building: %r' % (variant,))
    tg = scen.make_grid(scn['grid'])
    nodes = scen.make_nodes(scn['nodes'])
    if variant == 'fresh':
        nodes = _FreshNodes(nodes)
    portf = Portfolio([_build_asset(s, nodes, variant == 'copies') for s in scn['assets']])
    if variant == 'json':
        portf = eao.serialization.load_from_json(eao.serialization.to_json(portf))
    prices = {k: np.asarray(v, dtype=float) for k, v in scn.get('prices', {}).items()}
    return portf, tg, prices, nodes


def draw_build(rnd):
    return rnd.choice(['shared', 'shared', 'shared', 'fresh', 'fresh', 'fresh', 'json', 'json', 'copies', 'copies'])


# ------------------------------------------------------------------ running the implementation
def _target(portf, name):
    for a in portf.assets:
        if a.name == name:
            return a
    raise KeyError(name)


def _acols(op):
    return None if op.A is None else int(op.A.shape[1])


def _nonstr(ops):
    for op in ops:
        m = op.mapping
        if m is None or len(m) == 0 or 'var_name' not in m.columns:
            continue
        for v in m['var_name'].values:
            if not impl.isnan(v) and not isinstance(v, str):
                return True
    return False


def run_impl(case):
    """runs the real code; returns a dict with either 'error' (class, stage) or the captured problems"""
    scn = case['scn']
    out = {'kind': case['kind']}
    if case['kind'] == 'scaled':   # a failing base constructor is not the wrapper's business
        spec = [s for s in scn['assets'] if s['name'] == case['target']][0]
        try:
            scen.build_asset(spec['base'], scen.make_nodes(scn['nodes']))
        except Exception as e:
            out['error'] = err_class(e)
            out['stage'] = 'base-ctor'
            return out
    try:
        portf, tg, prices, nodes = build_variant(scn, case.get('build'))
    except Exception as e:
        out['error'] = err_class(e)
        out['stage'] = 'ctor'
        return out
    tgt = _target(portf, case['target'])
    inner_assets = [tgt.base_asset] if case['kind'] == 'scaled' else list(tgt.portfolio.assets)
    out.update({'portf': portf, 'tg': tg, 'prices': prices, 'asset': tgt})
    with Quiet(), impl.Capture(portf) as cap, impl.Capture(_Shim(inner_assets)) as cap_in:
        try:
            op = portf.setup_optim_problem(prices, tg)
            out['op'] = op
        except Exception as e:
            out['error'] = err_class(e)
            out['stage'] = 'setup'
            out['message'] = str(e)[:200]
    out['inner'] = []
    for a in inner_assets:
        if a.name in cap_in.caught:
            out['inner'].append((a, cap_in.caught[a.name][-1]))
    if tgt.name in cap.caught:
        out['wrapped'] = cap.caught[tgt.name][-1]
    out['captured'] = {k: v[-1] for k, v in cap.caught.items()}
    return out


def _asset_json(a, op):
    return problem_json(op, name=a.name, nodes=[n.name for n in a.nodes])


def scaled_dt(case, impl_result):
    """restricted grid of the scaled asset (its own start/end), from a fresh Timegrid"""
    a = impl_result['asset']
    tg = scen.make_grid(case['scn']['grid'])
    tg.set_restricted_grid(a.start, a.end, None)
    return tg.restricted


def request(case, impl_result):
    """JSON request for the driver, from the captured problems (None when nothing was captured)"""
    a = impl_result.get('asset')
    if case['kind'] == 'scaled':
        spec = [s for s in case['scn']['assets'] if s['name'] == case['target']][0]
        args = spec['args']
        params = {'name': case['target'], 'node0': '', 'min_scale': fs(args.get('min_scale', 0.0)),
                  'max_scale': fs(args.get('max_scale', 1.0)), 'norm_scale': fs(args.get('norm_scale', 1.0)),
                  'fix_costs': fs(args.get('fix_costs', 0.0))}
        if impl_result.get('stage') == 'base-ctor':
            return None
        if a is None:   # constructor failed: only the parameter check can be compared
            return {'op': 'scaled', 'params': params, 'ctor_only': True}
        if not impl_result['inner']:
            return None
        base, bop = impl_result['inner'][0]
        params['node0'] = a.node_names[0]
        rg = scaled_dt(case, impl_result)
        return {'op': 'scaled', 'base': _asset_json(base, bop), 'acols': _acols(bop), 'params': params,
                'grid': grid_json(rg)}
    if a is None or len(impl_result['inner']) != len(a.portfolio.assets):
        return None
    return {'op': 'structured', 'name': a.name, 'ext': [n.name for n in a.nodes],
            'inner': [_asset_json(x, op) for x, op in impl_result['inner']],
            'gridI': [int(i) for i in impl_result['tg'].I]}


def is_exact(case):
    """inputs dyadic and step lengths dyadic in the main time unit -> exact comparison"""
    g = case['scn']['grid']
    unit = {'h': 3600, 'd': 86400, 'min': 60}[g.get('unit', 'h')]
    q = Fraction(g['step_s'], unit)
    dy = (q.denominator & (q.denominator - 1)) == 0
    if case['kind'] == 'scaled':
        spec = [s for s in case['scn']['assets'] if s['name'] == case['target']][0]
        for k in ('min_scale', 'max_scale', 'norm_scale', 'fix_costs'):
            f = Fraction(float(spec['args'].get(k, 1.0)))
            if f.denominator > 64:
                return False
        nrm = Fraction(float(spec['args'].get('norm_scale', 1.0)))
        if nrm > 0 and (nrm.numerator & (nrm.numerator - 1)) != 0:
            return False
        if spec['base']['args'].get('wacc') or g.get('tz'):
            return dy and False
    return dy


def compare(case, impl_result, model_result):
    """list of disagreement strings"""
    dis = []
    if model_result is None:
        return dis
    merr = model_result.get('error')
    if impl_result.get('stage') == 'ctor':
        if merr != impl_result['error']:
            dis.append('constructor: error %r (impl) vs %r (model)' % (impl_result['error'], merr))
        return dis
    wrapped = impl_result.get('wrapped')
    if wrapped is None:
        ierr = impl_result.get('error')
        if merr is None:
            dis.append('%s: impl raised %r (%s) but model built a problem' % (case['kind'], ierr, impl_result.get('message')))
        elif merr != ierr:
            dis.append('%s: error class %r (impl) vs %r (model)' % (case['kind'], ierr, merr))
        return dis
    if len(wrapped.mapping) and wrapped.mapping.index.isna().any():
        # (before 8409988: base with variables but no mapping row); not representable, always a disagreement
        dis.append('%s: impl returned a mapping with label NaN, model says %r' % (case['kind'], merr))
        return dis
    if merr is not None:
        dis.append('%s: model error %r but impl built a problem' % (case['kind'], merr))
        return dis
    a = impl_result['asset']
    implj = problem_json(wrapped)
    mj = model_result['problem']
    tol = 0 if is_exact(case) else 1e-9
    if case['kind'] == 'scaled':
        dis += pf.cmp_problem('scaled', mj, implj, tol, aspects=('l', 'u', 'rows', 'mapping'))
        d = pf.cmp_vec('scaled.c', mj['c'], implj['c'], 1e-12 if tol == 0 else tol)
        if d:
            dis.append(d)
        if len(mj['c']) > 1 and tol == 0:
            d = pf.cmp_vec('scaled.c[:-1]', mj['c'][:-1], implj['c'][:-1], 0)
            if d:
                dis.append(d)
        # shape of A: one column per variable (the model's rows only say which columns are non-zero)
        if len(wrapped.l) > 0 and len(impl_result['inner'][0][1].l) > 0:
            if wrapped.A is None or wrapped.A.shape[1] != len(wrapped.c):
                dis.append('scaled: A has %s columns for %d variables' % (None if wrapped.A is None else wrapped.A.shape[1], len(wrapped.c)))
            mx = max((j for r in mj['rows'] for j, _ in r['coeffs']), default=-1)
            if mx >= len(mj['c']):
                dis.append('scaled: model row mentions column %d but there are %d variables' % (mx, len(mj['c'])))
    else:
        dis += pf.cmp_problem('structured', mj, implj, tol, aspects=('c', 'l', 'u', 'rows', 'mapping'))
        if mj.get('nodes') != [n.name for n in a.nodes]:
            dis.append('structured.nodes: %s vs %s' % (mj.get('nodes'), [n.name for n in a.nodes]))
    return dis


# ------------------------------------------------------------------ oracles
def scale_param(v, k, prices, newprices):
    if isinstance(v, (int, float)):
        return float(v) * k
    if isinstance(v, str):
        key = '%s@x%r' % (v, k)
        newprices[key] = [float(x) * k for x in prices[v]]
        return key
    if isinstance(v, dict) and 'values' in v:
        d = copy.deepcopy(v)
        vals = d['values']
        d['values'] = [float(x) * k for x in vals] if isinstance(vals, list) else float(vals) * k
        return d
    raise TypeError('cannot scale %r' % (v,))


CAP_ARGS = {
    'SimpleContract': ['min_cap', 'max_cap'],
    'Contract': ['min_cap', 'max_cap', 'min_take', 'max_take'],
    'MultiCommodityContract': ['min_cap', 'max_cap', 'min_take', 'max_take'],
    'Transport': ['min_cap', 'max_cap'],
    'ExtendedTransport': ['min_cap', 'max_cap', 'min_take', 'max_take'],
    'Storage': ['size', 'cap_in', 'cap_out', 'start_level', 'end_level', 'inflow'],
    'Plant': ['min_cap', 'max_cap', 'ramp', 'last_dispatch', 'consumption_if_on', 'start_fuel'],
}


def scaled_spec(base, k, prices, newprices):
    """the base asset spec with ALL capacities multiplied by k (None if the kind is not supported)"""
    t = base['type']
    b = copy.deepcopy(base)
    if t == 'OrderBook':
        b['args']['orders']['capa'] = [float(c) * k for c in b['args']['orders']['capa']]
        return b
    if t == 'StructuredAsset':
        inner = [scaled_spec(x, k, prices, newprices) for x in b['inner']]
        if any(x is None for x in inner):
            return None
        b['inner'] = inner
        return b
    if t not in CAP_ARGS:
        return None
    if t == 'Storage' and any(x in b['args'] for x in ('no_simult_in_out', 'max_store_duration')):
        return None
    for a in CAP_ARGS[t]:
        if a in b['args'] and b['args'][a] is not None:
            b['args'][a] = scale_param(b['args'][a], k, prices, newprices)
    return b


def jitter_prices(scn, seed):
    """generic prices: optimum unique with probability one"""
    rnd = random.Random(seed)
    s = copy.deepcopy(scn)
    for k, v in s['prices'].items():
        if k.startswith('p'):
            s['prices'][k] = [float(x) + rnd.uniform(-0.05, 0.05) for x in v]
    return s


def _solve(op, solver=None):
    """result object, or a string: the solver's status or 'error:<class>' when optimize() raised"""
    try:
        return impl.solve(op, solver=solver)
    except Exception as e:
        return 'error:' + err_class(e)


def _solve_scn(scn, solver=None, build=None):
    portf, tg, prices, nodes = build_variant(scn, build)
    for spec, a in zip(scn['assets'], portf.assets):
        for k, v in spec.get('_attrs', {}).items():
            setattr(a, k, scen.dec(v))
    with Quiet():
        op = portf.setup_optim_problem(prices, tg)
    res = _solve(op, solver=solver)
    return portf, tg, prices, op, res


def _block_of(portf, op_assets, name):
    """(offset, length) of asset `name` in the portfolio's variable vector, from captured sizes"""
    off = 0
    for a in portf.assets:
        n = op_assets[a.name]
        if a.name == name:
            return off, n
        off += n
    raise KeyError(name)


def _sizes(scn, build=None):
    portf, tg, prices, nodes = build_variant(scn, build)
    with Quiet(), impl.Capture(portf) as cap:
        op = portf.setup_optim_problem(prices, tg)
    return portf, tg, prices, op, {k: len(v[-1].c) for k, v in cap.caught.items()}


def _with_scale(scn, target, lo, hi):
    s = copy.deepcopy(scn)
    for a in s['assets']:
        if a['name'] == target:
            a['args']['min_scale'] = lo
            a['args']['max_scale'] = hi
    return s


def _replace_asset(scn, target, new_specs):
    s = copy.deepcopy(scn)
    out = []
    for a in s['assets']:
        if a['name'] == target:
            out += new_specs
        else:
            out.append(a)
    s['assets'] = out
    return s


def _violation(oracle, detail, **facts):
    return {'oracle': oracle, 'detail': detail, 'facts': facts}


def oracle_scaled(case, seed=0, grid_pts=None):
    """oracles (a) and (b) on the real code; returns (violations, stats)"""
    viol, stats = [], {'fixed': 0, 'free': 0, 'free_ref': 0, 'skipped': None}
    grid_pts = int(grid_pts or case.get('scan') or 4)   # fixed scales scanned in [min_scale, max_scale], both end points included
    build = case.get('build')   # the scaled portfolios are built in the case's way, the reference (rescaled base) the plain way
    scn = jitter_prices(case['scn'], seed)
    target = case['target']
    spec = [s for s in scn['assets'] if s['name'] == target][0]
    args = spec['args']
    lo, hi = float(args.get('min_scale', 0.0)), float(args.get('max_scale', 1.0))
    nrm, fc = float(args.get('norm_scale', 1.0)), float(args.get('fix_costs', 0.0))
    base = spec['base']
    facts = {'base_type': base['type'], 'build': build or 'shared', 'own_window': bool('start' in args or 'end' in args),
             'base_window': bool('start' in base.get('args', {}) or 'end' in base.get('args', {})),
             'fix_costs_zero': bool(fc == 0), 'free_range': bool(lo < hi), 'window_zones': _window_zones(spec)}
    stats['own_window'], stats['base_window'] = facts['own_window'], facts['base_window']
    try:
        portf, tg, prices, op, sizes = _sizes(scn, build)
    except Exception as e:
        stats['skipped'] = 'setup:' + err_class(e)
        return viol, stats
    sc_asset = _target(portf, target)
    off, nblk = _block_of(portf, sizes, target)
    if nblk == 0:
        stats['skipped'] = 'inactive'
        return viol, stats
    # facts used to recognise the known finding: a base variable without mapping row
    bop = None
    with Quiet(), impl.Capture(_Shim([sc_asset.base_asset])) as cb:
        try:
            sc_asset.setup_optim_problem(prices, tg)
            bop = cb.caught[sc_asset.base_asset.name][-1]
        except Exception:
            pass
    if bop is not None:
        mapped = set(int(i) for i in bop.mapping.index)
        facts['unmapped_base_vars'] = len(bop.c) - len(mapped)
        facts['all_dispatch'] = bool((bop.mapping['type'] == 'd').all())
        facts['bool_vars'] = bool('bool' in bop.mapping.columns and bop.mapping['bool'].fillna(False).astype(bool).any())
    rg = scaled_dt(case, {'asset': sc_asset})
    dtsum = float(np.sum(rg.dt))
    if case.get('duration') == 'instants':
        # the active duration from the scenario alone: the steps of the horizon that begin inside the scaled asset's window, their
        # lengths as differences of instants in the main time unit (no grid object of the package, no discounting involved)
        d_inst = window_duration(scn['grid'], args)
        stats['duration'] = d_inst
        if abs(d_inst - dtsum) > 1e-9 * max(1.0, abs(d_inst)):
            stats['duration_package'] = dtsum
        dtsum = d_inst
    facts['wrapper_wacc'] = bool(args.get('wacc'))
    res_free = _solve(op)
    if isinstance(res_free, str):
        stats['skipped'] = 'free:' + res_free
        return viol, stats
    v_free = float(res_free.value)
    s_star = float(res_free.x[off + nblk - 1])
    svals = sorted(set([lo, hi] + [lo + (hi - lo) * i / (grid_pts - 1) for i in range(grid_pts)]))
    best = -np.inf
    ref_vals = []   # (scale, value of the portfolio with the base at all capacities * scale/norm, less scale * fix_costs * duration)
    for s in svals:
        # (a) fixed scale vs rescaled base
        s_fix = _with_scale(scn, target, s, s)
        try:
            p1, tg1, pr1, op1, r1 = _solve_scn(s_fix, build=build)
        except Exception as e:
            stats['skipped'] = 'fixed-setup:' + err_class(e)
            continue
        if isinstance(r1, str):
            v1 = None
        else:
            v1 = float(r1.value)
            best = max(best, v1)
        k = s / nrm
        newp = {}
        bspec = scaled_spec(base, k, scn['prices'], newp)
        if bspec is None:
            continue
        bspec['name'] = target   # same name: same column labels
        # the rescaled base lives in the intersection of its own window with the scaled asset's window (by date arithmetic on
        # the specification; an order book, whose constructor takes no window, gets the attributes after building)
        _intersect_window(bspec, args)
        s_ref = _replace_asset(scn, target, [bspec])
        s_ref['prices'].update(newp)
        try:
            p2, tg2, pr2, op2, r2 = _solve_scn(s_ref)
        except Exception as e:
            stats.setdefault('ref_errors', []).append(err_class(e))
            continue
        stats['fixed'] += 1
        if isinstance(r2, str) or v1 is None:
            if (v1 is None) != isinstance(r2, str):
                viol.append(_violation('scaled_fixed', 'scale %s: scaled portfolio %s, rescaled base portfolio %s' % (
                    s, 'unsolved (%s)' % r1 if v1 is None else 'solved', 'unsolved (%s)' % r2 if isinstance(r2, str) else 'solved'),
                    what='status', **facts))
            continue
        v2 = float(r2.value) - s * fc * dtsum
        ref_vals.append((s, v2))
        tol = 1e-5 * max(1.0, abs(v1), abs(v2))
        if abs(v1 - v2) > tol:
            viol.append(_violation('scaled_fixed', 'scale %s (norm %s): value %.8g of the scaled portfolio vs %.8g = value of the portfolio '
                                   'with capacities times %s (%.8g) minus %s*%s*%s' % (s, nrm, v1, v2, k, float(r2.value), s, fc, dtsum),
                                   what='value', **facts))
            continue
        # the same statement through the cost vectors for price samples (Portfolio.create_cost_samples, the costs_only set-up used
        # for robust optimisation): the optimal point of the fixed-scale portfolio, valued with the cost vector made for these very
        # prices, is worth the rescaled base portfolio less s * fix_costs * duration, and the entry of the scale variable is
        # fix_costs * duration per unit of scale (also where the scale is held at 0 and the value cannot tell)
        if case.get('cost_samples'):
            try:
                with Quiet():
                    c_s = np.asarray(p1.create_cost_samples([pr1], tg1)[0], dtype=float)
                stats['cost_samples'] = stats.get('cost_samples', 0) + 1
                if len(c_s) != len(r1.x):
                    viol.append(_violation('scaled_fixed', 'scale %s: cost vector for a price sample has %d entries, the problem %d variables' % (s, len(c_s), len(r1.x)),
                                           what='cost-sample-length', **facts))
                else:
                    v1c = -float(c_s @ np.asarray(r1.x, dtype=float))
                    if abs(v1c - v2) > 1e-5 * max(1.0, abs(v1c), abs(v2)):
                        j = off + nblk - 1
                        viol.append(_violation('scaled_fixed', 'scale %s (norm %s): the optimal point of the scaled portfolio valued with the cost vector for a price sample '
                                               '(create_cost_samples) is worth %.8g vs %.8g = value of the portfolio with capacities times %s (%.8g) minus %s*%s*%s; '
                                               'entry of the scale variable %.10g, fix_costs * duration = %.10g' % (
                                                   s, nrm, v1c, v2, k, float(r2.value), s, fc, dtsum, float(c_s[j]), fc * dtsum),
                                               what='cost-sample-value', **facts))
                    else:
                        j = off + nblk - 1
                        if abs(float(c_s[j]) - fc * dtsum) > 1e-9 * max(1.0, abs(fc * dtsum)):
                            viol.append(_violation('scaled_fixed', 'scale %s: cost vector for a price sample: entry of the scale variable %.10g vs fix_costs * duration = %s*%s = %.10g' % (
                                s, float(c_s[j]), fc, dtsum, fc * dtsum), what='cost-sample-vector', **facts))
            except Exception as e:
                stats.setdefault('cost_sample_errors', []).append(err_class(e))
        # transported feasibility: base variables of the scaled solution are feasible for the rescaled base and vice versa
        if len(op2.c) == len(op1.c) - 1:
            x1 = np.delete(r1.x, off + nblk - 1)
            x2 = np.insert(r2.x, off + nblk - 1, s)
            if base['type'] == 'OrderBook':
                # the rescaled order book executes a share z of capa*k, the scaled one x = k*z of capa
                # (only orders with a mapping row are dispatch variables; the others keep their box [0,1])
                if k <= 0 or bop is None:
                    continue
                idx = off + np.array(sorted(set(int(i) for i in bop.mapping.index)), dtype=int)
                x1 = x1.copy()
                if len(idx):
                    x1[idx] = x1[idx] / k
                    x2[idx] = x2[idx] * k
            w, what = pf.feasibility_violation(op2, x1)
            if w > 1e-5:
                viol.append(_violation('scaled_fixed', 'scale %s: dispatch of the scaled solution violates %s of the rescaled base portfolio by %.3g' % (s, what, w),
                                       what='transport', **facts))
            w, what = pf.feasibility_violation(op1, x2)
            if w > 1e-5:
                viol.append(_violation('scaled_fixed', 'scale %s: solution of the rescaled base portfolio (with s appended) violates %s of the scaled portfolio by %.3g' % (s, what, w),
                                       what='transport-back', **facts))
    vb, vr = [], []   # violations of (b) and of (b'); reported after those of (a), the statement (b') first
    # (b) free scale
    if best > -np.inf:
        stats['free'] += 1
        tol = 1e-5 * max(1.0, abs(v_free), abs(best))
        if v_free < best - tol:
            vb.append(_violation('scaled_free', 'free scale value %.8g below fixed-scale value %.8g' % (v_free, best), what='lower', **facts))
        s_fix = _with_scale(scn, target, s_star, s_star)
        try:
            _, _, _, _, r3 = _solve_scn(s_fix, build=build)
            if not isinstance(r3, str) and abs(float(r3.value) - v_free) > tol:
                vb.append(_violation('scaled_free', 'free scale value %.8g at reported scale %.6g, but fixing the scale there gives %.8g' % (
                    v_free, s_star, float(r3.value)), what='at-optimum', **facts))
        except Exception as e:
            stats.setdefault('ref_errors', []).append(err_class(e))
        if not (lo - 1e-7 <= s_star <= hi + 1e-7):
            vb.append(_violation('scaled_free', 'reported scale %.6g outside [%s, %s]' % (s_star, lo, hi), what='range', **facts))
    # (b') free scale, the statement itself: the optimum with a free scale is the best over the allowed range of
    #      R(s) = value of the plain portfolio with the base at all capacities * s/norm, less s * fix_costs * duration.
    #      No scanned scale of the range - the end points min_scale and max_scale among them - may do better than the free optimum
    #      (a smaller size is strictly better when the base carries an obligation and capacity costs nothing), and the free optimum
    #      is attained: it is R(s*) at the reported scale s*, which lies in the range.
    if ref_vals:
        stats['free_ref'] = len(ref_vals)
        s_best, r_best = max(ref_vals, key=lambda p: p[1])
        stats['best_scale'] = 'min' if s_best == lo else 'max' if s_best == hi else 'interior'
        stats['ref_spread'] = bool(r_best - min(v for _, v in ref_vals) > 1e-5 * max(1.0, abs(r_best)))
        tol = 1e-5 * max(1.0, abs(v_free), abs(r_best))
        if v_free < r_best - tol:
            vr.append(_violation('scaled_free', 'free scale in [%s, %s] (norm %s, fix_costs %s): optimal value %.8g at reported scale %.6g, but the base with all '
                                   'capacities times %s/%s, less %s*%s*%s, gives %.8g: the optimum is not the best over the allowed range (scanned: %s)' % (
                                       lo, hi, nrm, fc, v_free, s_star, s_best, nrm, s_best, fc, dtsum, r_best,
                                       ', '.join('%.4g: %.8g' % p for p in ref_vals)), what='best-over-range', **facts))
        elif lo - 1e-7 <= s_star <= hi + 1e-7:
            k = s_star / nrm
            newp = {}
            bspec = scaled_spec(base, k, scn['prices'], newp)
            if bspec is not None:
                bspec['name'] = target
                _intersect_window(bspec, args)
                s_ref = _replace_asset(scn, target, [bspec])
                s_ref['prices'].update(newp)
                try:
                    _, _, _, _, r4 = _solve_scn(s_ref)
                    if isinstance(r4, str):
                        vr.append(_violation('scaled_free', 'free scale: optimal value %.8g at reported scale %.6g, but the portfolio with the base at all capacities '
                                               'times %.6g/%s is unsolved (%s)' % (v_free, s_star, s_star, nrm, r4), what='attained-status', **facts))
                    else:
                        v4 = float(r4.value) - s_star * fc * dtsum
                        if abs(v4 - v_free) > 1e-5 * max(1.0, abs(v_free), abs(v4)):
                            vr.append(_violation('scaled_free', 'free scale: optimal value %.8g at reported scale %.6g, but the base with all capacities times %.6g/%s, '
                                                   'less %.6g*%s*%s, gives %.8g' % (v_free, s_star, s_star, nrm, s_star, fc, dtsum, v4), what='attained', **facts))
                except Exception as e:
                    stats.setdefault('ref_errors', []).append(err_class(e))
    return viol + vr + vb, stats


def _window_zones(spec):
    """zones in which the window dates of a wrapper and of everything it wraps are written ('' = naive), sorted"""
    out = set()

    def walk(a):
        for k in ('start', 'end'):
            v = a.get('args', {}).get(k)
            if isinstance(v, dict) and ('$ts' in v or '$dt' in v):
                out.add(str(v.get('tz') or '') if '$ts' in v else '')
        if 'base' in a:
            walk(a['base'])
        for x in a.get('inner', []):
            walk(x)
    walk(spec)
    return sorted(out)


def _date_of(v):
    """a window date of a specification: None, naive Timestamp ({'$dt': iso}: wall clock of the grid) or zone-aware Timestamp
    ({'$ts': iso wall clock, 'tz': zone}: a point in time, whatever zone it is written in)"""
    if v is None:
        return None
    if '$ts' in v:
        return pd.Timestamp(v['$ts'], tz=v.get('tz'))
    return pd.Timestamp(v['$dt'])


def _date_spec(ts):
    """specification of a date: naive dates as they are, zone-aware dates as the same INSTANT written in UTC"""
    if ts.tzinfo is None:
        return gen.dtv(ts)
    return {'$ts': gen.iso(ts.tz_convert('UTC').tz_localize(None)), 'tz': 'UTC'}


def window_duration(g, wargs):
    """active duration of a window (start / end of `wargs`, either may be missing) on the horizon of grid specification `g`, in the
    grid's main time unit, from the SCENARIO alone: the grid points as instants (pandas date_range in the zone of the grid), a step
    belongs to the window when it begins in [start, end) - naive dates are wall clock of the grid -, its length is the difference
    of its two end points as points in time.  Plain lengths: nothing is discounted."""
    tz = g.get('tz')
    pts = pd.date_range(pd.Timestamp(g['start'], tz=tz), pd.Timestamp(g['end'], tz=tz), freq=g['freq'])
    unit = pd.Timedelta(1, g.get('unit', 'h'))

    def inst(v):
        t = _date_of(v)
        if t is not None and t.tzinfo is None and tz is not None:
            t = t.tz_localize(tz)
        return t
    s, e = inst(wargs.get('start')), inst(wargs.get('end'))
    tot = Fraction(0)
    for a, b in zip(pts[:-1], pts[1:]):
        if (s is None or a >= s) and (e is None or a < e):
            tot += Fraction((b - a).value, unit.value)
    return float(tot)


def _intersect_window(a, wargs):
    """what StructuredAsset does to an inner asset's window, and ScaledAsset to its base asset's: the intersection - by hand on
    the specification: the later of the two starts and the earlier of the two ends AS POINTS IN TIME (zone-aware dates of
    different zones are compared by instant, never by their wall-clock reading; naive dates are all wall clock of the grid)"""
    s, e = _date_of(wargs.get('start')), _date_of(wargs.get('end'))
    # an OrderBook's constructor takes no window: the wrapper sets the attributes (applied after building);
    # for an inner ScaledAsset the wrapper changes the window of the scaled asset, which hands it on to its base
    tgt = a.setdefault('_attrs', {}) if a['type'] == 'OrderBook' else a['args']
    if s is not None:
        cur = _date_of(tgt.get('start'))
        if cur is None:
            tgt['start'] = copy.deepcopy(wargs['start'])
        else:
            tgt['start'] = _date_spec(cur if (cur - s) >= pd.Timedelta(0) else s)
    if e is not None:
        cur = _date_of(tgt.get('end'))
        if cur is None:
            tgt['end'] = copy.deepcopy(wargs['end'])
        else:
            tgt['end'] = _date_spec(cur if (cur - e) <= pd.Timedelta(0) else e)


def oracle_structured(case, seed=0):
    """oracle (c) on the real code; returns (violations, stats)"""
    viol, stats = [], {'compared': 0, 'dispatch_equal': 0, 'skipped': None}
    pviol = []   # differences of the two PROBLEMS (reported after differences of optimal value / solutions)
    build = case.get('build')   # the structured portfolio is built in the case's way, the flat reference the plain way
    scn = jitter_prices(case['scn'], seed)
    target = case['target']
    spec = [s for s in scn['assets'] if s['name'] == target][0]
    inner = copy.deepcopy(spec['inner'])
    for a in inner:
        _intersect_window(a, spec['args'])
    flat = _replace_asset(scn, target, inner)
    facts = {'inner_types': sorted(set(a['type'] for a in inner)), 'window': bool(spec['args']), 'build': build or 'shared',
             'window_zones': _window_zones(spec)}
    try:
        p1, tg1, pr1, op1, r1 = _solve_scn(scn, build=build)
    except Exception as e:
        stats['skipped'] = 'structured-setup:' + err_class(e)
        return viol, stats
    try:
        p2, tg2, pr2, op2, r2 = _solve_scn(flat)
    except Exception as e:
        stats['skipped'] = 'flat-setup:' + err_class(e)
        return viol, stats
    stats['compared'] = 1
    # problem level: same variables, same rows up to N<->S and order, same dispatch rows at outer nodes
    j1, j2 = problem_json(op1), problem_json(op2)
    for v in ('c', 'l', 'u'):
        d = pf.cmp_vec(v, j1[v], j2[v], 0)
        if d:
            pviol.append(_violation('structured_flat', 'vector %s of the portfolio with the structured asset differs from the flat portfolio\'s: %s' % (
                v, d.replace('(model)', '(structured)').replace('(impl)', '(flat)')), what='vectors', **facts))

    def ns(rows):
        return [dict(r, kind='S' if r['kind'] == 'N' else r['kind']) for r in rows]
    d = pf.cmp_rows('rows', ns(j1['rows']), ns(j2['rows']), 0)
    if d:
        pviol.append(_violation('structured_flat', 'rows differ (up to N<->S, order): %s' % d, what='rows', **facts))
    ext_nodes = set(scn['nodes']) - set(spec.get('inner_nodes', []))

    def drows(j):
        return sorted((m['var'], m['node'], m['step'], Fraction(m['factor'])) for m in j['mapping'] if m['kind'] == 'd' and m['node'] in ext_nodes)
    if drows(j1) != drows(j2):
        pviol.append(_violation('structured_flat', 'dispatch rows at outer nodes differ between structured and flat mapping', what='mapping', **facts))
    n1 = sorted((t, n) for t, n in j1.get('nodal', []))
    n2 = sorted((t, n) for t, n in j2.get('nodal', []) if n in ext_nodes)
    if n1 != n2:
        pviol.append(_violation('structured_flat', 'recorded nodal restrictions at outer nodes differ', what='nodal', **facts))
    # value level
    if isinstance(r1, str) or isinstance(r2, str):
        if isinstance(r1, str) != isinstance(r2, str):
            viol.append(_violation('structured_flat', 'structured: %s, flat: %s' % (r1 if isinstance(r1, str) else 'solved', r2 if isinstance(r2, str) else 'solved'),
                                   what='status', **facts))
        return viol + pviol, stats
    v1, v2 = float(r1.value), float(r2.value)
    tol = 1e-5 * max(1.0, abs(v1), abs(v2))
    if abs(v1 - v2) > tol:
        viol.append(_violation('structured_flat', 'optimal value %.8g (structured) vs %.8g (flat)' % (v1, v2), what='value', **facts))
        return viol + pviol, stats
    if len(op1.c) == len(op2.c):
        w, what = pf.feasibility_violation(op2, r1.x)
        if w > 1e-5:
            viol.append(_violation('structured_flat', 'structured solution violates %s of the flat problem by %.3g' % (what, w), what='transport', **facts))
        w, what = pf.feasibility_violation(op1, r2.x)
        if w > 1e-5:
            viol.append(_violation('structured_flat', 'flat solution violates %s of the structured problem by %.3g' % (what, w), what='transport-back', **facts))
    # dispatch at the external nodes
    try:
        with Quiet():
            o1 = eao.io.extract_output(p1, op1, r1, pr1)
            o2 = eao.io.extract_output(p2, op2, r2, pr2)
        sa = _target(p1, target)
        equal = True
        for n in sa.nodes:
            c1 = impl.disp_cols(p1)[(target, n.name)]
            tot = np.zeros(len(o2['dispatch']))
            for a in inner:
                key = (a['name'], n.name)
                cols2 = impl.disp_cols(p2)
                if key in cols2 and cols2[key] in o2['dispatch'].columns:
                    tot = tot + o2['dispatch'][cols2[key]].values.astype(float)
            d1 = o1['dispatch'][c1].values.astype(float)
            if np.max(np.abs(d1 - tot)) > 1e-4 * max(1.0, np.max(np.abs(d1))):
                equal = False
        stats['dispatch_equal'] = int(equal)
        stats['dispatch_nonzero'] = int(np.max(np.abs(d1)) > 1e-6)
    except Exception as e:
        stats['readout_error'] = err_class(e)
    return viol + pviol, stats


def oracle(case, impl_result=None, seed=0):
    if case['kind'] == 'scaled':
        return oracle_scaled(case, seed)
    return oracle_structured(case, seed)


# ------------------------------------------------------------------ contract of a property module (for harness.core)
ID = 'C16'
THEOREMS = [
    ('EAO.Properties.C16', 'EAO.C16.scaled_fixed', 'for any non-empty base problem whose bounds have the right length and whose capacity variables (mapping rows of type d, or non-boolean rows of type i) are variables of the base, 0 < norm and a point (x, s) with 0 <= s, min_scale <= s <= max_scale: (x, s) satisfies bounds and rows of the scaled problem iff x satisfies the base problem with every right-hand side and the bounds of every capacity variable multiplied by s/norm, the bounds of the other variables (boolean, other types, without mapping row) unchanged; the value is the base value minus s * fix_costs * sum dt'),
    ('EAO.Properties.C16', 'EAO.C16.scaled_free', 'free scale: under the hypotheses of scaled_fixed on the base, 0 <= min_scale and base rows mentioning only columns < n, a number B bounds the values of the (relaxed) scaled problem iff for every s in [min_scale, max_scale] it bounds the values of the base problem rescaled by s/norm less s * fix_costs * sum dt: the optimum with a free scale is the best over the allowed range (same upper bounds, same supremum)'),
    ('EAO.Properties.C16', 'EAO.C16.scaled_wf', 'shape of the scaled problem: n+1 variables, bounds of that length, |rows| + 2 nD rows with columns < n+1, mapping re-assigned to the scaled asset, last mapping row = scale row pointing at variable n'),
    ('EAO.Properties.C16', 'EAO.C16.scaled_empty', 'an empty base problem is handed on unchanged'),
    ('EAO.Properties.C16', 'EAO.C16.structured_flat_vectors', 'portfolio with the structured asset and flat portfolio have the same cost vector and bounds (same variables, same order)'),
    ('EAO.Properties.C16', 'EAO.C16.structured_flat', 'if dispatch rows sit at the assets own nodes and inner non-external node names do not occur among outer assets nodes nor in the skip list, a point satisfies all rows of the portfolio with the structured asset iff it satisfies all rows of the flat portfolio'),
]
PARTIAL = ['scaled_fixed and scaled_free are statements about the RELAXED problems (bounds and rows, no integrality): for bases with boolean variables (plants with on-variables, full-execution order books) the scaled asset is not "all capacities times s/norm" (capacities that sit in matrix coefficients of boolean variables are not scaled; known finding F-16c); the per-builder identification of "right-hand sides and capacity bounds times k" with "all capacity parameters times k" is checked by the fixed-scale oracle on the real code, not proved; the model takes the base problem as the real base asset built it during the scaled set-up - that this is the base on its own window intersected with the scaled asset\'s start/end is likewise checked by the fixed-scale oracle (and by the window oracles of C08), not proved']
THEOREMS_C08_SCALED = [
    ('EAO.Properties.C08Scaled', 'EAO.C08Scaled.scaled_mapping', 'mapping of the scaled problem (non-empty base) = base mapping with the asset name replaced, followed by the one row of the scale'),
    ('EAO.Properties.C08Scaled', 'EAO.C08Scaled.scale_row_not_dispatch', 'the scale row has type size, step 0 and is a dispatch row at no node and step'),
    ('EAO.Properties.C08Scaled', 'EAO.C08Scaled.scaled_dispatch_rows', 'the rows of type d of the scaled problem are exactly those of the base (asset name replaced; variable, node, step, factor unchanged), for every base, empty or not'),
    ('EAO.Properties.C08Scaled', 'EAO.C08Scaled.scaled_vars_only_in_window', 'if every mapping row of the base sits at a step in W, every mapping row of the scaled problem does, except the scale row (step 0)'),
    ('EAO.Properties.C08Scaled', 'EAO.C08Scaled.scaled_dispatch_only_in_window', 'if the base has no dispatch row outside W, neither has the scaled asset'),
    ('EAO.Properties.C08Scaled', 'EAO.C08Scaled.scaled_no_dispatch_outside_window', 'at a step where the base has no dispatch row the dispatch reported for the scaled asset is 0 at every node, whatever the solution (also at step 0 where the scale row sits)'),
    ('EAO.Properties.C08Scaled', 'EAO.C08Scaled.scaled_empty_window_inert', 'a base that is not active in the horizon (empty problem) makes the scaled asset inert: no variable (no scale, no fixed costs), no row, no mapping row'),
    ('EAO.Properties.C08Scaled', 'EAO.C08Scaled.structured_d_rows', 'the rows of type d of the structured problem are, as a list, the inner portfolio rows of type d that are not at a non-external node, re-assigned to the wrapper'),
    ('EAO.Properties.C08Scaled', 'EAO.C08Scaled.structured_dispatch_rows_at', 'the dispatch rows of the structured problem at (node n, step t) are, as a list, the inner portfolio dispatch rows at (n, t) if n is external, and none otherwise'),
    ('EAO.Properties.C08Scaled', 'EAO.C08Scaled.structured_dispatch_row_iff', 'the structured problem has a dispatch row at (n, t) iff n is external and some inner asset has a dispatch row at (n, t)'),
    ('EAO.Properties.C08Scaled', 'EAO.C08Scaled.structured_vars_only_in_window', 'if every mapping row of every inner asset sits at a step in W (union of the inner windows), so does every mapping row of the structured problem'),
    ('EAO.Properties.C08Scaled', 'EAO.C08Scaled.structured_dispatch_only_in_window', 'a dispatch row of the structured problem sits at a step where some inner asset has a dispatch row'),
    ('EAO.Properties.C08Scaled', 'EAO.C08Scaled.structured_no_dispatch_outside_window', 'at a step where no inner asset has a dispatch row, and at every node that is not external, the dispatch reported for the structured asset is 0 whatever the solution'),
    ('EAO.Properties.C08Scaled', 'EAO.C08Scaled.structured_empty_window_inert', 'a structured asset all of whose inner assets are inactive is inert: no variable, no row, no mapping row'),
]
COMPONENTS = ['buildScaled on the captured real base problem vs ScaledAsset.setup_optim_problem',
              'structured on the captured real inner problems vs StructuredAsset.setup_optim_problem']


def scenarios(seed, tier):
    n = 500 if tier == 'quick' else 3000
    rnd = random.Random(seed * 104729 + 16)
    for i in range(n):
        yield 'gen%d' % i, gen_case(random.Random(rnd.getrandbits(48)), tmax=8 if tier == 'quick' else 12)


def run_case(case, drv, with_oracle=True):
    r = {'evaluated': 1, 'nontrivial': False, 'features': [case['kind'], 'base:' + str(case.get('base_kind')), 'build:%s' % (case.get('build') or 'shared')],
         'disagreements': [], 'violations': []}
    ir, mr, dis = run_corr(case, drv)
    r['disagreements'] = [{'component': case['kind'], 'detail': d} for d in dis]
    if ir.get('error'):
        r['features'].append('impl-error:%s:%s' % (ir.get('stage'), ir['error']))
    if ir.get('inner') and case['kind'] == 'scaled':
        bop = ir['inner'][0][1]
        if len(bop.c) and len(set(int(i) for i in bop.mapping.index)) < len(bop.c):
            r['features'].append('base-var-without-mapping-row')
    if case['kind'] == 'structured' and _nonstr([op for _, op in ir.get('inner', [])]):
        r['features'].append('inner-nonstring-var-names')
    if with_oracle and not ir.get('error'):
        v, st = oracle(case, ir, seed=int(scen_hash(case), 16) % 1000)
        r['violations'] = v
        r['nontrivial'] = bool(st.get('fixed') or st.get('compared'))
        r['observed'] = st
        if case['kind'] == 'scaled' and st.get('fixed'):
            r['features'].append('fixed-scale-compared:own-window=%s,base-window=%s' % (st.get('own_window'), st.get('base_window')))
    return r


def scen_hash(obj):
    import hashlib
    return hashlib.sha1(json.dumps(obj, sort_keys=True, default=str).encode()).hexdigest()[:8]


# ------------------------------------------------------------------ self test
def run_corr(case, drv):
    ir = run_impl(case)
    req = request(case, ir)
    mr = None if req is None else _ok(drv, req)
    return ir, mr, compare(case, ir, mr)


def selftest(n, seed, drv, oracles=0, verbose=False):
    rnd = random.Random(seed)
    counts = {'cases': 0, 'scaled': 0, 'structured': 0, 'compared': 0, 'impl_errors': {}, 'rowless_base_var': 0, 'base_empty_mapping': 0, 'base_bool': 0, 'inner_nonstr': 0, 'model_errors': {},
              'oracle_cases': 0, 'oracle_violations': 0, 'features': {}}
    disagreements, violations = [], []
    for i in range(n):
        case = gen_case(random.Random(rnd.getrandbits(48)))
        counts['cases'] += 1
        counts[case['kind']] += 1
        ir, mr, dis = run_corr(case, drv)
        if mr is not None:
            counts['compared'] += 1
            if mr.get('error'):
                counts['model_errors'][mr['error']] = counts['model_errors'].get(mr['error'], 0) + 1
        if case['kind'] == 'scaled' and ir.get('inner') and ir.get('wrapped') is not None:
            bop = ir['inner'][0][1]
            if len(bop.c) and len(set(int(i) for i in bop.mapping.index)) < len(bop.c):
                counts['rowless_base_var'] += 1
            if len(bop.c) and len(bop.mapping) == 0:
                counts['base_empty_mapping'] += 1
            if 'bool' in bop.mapping.columns and len(bop.c):
                counts['base_bool'] += 1
        if case['kind'] == 'structured' and ir.get('wrapped') is not None and _nonstr([op for _, op in ir.get('inner', [])]):
            counts['inner_nonstr'] += 1
        if ir.get('error'):
            k = '%s:%s:%s' % (case['kind'], ir.get('stage'), ir['error'])
            counts['impl_errors'][k] = counts['impl_errors'].get(k, 0) + 1
        f = case.get('base_kind') or 'structured'
        counts['features'][f] = counts['features'].get(f, 0) + 1
        for d in dis:
            disagreements.append({'case': i, 'detail': d, 'scenario': case})
            if verbose:
                print('DISAGREE', i, case['kind'], case.get('base_kind'), d)
        if i < oracles and not ir.get('error'):
            v, st = oracle(case, ir, seed=i)
            counts['oracle_cases'] += 1
            counts['oracle_violations'] += len(v)
            for x in v:
                violations.append({'case': i, 'scenario': case, **x})
                if verbose:
                    print('VIOLATION', i, x['oracle'], x['detail'], x['facts'])
    return {'counts': counts, 'disagreements': disagreements, 'violations': violations}


if __name__ == '__main__':
    import argparse
    ap = argparse.ArgumentParser()
    ap.add_argument('-n', type=int, default=100)
    ap.add_argument('--seed', type=int, default=1)
    ap.add_argument('--oracles', type=int, default=0)
    ap.add_argument('--scratch', default=None, help='scratch Main.lean to interpret instead of the compiled driver')
    a = ap.parse_args()
    if a.scratch:
        drv = ScratchDriver(a.scratch)
    else:
        from ..lean import Driver
        drv = Driver()
    r = selftest(a.n, a.seed, drv, oracles=a.oracles, verbose=True)
    print(json.dumps(r['counts'], indent=1))
    print('disagreements:', len(r['disagreements']), 'violations:', len(r['violations']))
    drv.close()
