"""Generators and the coarse-interval expectation for C07 (mapping faithfulness).

  gen_gappy_portfolio(rnd, tmax)     portfolios in which the dispatch of a node has GAPS in time: few or no full-horizon markets,
                                     most assets live in a window inside the horizon (disjoint life times), sparse order books
  gen_coarse_portfolio(rnd, quick)   portfolios with assets on their own COARSER frequency whose coarse steps hold unequal numbers
                                     of fine steps: calendar days (23 / 24 / 25 hours) on zone-aware sub-daily grids across a
                                     daylight-saving switch, weeks on such grids, asset windows that begin part of a coarse step
                                     before the horizon or inside it; plus equal-length controls
  coarse_model(grid, args, drv)      the coarse grid of an asset (fine steps per coarse step, lengths) from the LEAN model of
                                     Timegrid's coarse branch (driver ops `grid` + `coarsen`, chained by comp/grid.run_model);
                                     theorem EAO.C19.coarse_partition says that these lists are the fine steps in [cut k, cut k+1)
  coarse_specs(scn)                  (asset name, args carrying freq/start/end, spec) of the top-level assets on a coarser frequency
  real_coarse(scn, spec)             the same lists read from the restricted grid the real code builds (tie of the model to the code)
  gen_param_portfolio(rnd, tmax)     portfolios of all asset classes whose per-step parameters (costs, fuel, factors, capacities) come in every
                                     accepted FORM: interval data covering only part of the asset's window (before / after / holes / nothing),
                                     complete interval data, price keys, arrays, numbers (reform_params re-draws the forms of any scenario)
  complete_defaults(scn)             the scenario with the documented default of such parameters WRITTEN OUT as explicit intervals over
                                     the rest of time (expectation of the metamorphic default oracle of C07)
  gen_degenerate_portfolio(rnd, tmax) portfolios with dispatch rows of FACTOR ZERO (commodity factor 0, order of capacity 0, fuel per start /
                                     if on 0; stand-alone, as base of a scaled asset, inside a structured asset, on a coarser frequency) at
                                     nodes where at some steps nothing else dispatches (the other assets start later / end earlier / are
                                     absent), plus zero capacities
"""
import pandas as pd

from .. import gen
from . import grid as G

COARSE_TYPES = ('SimpleContract', 'Contract', 'Transport', 'ExtendedTransport', 'Storage', 'MultiCommodityContract')
DST_ZONES = ['CET', 'Europe/Berlin', 'US/Eastern']
H = pd.Timedelta(hours=1)


# ------------------------------------------------------------------------------------------ gaps in time
GAP_WINDOWS = ['inside', 'inside', 'inside', 'inside', 'offgrid', 'start_only', 'end_only', 'straddle_start', 'straddle_end']


def _live_window(rnd, g, live):
    """a life time [a, b) inside one of the live segments (grid indices); open towards the horizon's ends now and then"""
    T = g['T_nominal']
    L, R = rnd.choice(live)
    a = rnd.randint(L, R - 1)
    b = rnd.randint(a + 1, R)
    s, e = gen.P(g, a), gen.P(g, b)
    step = pd.Timedelta(seconds=g['step_s'])
    r = rnd.random()
    if r < 0.15 and b - a >= 2:
        s = s + step / 2                      # between grid points: active from the next point on
    elif r < 0.3 and L == 0:
        s = None if rnd.random() < 0.5 else gen.P(g, -3)
    elif r < 0.45 and R == T:
        e = None if rnd.random() < 0.5 else gen.P(g, T + 2)
    if (s is not None and not gen.ok_local(s, g)) or (e is not None and not gen.ok_local(e, g)):
        return None
    return s, e


def _set_window(tgt, w):
    tgt.pop('start', None)
    tgt.pop('end', None)
    if w[0] is not None:
        tgt['start'] = gen.dtv(w[0])
    if w[1] is not None:
        tgt['end'] = gen.dtv(w[1])


def gen_gappy_portfolio(rnd, tmax=12):
    """a random portfolio (all asset kinds of gen.gen_portfolio, no coarse frequencies) in which nodes are without dispatch at
    some steps BETWEEN steps with dispatch.  Full-horizon markets are rare.  Two ways, both drawn from the seed:
      dead zones : one or two intervals strictly inside the horizon are dead for a random non-empty set of nodes - every asset
                   touching such a node (markets, wrapped assets of a structured asset, orders of an order book) lives inside one
                   of the remaining live segments (e.g. two contracts with disjoint life times and nothing else at the node);
      free       : three quarters of the assets get a life time from the placement table, mostly strictly inside the horizon."""
    s = gen.gen_portfolio(rnd, tmax=tmax, tmin=min(6, tmax), market_prob=rnd.choice([0.0, 0.3, 0.6, 0.9]), allow_freq=False, allow_periodic=False,
                          adv_names=rnd.random() < 0.15, nodes_max=rnd.choice([1, 2, 3, 3]), max_assets=rnd.choice([2, 3, 5]))
    g = s['grid']
    T = g['T_nominal']
    if rnd.random() < 0.3 or T < 4:
        for a in s['assets']:
            if a['type'] in ('OrderBook', 'StructuredAsset'):
                continue
            tgt = a['base']['args'] if a['type'] == 'ScaledAsset' else a['args']
            if rnd.random() < 0.75:
                tgt.pop('start', None)
                tgt.pop('end', None)
                gen.put_window(tgt, gen.window(rnd, g, kinds=GAP_WINDOWS))
        s['gaps'] = 'free'
        return s
    # dead zones [d1, d2) with 0 < d1 < d2 < T
    cuts = sorted(rnd.sample(range(1, T), 2 if (T < 7 or rnd.random() < 0.6) else 4))
    dead = [(cuts[i], cuts[i + 1]) for i in range(0, len(cuts), 2)]
    live, lo = [], 0
    for d1, d2 in dead:
        live.append((lo, d1))
        lo = d2
    live.append((lo, T))
    base_nodes = [n for n in s['nodes'] if not n.endswith('_i1')]
    gappy = set(rnd.sample(base_nodes, rnd.randint(1, len(base_nodes))))

    def touches(a):
        if a['type'] == 'ScaledAsset':
            return touches(a['base'])
        return bool(gappy & set(a.get('nodes', []))) or any(touches(b) for b in a.get('inner', []))

    def rewindow(a):
        if a['type'] == 'ScaledAsset':
            return rewindow(a['base'])
        if a['type'] == 'StructuredAsset':
            for b in a['inner']:
                rewindow(b)
            return
        if a['type'] == 'OrderBook':
            o = a['args']['orders']
            for i in range(len(o['start'])):
                if rnd.random() < 0.8:
                    w = _live_window(rnd, g, live)
                    if w is not None and w[0] is not None and w[1] is not None:
                        o['start'][i], o['end'][i] = gen.dtv(w[0]), gen.dtv(w[1])
                    else:
                        o['start'][i], o['end'][i] = gen.dtv(gen.P(g, T + 1)), gen.dtv(gen.P(g, T + 4))
                else:   # stays where it is only if it is outside the horizon or inside a live segment; else moved behind the horizon
                    o['start'][i], o['end'][i] = gen.dtv(gen.P(g, T + 1)), gen.dtv(gen.P(g, T + 4))
            return
        w = _live_window(rnd, g, live)
        if w is not None:
            _set_window(a['args'], w)
    for a in s['assets']:
        if touches(a):
            rewindow(a)
    s['gaps'] = {'dead': dead, 'nodes': sorted(gappy)}
    return s


# ------------------------------------------------------------------------------------------ coarse frequencies
def _valid(ts, tz):
    if tz is None:
        return True
    try:
        return pd.Timestamp(ts).tz_localize(tz).tz_localize(None) == pd.Timestamp(ts)
    except Exception:
        return False


def _freq_of(td):
    tot = int(pd.Timedelta(td).total_seconds())
    return ('%dmin' % (tot // 60)) if tot % 3600 else ('%dh' % (tot // 3600))


def _coarse_grid(rnd, quick):
    """(grid dict, list of coarse frequencies to draw from, mode).  Modes:
      dst_days  sub-daily grid in a daylight-saving zone over whole calendar days (start at any hour) around a switch -> 'd', '2d'
      dst_week  6h / 12h / 4h grid in such a zone over three to four weeks around a switch -> 'W' (cuts at Sundays, local time), 'd'
      multiple  any grid of gen.GRIDS (naive or with zone); coarse step = 2..4 fine steps (equal lengths unless a window cuts one)"""
    mode = rnd.choice(['dst_days'] * 5 + ['dst_week'] + ['multiple'] * 3)
    if mode == 'dst_days':
        tz = rnd.choice(DST_ZONES)
        day = pd.Timestamp(rnd.choice(G.DST_DATES[tz])) - pd.Timedelta(days=rnd.choice([0, 0, 1]))
        start = day + rnd.choice([0, 0, 0, 6, 12, 20]) * H
        freq, step = rnd.choice([('h', H), ('h', H), ('h', H), ('2h', 2 * H), ('4h', 4 * H), ('30min', H / 2)])
        nd = rnd.randint(2, 3 if (quick or freq == '30min') else 4)
        end = pd.Timestamp(start + pd.DateOffset(days=nd))
        if rnd.random() < 0.2:
            end = end + rnd.choice([1, 2, 5]) * step        # a few fine steps after the last whole day (they belong to no coarse step)
        coarse = ['d', 'd', 'd', 'd', '2d', '12h', '6h']
    elif mode == 'dst_week':
        tz = rnd.choice(DST_ZONES)
        sw = pd.Timestamp(G.DST_DATES[tz][rnd.choice([2, 3])])          # the Sunday of the switch
        start = sw - pd.Timedelta(days=rnd.choice([7, 7, 9, 14]))
        freq, step = rnd.choice([('6h', 6 * H), ('6h', 6 * H), ('12h', 12 * H), ('4h', 4 * H)])
        end = sw + pd.Timedelta(days=rnd.choice([7, 14]))
        coarse = ['W', 'W', 'W', 'd']
    else:
        freq, unit, step = rnd.choice(gen.GRIDS)
        tz = rnd.choice([None, None, 'CET', 'US/Eastern', 'UTC'])
        start = pd.Timestamp('2021-01-01') + rnd.choice([0, 0, 6, 24]) * H
        if tz is not None and rnd.random() < 0.5 and step <= 4 * H:
            start = pd.Timestamp(rnd.choice(['2021-03-27 20:00', '2021-10-30 20:00']))
        if freq == 'd':
            start = start.normalize()
        mult = rnd.choice([2, 2, 3, 4])
        end = start + mult * rnd.randint(2, 5) * step
        coarse = [_freq_of(mult * step)] if freq != 'd' else ['%dd' % mult]
    for _ in range(8):
        if _valid(start, tz) and _valid(end, tz):
            break
        end = end + step
    unit = rnd.choice(['h', 'h', 'd']) if mode != 'multiple' else unit
    g = {'start': gen.iso(start), 'end': gen.iso(end), 'freq': freq, 'unit': unit, 'tz': tz, 'step_s': int(step.total_seconds())}
    gen.fix_grid(g)
    g['mode'] = mode
    return g, coarse, mode


def _cuts(g, cfreq, s, e):
    """the coarse cuts of a life time [s, e) (naive local; None = the horizon's end point) exactly as the code asks pandas for them, if
    there is at least one coarse step and every coarse step holds a grid point (else the set-up raises: finding F-19b); else None"""
    tz = g['tz']
    try:
        pts = pd.date_range(pd.Timestamp(g['start'], tz=tz), pd.Timestamp(g['end'], tz=tz), freq=g['freq'])
        S = pts[0] if s is None else pd.Timestamp(s, tz=tz)
        E = pts[-1] if e is None else pd.Timestamp(e, tz=tz)
        cuts = pd.date_range(start=S, end=E, freq=cfreq, tz=tz)
        fine = pts[:-1]
        if len(cuts) < 2 or not all(((fine >= a) & (fine < b)).any() for a, b in zip(cuts[:-1], cuts[1:])):
            return None
        return cuts
    except Exception:
        return None


def _coarse_window(rnd, g, cfreq, mode):
    """life time of a coarse asset: none (whole horizon); begins part of a coarse step BEFORE the horizon (the first coarse step is
    only partly on the grid); begins at a grid point inside the horizon (a whole number of days later for calendar frequencies, or
    anywhere); ends at one of its own coarse cuts inside the horizon, or a fine step or two after one (that remainder is dropped)"""
    T = g['T_nominal']
    tz = g['tz']
    k = rnd.choice(['none', 'none', 'none', 'straddle', 'straddle', 'inside', 'inside', 'start_only'])
    if k == 'none':
        return {}
    step = pd.Timedelta(seconds=g['step_s'])
    p0, pT = gen.P(g, 0), gen.P(g, T)
    m = max(1, int(round(G.freq_ns(cfreq) / (g['step_s'] * 10 ** 9))))      # nominal number of fine steps per coarse step
    if k == 'straddle':
        if m < 2:
            return {}
        s = p0 - rnd.randint(1, m - 1) * step
    elif cfreq.endswith('d') or cfreq == 'W':
        s = p0 + rnd.randint(0, 2) * pd.Timedelta(days=1) + rnd.choice([0, 0, 0, 1, 3]) * step
    else:
        s = gen.P(g, rnd.randint(0, max(0, T - m)))
    if not _valid(s, tz) or not s < pT:
        return {}
    e = None
    if k == 'inside':
        cuts = _cuts(g, cfreq, s, None)
        if cuts is None:
            return {}
        e = cuts[rnd.randint(1, len(cuts) - 1)].tz_localize(None)
        if rnd.random() < 0.2 and e + 2 * step <= pT:
            e = e + step * rnd.choice([1, 2])
        if not _valid(e, tz):
            e = None
    if _cuts(g, cfreq, s, e) is None:
        return {}
    w = {'start': gen.dtv(s)}
    if e is not None:
        w['end'] = gen.dtv(e)
    return w


def gen_coarse_portfolio(rnd, quick=True):
    g, coarse, mode = _coarse_grid(rnd, quick)
    from .. import scen
    T = scen.make_grid(g).T
    prices = {}
    nn = rnd.randint(1, 3)
    node_names = ['N%d' % i for i in range(1, nn + 1)]
    assets = []
    for n in node_names:
        if rnd.random() < 0.85:
            assets.append({'type': 'SimpleContract', 'name': 'mkt%d' % (len(assets) + 1), 'nodes': [n],
                           'args': {'min_cap': -40.0, 'max_cap': 40.0, 'price': gen.price_key(rnd, prices, T)}})
    for _ in range(rnd.randint(1, 3)):
        kind = rnd.choice(['simple', 'simple', 'contract', 'transport', 'ext_transport', 'storage', 'storage', 'storage2', 'multi', 'scaled'])
        node = rnd.choice(node_names)
        two = rnd.sample(node_names, 2) if nn >= 2 else None
        nm = 'co%d' % (len(assets) + 1)
        if kind in ('transport', 'ext_transport', 'storage2', 'multi') and not two:
            kind = 'simple'
        if kind == 'simple':
            a = gen.gen_simple_contract(rnd, g, prices, T, nm, node)
        elif kind == 'contract':
            a = gen.gen_contract(rnd, g, prices, T, nm, node)
        elif kind in ('transport', 'ext_transport'):
            a = gen.gen_transport(rnd, g, prices, T, nm, two[0], two[1], ext=(kind == 'ext_transport'))
        elif kind == 'storage':
            a = gen.gen_storage(rnd, g, prices, T, nm, [node], allow_mip=True, allow_blocks=False)
        elif kind == 'storage2':
            a = gen.gen_storage(rnd, g, prices, T, nm, two, allow_mip=True, allow_blocks=False)
        elif kind == 'multi':
            a = gen.gen_multi(rnd, g, prices, T, nm, two)
        else:
            bk = rnd.choice(['simple', 'storage', 'contract'])
            base = (gen.gen_simple_contract(rnd, g, prices, T, nm + '_b', node) if bk == 'simple' else
                    gen.gen_contract(rnd, g, prices, T, nm + '_b', node) if bk == 'contract' else
                    gen.gen_storage(rnd, g, prices, T, nm + '_b', [node], False, False))
            a = {'type': 'ScaledAsset', 'name': nm, 'base': base,
                 'args': {'min_scale': rnd.choice([0.0, 0.5]), 'max_scale': rnd.choice([1.0, 2.0]), 'norm_scale': rnd.choice([1.0, 2.0]), 'fix_costs': gen.q8(rnd, 0, 1)}}
        tgt = a['base']['args'] if a['type'] == 'ScaledAsset' else a['args']
        tgt.pop('max_store_duration', None)
        cf = rnd.choice(coarse)
        tgt['freq'] = cf
        tgt.update(_coarse_window(rnd, g, cf, mode))
        if rnd.random() < 0.15:
            w = rnd.choice([0.05, 0.1])
            a['args']['wacc'] = w
            if a['type'] == 'ScaledAsset':
                a['base']['args']['wacc'] = w
        assets.append(a)
    # further assets on the grid's own frequency
    for _ in range(rnd.randint(0, 2)):
        kind = rnd.choice(['simple', 'storage', 'orderbook', 'transport'])
        node = rnd.choice(node_names)
        nm = 'fi%d' % (len(assets) + 1)
        if kind == 'simple':
            a = gen.gen_simple_contract(rnd, g, prices, T, nm, node)
        elif kind == 'storage':
            a = gen.gen_storage(rnd, g, prices, T, nm, [node], allow_mip=False, allow_blocks=False)
        elif kind == 'orderbook':
            a = gen.gen_orderbook(rnd, g, prices, T, nm, node, allow_mip=False)
        elif nn >= 2:
            two = rnd.sample(node_names, 2)
            a = gen.gen_transport(rnd, g, prices, T, nm, two[0], two[1])
        else:
            continue
        if a['type'] != 'OrderBook' and rnd.random() < 0.3:
            gen.put_window(a['args'], gen.window(rnd, g))
        assets.append(a)
    return {'grid': g, 'nodes': node_names, 'prices': prices, 'assets': assets}


# ------------------------------------------------------------------------------------------ expectation from the Lean model
def coarse_specs(scn):
    """[(asset name, args with freq / start / end, spec of the asset carrying them)] of the top-level assets (or bases of scaled
    assets) on a frequency other than the grid's"""
    out = []
    for a in scn['assets']:
        b = a['base'] if a['type'] == 'ScaledAsset' else a
        tgt, t = b.get('args', {}), b['type']
        if t in COARSE_TYPES and tgt.get('freq') is not None and tgt['freq'] != scn['grid']['freq'] and 'periodicity' not in tgt:
            out.append((a['name'], tgt, b))
    return out


def real_coarse(scn, spec):
    """fine steps per coarse step and coarse lengths of the restricted grid the real code builds for this asset (fresh objects)"""
    from .. import scen
    tg = scen.make_grid(scn['grid'])
    a = scen.build_asset(spec, scen.make_nodes(scn['nodes']))
    a.set_timegrid(tg)
    r = tg.restricted
    if not hasattr(r, 'I_minor_in_major'):
        return None
    return {'minor': [[int(i) for i in I] for I in r.I_minor_in_major], 'dt': [float(x) for x in r.dt]}


def _dspec(v):
    if v is None:
        return None
    return G.dspec(pd.Timestamp(v['$dt']), 'datetime')


def coarse_model(g, args, drv):
    """coarse grid of an asset with `args` (freq, start, end) on grid `g`, by the Lean model: {'minor': [[fine step, ...] per coarse
    step], 'dt': [Fraction per coarse step], 'dt_fine': {fine step: Fraction}, 'pts', 'cuts'}; None if the model (or pandas) refuses"""
    from fractions import Fraction
    gs = {'start': G.dspec(pd.Timestamp(g['start']), 'datetime'), 'end': G.dspec(pd.Timestamp(g['end']), 'datetime'), 'freq': g['freq'],
          'unit': g.get('unit', 'h'), 'tz': g.get('tz'), 'malformed': None, 'wacc': None}
    case = {'kind': 'coarse', 'grid': gs, 'cfreq': args['freq'],
            'cwindow': {'s': _dspec(args.get('start')), 'e': _dspec(args.get('end')), 'placement': 'asset'}}
    mr = G.run_model(case, drv, {'grid': {}})
    fine, c = mr.get('grid', {}), mr.get('coarse')
    if 'idx' not in fine or not isinstance(c, dict) or 'minor' not in c or c.get('same_freq'):
        return None
    return {'minor': [[int(i) for i in m] for m in c['minor']], 'dt': [Fraction(x) for x in c['dt']],
            'dt_fine': {int(i): Fraction(x) for i, x in zip(fine['idx'], fine['dt'])}, 'cuts': c.get('cuts'), 'pts': fine['pts']}


# ------------------------------------------------------------------------------------------ forms of the vector parameters
# Parameters that `Asset.make_vector` turns into one value per step of the asset's window.  Accepted forms: number, key of the price
# data, numpy array (one entry per step of the window), interval data {start, end, values}.  Where interval data leave steps of the
# window unspecified the DOCUMENTED default applies (class doc strings: 'Defaults to 0.' / 'Defaults to 1.'; make_vector: 'default
# value ... is used if any of the entries of the resulting vector are not specified').  Capacities have no default: every step must
# be covered.      (parameter, lowest, highest value drawn, documented default)
P_CONTRACT = [('extra_costs', 0.125, 2, 0.0)]
P_PLANT = [('extra_costs', 0.125, 1, 0.0), ('start_costs', 0.5, 4, 0.0), ('running_costs', 0.125, 1, 0.0)]
P_FUEL = [('start_fuel', 0.5, 2, 0.0), ('consumption_if_on', 0.125, 1, 0.0), ('fuel_efficiency', 0.25, 2, 1.0)]
P_HEAT = [('conversion_factor_power_heat', 0.25, 2, 1.0), ('max_share_heat', 0.25, 2, 1.0)]
P_MINLOAD = [('min_load_threshhold', 0.5, 3, 0.0), ('min_load_costs', 0.5, 3, 0.0)]
DOC_DEFAULT = {p: d for tab in (P_CONTRACT, P_PLANT, P_FUEL, P_HEAT, P_MINLOAD) for p, _, _, d in tab}
CONTRACT_TYPES = ('SimpleContract', 'Contract', 'MultiCommodityContract')
PLANT_TYPES = ('Plant', 'CHPAsset', 'CHPAsset_with_min_load_costs')
PARAM_KINDS = ['simple', 'contract', 'multi', 'plant', 'plant', 'plant', 'chp', 'chp', 'chp', 'chp', 'transport', 'ext_transport',
               'scaled', 'structured', 'storage']


def vector_params(spec):
    """[(parameter, lo, hi, documented default)] of the default-carrying vector parameters of an asset spec"""
    t = spec['type']
    if t in CONTRACT_TYPES:
        return list(P_CONTRACT)
    if t not in PLANT_TYPES:
        return []
    out = list(P_PLANT)
    heat = t != 'Plant'
    if len(spec['nodes']) == (3 if heat else 2):
        out += P_FUEL
    if heat:
        out += P_HEAT
    if t == 'CHPAsset_with_min_load_costs':
        out += P_MINLOAD
    return out


def _window_steps(g, args):
    """grid steps of the window [start, end) given in `args`, as the real restricted grid has them"""
    from .. import scen
    tg = scen.make_grid(g)
    tg.set_restricted_grid(scen.dec(args['start']) if 'start' in args else None, scen.dec(args['end']) if 'end' in args else None)
    return [int(i) for i in tg.restricted.I]


def pieces_dict(rnd, g, lo, hi, A, B, partial, with_end=False):
    """interval data over the window of the steps A..B-1: consecutive pieces [cut, next cut) from before the horizon to behind it, cut
    inside the window (now and then between two grid points); with `partial` some pieces are NOT given (before / after / a hole in the
    middle / several), or all of the data lie outside the horizon; now and then without 'end' (each interval then ends where the next
    begins; the last one 'generously' later or never - unless `with_end`).  None if a boundary is no legitimate local time."""
    T = g['T_nominal']
    step = pd.Timedelta(seconds=g['step_s'])
    val = lambda: gen.q8(rnd, lo, hi)
    inner = list(range(A + 1, B))
    k = min(rnd.randint(2 if partial else 1, 4), len(inner) + 1)
    if partial and (k < 2 or rnd.random() < 0.1):
        # nothing of the window is covered
        s, e = rnd.choice([(gen.P(g, T + 1), gen.P(g, T + 4)), (gen.P(g, -6), gen.P(g, -2)), (gen.P(g, -6), gen.P(g, A)), (gen.P(g, B), gen.P(g, T + 4))])
        if not (gen.ok_local(s, g) and gen.ok_local(e, g)):
            return None
        return {'start': [gen.dtv(s)], 'end': [gen.dtv(e)], 'values': [val()]}
    cuts = sorted(rnd.sample(inner, k - 1))
    pts = [gen.P(g, -2)] + [gen.P(g, c) + (step / 2 if rnd.random() < 0.15 else 0 * step) for c in cuts] + [gen.P(g, T + 3)]
    if not all(gen.ok_local(x, g) for x in pts):
        return None
    mask = [True] * k
    if partial:
        while all(mask):
            mask = [rnd.random() < 0.55 for _ in range(k)]
        if not any(mask):
            mask[rnd.randrange(k)] = True
    ss = [pts[i] for i in range(k) if mask[i]]
    ee = [pts[i + 1] for i in range(k) if mask[i]]
    d = {'start': [gen.dtv(x) for x in ss], 'values': [val() for _ in ss]}
    first = mask.index(True)
    if all(mask[first:]) and not with_end and rnd.random() < 0.3:
        if len(ss) > 1 and not gen.ok_local(ss[-1] + 2 * (ss[-1] - ss[-2]), g):
            d['end'] = [gen.dtv(x) for x in ee]
        return d                                       # no 'end': implicit ends
    d['end'] = [gen.dtv(x) for x in ee]
    return d


def draw_form(rnd, g, prices, T, lo, hi, steps, default, forms):
    """(form, value) of a vector parameter in one of `forms` (scalar / key / array / full / partial); `steps` = steps of the asset's window;
    default None: every step must be covered"""
    form = rnd.choice(forms)
    A, B = (steps[0], steps[-1] + 1) if steps else (0, g['T_nominal'])
    if form == 'array' and not steps:
        form = 'scalar'
    if form in ('full', 'partial'):
        d = pieces_dict(rnd, g, lo, hi, A, B, form == 'partial', with_end=default is None)
        if d is not None:
            return form, d
        form = 'scalar'
    if form == 'key':
        k = 'k%d' % len(prices)
        prices[k] = [gen.q8(rnd, lo, hi) for _ in range(T)]
        return form, k
    if form == 'array':
        return form, {'$arr': [gen.q8(rnd, lo, hi) for _ in steps]}
    return 'scalar', gen.q8(rnd, lo, hi)


def reform_params(rnd, s, arrays=True):
    """re-draws the FORM of the vector parameters of every asset of the scenario (also of wrapped assets and bases of scaled assets):
    default-carrying parameters mostly as interval data covering part of the window, also complete interval data, price keys, arrays,
    numbers; capacities (no default) as complete interval data, keys, arrays.  Returns the list of 'asset.parameter:form' drawn."""
    from .. import scen
    g, prices = s['grid'], s['prices']
    T = scen.make_grid(g).T
    drawn = []
    wrapped = set()
    for a in s['assets']:
        for b in a.get('inner', []):
            wrapped.add(id(b))
        if a['type'] == 'ScaledAsset' and ('start' in a['args'] or 'end' in a['args'] or 'start' in a['base']['args'] or 'end' in a['base']['args']):
            wrapped.add(id(a['base']))
    for spec in scen.all_asset_specs(s):
        args = spec.get('args', {})
        t = spec['type']
        if 'periodicity' in args or 'freq' in args:
            continue
        try:
            steps = _window_steps(g, args)
        except Exception:
            continue
        arr = [] if (id(spec) in wrapped or not arrays) else ['array']          # (an array has one entry per step of the window: only where the window is certain)
        for p, lo, hi, dflt in vector_params(spec):
            if rnd.random() < (0.55 if p in args else 0.4):
                form, v = draw_form(rnd, g, prices, T, lo, hi, steps, dflt, ['partial'] * 5 + ['full', 'key', 'scalar'] + arr)
                args[p] = v
                drawn.append('%s.%s:%s' % (spec['name'], p, form))
        # capacities: every step must be covered
        if t in PLANT_TYPES:
            for p, lo, hi in (('min_cap', 0.5, 2), ('max_cap', 2, 8)):
                if p in args and isinstance(args[p], (int, float)) and rnd.random() < 0.3:
                    form, v = draw_form(rnd, g, prices, T, lo, hi, steps, None, ['full', 'full', 'key'] + arr)
                    args[p] = v
                    drawn.append('%s.%s:%s' % (spec['name'], p, form))
        elif t in CONTRACT_TYPES:
            if isinstance(args.get('min_cap'), (int, float)) and isinstance(args.get('max_cap'), (int, float)) and rnd.random() < 0.3:
                lo_, hi_ = args['min_cap'], args['max_cap']
                for p, x, y in (('min_cap', lo_ - 1, lo_), ('max_cap', hi_, hi_ + 1)):
                    form, v = draw_form(rnd, g, prices, T, x, y, steps, None, ['full', 'full', 'key'] + arr)
                    args[p] = v
                    drawn.append('%s.%s:%s' % (spec['name'], p, form))
        # (transports: the constructor compares min_cap <= max_cap as numbers; the interval data their set-up reads cannot be given)
    return drawn


def gen_param_portfolio(rnd, tmax=12, arrays=True):
    """a random portfolio (contracts, multi-commodity contracts, plants, CHPs incl. the min-load class, transports, scaled and
    structured assets, storages; own windows; no coarse frequencies, no periodicity) in which the vector parameters of all assets
    come in all accepted forms (reform_params).  `arrays` False: no arrays (an array has one entry per step of the asset's window; in a
    split set-up the same asset is set up on every interval, no array fits them all)"""
    s = gen.gen_portfolio(rnd, kinds=PARAM_KINDS, tmax=tmax, tmin=min(4, tmax), allow_freq=False, allow_periodic=False,
                          nodes_max=3, max_assets=rnd.choice([1, 2, 3]), allow_blocks=False, market_prob=0.9)
    s['params'] = reform_params(rnd, s, arrays)
    return s


# ------------------------------------------------------------------------------------------ the documented default, written out
def _explicit(d):
    """[(start, end, value)] of plain interval data as Timegrid.values_to_grid reads them (naive Timestamps; end None = for ever);
    None for other encodings"""
    st, vals = d.get('start'), d.get('values')
    isdt = lambda x: isinstance(x, dict) and '$dt' in x
    if not isinstance(st, list) or not isinstance(vals, list) or not st or not all(isdt(x) for x in st):
        return None
    S = [pd.Timestamp(x['$dt']) for x in st]
    if 'end' in d:
        if not isinstance(d['end'], list) or not all(isdt(x) for x in d['end']):
            return None
        E = [pd.Timestamp(x['$dt']) for x in d['end']]
    elif len(S) > 1:
        E = S[1:] + [S[-1] + 2 * (S[-1] - S[-2])]
    else:
        E = [None]
    if not (len(S) == len(E) == len(vals)) or not all(isinstance(v, (int, float)) for v in vals):
        return None
    return list(zip(S, E, vals))


def complete_dict(d, default, g):
    """(interval data equal to `d` on its intervals and giving `default` EXPLICITLY everywhere else (from long before to long after
    the horizon), True if a step of the horizon is outside the intervals of `d`); None if `d` is not plain, sorted and disjoint"""
    iv = _explicit(d)
    if iv is None:
        return None
    iv = sorted(iv, key=lambda x: x[0])
    for i, (s, e, _) in enumerate(iv):
        if (e is not None and not s < e) or (e is None and i < len(iv) - 1) or (i + 1 < len(iv) and e > iv[i + 1][0]):
            return None
    g0, g1 = pd.Timestamp(g['start']), pd.Timestamp(g['end'])
    far = pd.Timedelta(days=400)
    lo = (min(g0, iv[0][0]) - far).normalize() + 12 * H
    hi = (max([g1] + [x for _, x, _ in iv if x is not None] + [x for x, _, _ in iv]) + far).normalize() + 12 * H
    out, cur, gap_in = [], lo, False
    pts = [pd.Timestamp(x) for x in g.get('_pts', [])[:-1]] or [g0]
    for s, e, v in iv:
        if cur < s:
            out.append((cur, s, default))
            gap_in = gap_in or any(cur <= p < s for p in pts)
        out.append((s, hi if e is None else e, v))
        cur = hi if e is None else e
    if cur < hi:
        out.append((cur, hi, default))
        gap_in = gap_in or any(cur <= p < hi for p in pts)
    return {'start': [gen.dtv(x) for x, _, _ in out], 'end': [gen.dtv(x) for _, x, _ in out], 'values': [float(v) for _, _, v in out]}, gap_in


def complete_defaults(scn):
    """(copy of the scenario in which every default-carrying vector parameter given as interval data is extended by its documented
    default, written out explicitly over the rest of time; ['asset.parameter', ...] of those that leave a step of the horizon open)"""
    import copy
    from .. import scen
    s2 = copy.deepcopy(scn)
    changed = []
    for spec in scen.all_asset_specs(s2):
        args = spec.get('args', {})
        for p, _, _, dflt in vector_params(spec):
            v = args.get(p)
            if isinstance(v, dict) and 'start' in v and 'values' in v:
                r = complete_dict(v, dflt, s2['grid'])
                if r is not None and r[1]:
                    args[p] = r[0]
                    changed.append('%s.%s' % (spec['name'], p))
    return s2, changed


# ------------------------------------------------------------------------------------------ degenerate quantities: factor zero
# Dispatch rows whose factor is ZERO are rows like all others: the variable is mapped to that node and step, so the (node, step) "has
# dispatch" and gets its nodal row and its entry in the nodal record (the row may read 0 = 0).  Legitimate parameters that produce them:
#   MultiCommodityContract  factors_commodities with a 0 (a commodity switched off) at any position, possibly all of them
#   OrderBook               an order with capa 0
#   Plant / CHPAsset        consumption_if_on = 0 / start_fuel = 0 written out (number, zeros as interval data / price key, interval data
#                           covering part of the window with the default 0 elsewhere) with a fuel node: rows of the booleans at the fuel node
#   the same wrapped        base of a ScaledAsset, inside a StructuredAsset (zero factor at the external or at the internal node),
#                           on the asset's own coarser frequency (weight * 0)
# (a transport's efficiency and a plant's fuel efficiency / conversion factor must not be 0: refused by the package.)
# The zero rows only make a difference where nothing else dispatches at the node and step: the other assets of such "quiet" nodes live
# outside a dead zone (start later / end earlier / gone), zero capacities (l = u = 0) are mixed in as further degenerate companions.
ZERO_CARRIERS = ['multi', 'multi', 'multi', 'multi', 'orderbook', 'orderbook', 'orderbook', 'plant_fuel', 'chp_fuel', 'scaled_multi',
                 'scaled_orderbook', 'structured_multi', 'structured_orderbook', 'coarse_multi']


def zero_factors(rnd, n):
    """factors of a multi-commodity contract over n nodes with at least one 0 (all 0 now and then)"""
    f = [rnd.choice([1.0, 0.5, -1.0, 2.0, 0.25, -0.5]) for _ in range(n)]
    if rnd.random() < 0.1:
        return [0.0] * n
    for i in rnd.sample(range(n), rnd.randint(1, n - 1)):
        f[i] = rnd.choice([0.0, 0.0, 0])
    return f


def zero_orders(rnd, g, a):
    """some (now and then all) orders of an order book get capacity 0; mostly one more zero order inside the horizon"""
    o = a['args']['orders']
    T = g['T_nominal']
    if rnd.random() < 0.7:
        x = rnd.randint(0, T - 1)
        y = rnd.randint(x + 1, T)
        s, e = gen.P(g, x), gen.P(g, y)
        if rnd.random() < 0.15:
            s = gen.P(g, -2)
        if gen.ok_local(s, g) and gen.ok_local(e, g):
            k = rnd.randint(0, len(o['start']))
            o['start'].insert(k, gen.dtv(s))
            o['end'].insert(k, gen.dtv(e))
            o['capa'].insert(k, 0.0)
            o['price'].insert(k, gen.q8(rnd, -2, 15))
    n = len(o['capa'])
    allz = rnd.random() < 0.25
    for i in range(n):
        if allz or rnd.random() < 0.4:
            o['capa'][i] = 0.0
    if not any(c == 0 for c in o['capa']):
        o['capa'][rnd.randrange(n)] = 0.0
    return a


def zero_fuel(rnd, g, prices, T, a):
    """consumption if on / start fuel of a plant with fuel node: zero, written out in one of the accepted forms"""
    args = a['args']
    if 'min_cap' not in args and 'start_costs' not in args and rnd.random() < 0.8:
        args['min_cap'] = gen.q8(rnd, 0.5, 2)
    try:
        steps = _window_steps(g, args)
    except Exception:
        steps = []
    which = rnd.choice([['consumption_if_on'], ['start_fuel'], ['consumption_if_on', 'start_fuel']])
    for p in which:
        form, v = draw_form(rnd, g, prices, T, 0, 0, steps, 0.0, ['scalar', 'scalar', 'full', 'partial', 'key'])
        args[p] = v
    if 'start_fuel' in which and 'start_costs' not in args:
        args['start_costs'] = gen.q8(rnd, 0.5, 4)
    return a


def gen_degenerate_portfolio(rnd, tmax=12):
    """a random portfolio with dispatch rows of factor zero (see above), drawn as a family: one or two carriers of zero factors of any
    kind, companions of all simple kinds (markets, contracts, storages, transports, order books, zero capacities).  The nodes at which
    a carrier has zero rows are mostly 'quiet': the companions touching them live outside a dead zone [d1, d2) of the horizon (d1 = 0:
    they all start later; d2 = T: they all end earlier; whole horizon: there are none), so that at some steps the zero rows are the
    only dispatch of the node."""
    from .. import scen
    g = gen.gen_grid(rnd, tmin=min(3, tmax), tmax=tmax, tz_prob=0.1)
    T = scen.make_grid(g).T
    prices = {}
    nn = rnd.randint(2, 4)
    node_names = rnd.sample(gen.NAMES_ADV, nn) if rnd.random() < 0.12 else ['N%d' % i for i in range(1, nn + 1)]
    all_nodes = list(node_names)
    carriers, companions, quiet, what = [], [], set(), []

    def multi(nm, nodes):
        a = gen.gen_multi(rnd, g, prices, T, nm, nodes)
        a['args']['factors_commodities'] = zero_factors(rnd, len(nodes))
        return a

    def zero_nodes(a):
        return [n for n, f in zip(a['nodes'], a['args']['factors_commodities']) if f == 0]

    for ci in range(rnd.choice([1, 1, 1, 2])):
        kind = rnd.choice(ZERO_CARRIERS)
        nm = 'z%d' % (ci + 1)
        k = 3 if (nn >= 3 and rnd.random() < 0.35) else 2
        if kind in ('multi', 'coarse_multi'):
            a = multi(nm, rnd.sample(node_names, k))
            quiet.update(zero_nodes(a))
            if kind == 'coarse_multi':
                mult = rnd.choice([2, 2, 3, 4])
                tot = g['step_s'] * mult
                if T % mult == 0:
                    a['args']['freq'] = ('%dmin' % (tot // 60)) if tot % 3600 else ('%dh' % (tot // 3600))
                else:
                    kind = 'multi'
            if kind == 'multi' and rnd.random() < 0.3:
                gen.put_window(a['args'], gen.window(rnd, g, kinds=['inside', 'start_only', 'end_only', 'straddle_start', 'straddle_end', 'offgrid']))
        elif kind == 'orderbook':
            a = zero_orders(rnd, g, gen.gen_orderbook(rnd, g, prices, T, nm, rnd.choice(node_names), allow_mip=rnd.random() < 0.3))
            quiet.add(a['nodes'][0])
        elif kind in ('plant_fuel', 'chp_fuel'):
            chp = kind == 'chp_fuel' and nn >= 3
            a = zero_fuel(rnd, g, prices, T, gen.gen_plant(rnd, g, prices, T, nm, rnd.sample(node_names, 3 if chp else 2), chp=chp, allow_mip=True))
            quiet.add(a['nodes'][-1])
            if rnd.random() < 0.3:
                gen.put_window(a['args'], gen.window(rnd, g, kinds=['inside', 'start_only', 'end_only', 'straddle_start', 'straddle_end']))
        elif kind in ('scaled_multi', 'scaled_orderbook'):
            if kind == 'scaled_multi':
                base = multi(nm + '_b', rnd.sample(node_names, k))
                quiet.update(zero_nodes(base))
            else:
                base = zero_orders(rnd, g, gen.gen_orderbook(rnd, g, prices, T, nm + '_b', rnd.choice(node_names), allow_mip=False))
                quiet.add(base['nodes'][0])
            a = {'type': 'ScaledAsset', 'name': nm, 'base': base,
                 'args': {'min_scale': rnd.choice([0.0, 0.0, 0.5]), 'max_scale': rnd.choice([1.0, 2.0, 4.0]), 'norm_scale': rnd.choice([1.0, 2.0, 0.5]),
                          'fix_costs': gen.q8(rnd, 0, 1)}}
        else:
            ext, inn = rnd.choice(node_names), nm + '_i1'
            all_nodes.append(inn)
            if kind == 'structured_multi':
                first = multi(nm + '_m', rnd.sample([inn, ext], 2))
                quiet.update(n for n in zero_nodes(first) if n == ext)
                inner = [first]
            else:
                inner = [gen.gen_transport(rnd, g, prices, T, nm + '_tr', inn, ext),
                         zero_orders(rnd, g, gen.gen_orderbook(rnd, g, prices, T, nm + '_o', rnd.choice([inn, ext]), allow_mip=False))]
                inner[0]['args'].pop('costs_time_series', None)
                if inner[1]['nodes'][0] == ext:
                    quiet.add(ext)
            inner.append(gen.gen_simple_contract(rnd, g, prices, T, nm + '_c', inn) if rnd.random() < 0.6 else
                         gen.gen_storage(rnd, g, prices, T, nm + '_s', [inn], False, False))
            for ia in inner[1:]:
                if ia['type'] != 'OrderBook' and rnd.random() < 0.4:
                    gen.put_window(ia['args'], gen.window(rnd, g, kinds=['inside', 'start_only', 'end_only', 'straddle_end', 'straddle_start']))
            a = {'type': 'StructuredAsset', 'name': nm, 'nodes': [ext], 'inner': inner, 'inner_nodes': [inn], 'args': {}}
        what.append(kind)
        carriers.append(a)
    # companions
    for n in node_names:
        if rnd.random() < 0.6:
            companions.append({'type': 'SimpleContract', 'name': 'mkt%d' % (len(companions) + 1), 'nodes': [n],
                               'args': {'min_cap': -40.0, 'max_cap': 40.0, 'price': gen.price_key(rnd, prices, T)}})
    for _ in range(rnd.randint(0, 3)):
        kind = rnd.choice(['simple', 'simple', 'contract', 'storage', 'storage2', 'transport', 'ext_transport', 'orderbook', 'zero_cap', 'zero_cap'])
        nm = 'co%d' % (len(companions) + 1)
        node, two = rnd.choice(node_names), rnd.sample(node_names, 2)
        if kind == 'simple':
            a = gen.gen_simple_contract(rnd, g, prices, T, nm, node)
        elif kind == 'contract':
            a = gen.gen_contract(rnd, g, prices, T, nm, node)
        elif kind in ('storage', 'storage2'):
            a = gen.gen_storage(rnd, g, prices, T, nm, [node] if kind == 'storage' else two, allow_mip=True, allow_blocks=False)
        elif kind in ('transport', 'ext_transport'):
            a = gen.gen_transport(rnd, g, prices, T, nm, two[0], two[1], ext=(kind == 'ext_transport'))
        elif kind == 'orderbook':
            a = gen.gen_orderbook(rnd, g, prices, T, nm, node, allow_mip=False)
        else:
            # zero capacities: bounds 0 = 0, the variables and their rows stay
            z = rnd.choice(['contract', 'storage_in', 'storage_out', 'transport'])
            if z == 'contract':
                a = gen.gen_simple_contract(rnd, g, prices, T, nm, node, allow_opts=False)
                a['args']['min_cap'] = a['args']['max_cap'] = 0.0
            elif z == 'transport':
                a = gen.gen_transport(rnd, g, prices, T, nm, two[0], two[1])
                a['args']['min_cap'] = a['args']['max_cap'] = 0.0
            else:
                a = gen.gen_storage(rnd, g, prices, T, nm, [node], allow_mip=False, allow_blocks=False)
                a['args']['cap_in' if z == 'storage_in' else 'cap_out'] = 0.0
            what.append('zero_cap:' + z)
        companions.append(a)
    # the quiet nodes: companions touching them live outside a dead zone
    d1 = 0 if rnd.random() < 0.4 else rnd.randint(0, T - 1)
    d2 = T if rnd.random() < 0.25 else rnd.randint(d1 + 1, T)
    live = [(L, R) for L, R in ((0, d1), (d2, T)) if L < R]
    if rnd.random() < 0.85:
        kept = []
        for a in companions:
            if not (quiet & set(a['nodes'])):
                kept.append(a)
                continue
            if not live:
                continue                                  # (the carrier is alone in its node)
            if a['type'] == 'OrderBook':
                o = a['args']['orders']
                for i in range(len(o['start'])):
                    w = _live_window(rnd, g, live)
                    if w is not None and w[0] is not None and w[1] is not None:
                        o['start'][i], o['end'][i] = gen.dtv(w[0]), gen.dtv(w[1])
                    else:
                        o['start'][i], o['end'][i] = gen.dtv(gen.P(g, T + 1)), gen.dtv(gen.P(g, T + 4))
            else:
                w = _live_window(rnd, g, live)
                if w is None:
                    continue
                _set_window(a['args'], w)
            kept.append(a)
        companions = kept
        dead = [d1, d2]
    else:
        dead = None
    assets = carriers + companions
    rnd.shuffle(assets)
    return {'grid': g, 'nodes': all_nodes, 'prices': prices, 'assets': assets,
            'degenerate': {'carriers': what, 'quiet': sorted(quiet), 'dead': dead}}
