"""pkg-coarseread - C05: read-out of a storage with a coarse frequency (`freq`) EMBEDDED in a portfolio (proof package).

No new executable definition of the model: `fillLevelCoarse` / `fillIncCoarse` (`EAO/Model/CoarseStorage.lean`), `chargeOut` /
`dischargeOut` (`EAO/Model/Storage.lean`) and `assemble` (`EAO/Model/Assemble.lean`) are the definitions the correspondences of
`harness/comp/coarsestorage.py` (coarse storage set-up and repaired `Storage.fill_level`) and `harness/comp/storageread.py`
(charge / discharge / fill-level columns on portfolio mappings) already run against the real code.  This module only carries the
theorem list.

Setting of the theorems: asset list `pre ++ a :: post`, `P = assemble (pre ++ a :: post)`, `off = offsetOf pre`, `slice off x` the
storage's own part of a portfolio solution; `Foreign`: no mapping row of the other assets carries the storage's name; `cg` the
storage's coarse grid over the full grid `ref`, fine steps of the storage numbered k in the order of the minor lists.
"""

M = 'EAO.Properties.C05Coarse'

THEOREMS_C05_COARSE = [
    (M, 'EAO.C05C.readout_embedded_coarse',
     'for EVERY asset problem a at any position of a portfolio whose other assets do not carry the storage name, every coarse grid, every x (feasible or not) and every step: chargeOut, '
     'dischargeOut, fillIncCoarse and fillLevelCoarse on the portfolio mapping equal the same read-outs on a.mapping and the own slice of x'),
    (M, 'EAO.C05C.coarse_storage_wf',
     'whatever buildCoarseStorage returns carries the storage name in every mapping row, names only its own variables (var < n) and has one bound pair per variable'),
    (M, 'EAO.C05C.readout_coarse_position_independent',
     'the same coarse storage problem at any two positions of any two portfolios, solution vectors agreeing on the storage variables: charge, discharge and fill-level columns agree at '
     'every step of the horizon (F-05c for the freq path)'),
    (M, 'EAO.C05C.fill_level_coarse_reported_embedded',
     'all options, any x: at full-grid step t the repaired Storage.fill_level books on the PORTFOLIO mapping, for every fine step of the storage that is t, max(0,-x)*eff_in + min(0,-x) of '
     'the coarse step variables (read from the slice) times dt_fine/dt_coarse plus the inflow of the fine step'),
    (M, 'EAO.C05C.fill_level_coarse_true_embedded',
     'with xf the expansion of the storage slice to the fine steps, minor steps increasing, z_in <= 0 <= z_out in the two-variable form: the fill-level column at the full-grid step of '
     'fine step k, read from the portfolio mapping, is the physical level of the expanded schedule at the end of that fine step - at any position of the storage'),
    (M, 'EAO.C05C.sign_of_portfolio_bounds_coarse',
     'the sign condition z_in <= 0 <= z_out on the slice follows from the bounds of the portfolio problem (other assets with one bound pair per variable)'),
    (M, 'EAO.C05C.fill_level_coarse_true_embedded_feasible',
     'fill_level_coarse_true_embedded for every x within the bounds of the portfolio problem'),
    (M, 'EAO.C05C.charge_discharge_coarse_reported',
     'all options, any x: at full-grid step t the charge / discharge columns read from the portfolio mapping are the sums, over the fine steps of the storage that are t, of max(0,-x) / '
     'min(0,-x) of the coarse step variables times dt_fine/dt_coarse; 0 at every step that is no fine step of the storage'),
    (M, 'EAO.C05C.charge_discharge_coarse_true',
     'at the full-grid step of fine step k the columns show what a fine storage reports at the expanded schedule xf: two-variable form with the signs of the bounds charge = -xf_in,k and '
     'discharge = -xf_out,k; one-variable form max(0,-xf_k) and min(0,-xf_k), adding up to -xf_k, one of them 0; always 0 <= charge, discharge <= 0'),
    (M, 'EAO.C05C.charge_discharge_coarse_true_feasible',
     'charge_discharge_coarse_true for every x within the bounds of the portfolio problem'),
    (M, 'EAO.C05C.reported_columns_consistent_coarse',
     'all options, any x, no sign condition: the fill-level column at the full-grid step of fine step k is start level + sum over the fine steps s <= k of eff_in*charge + discharge + '
     'inflow*dt_fine, with charge / discharge the values of the two other columns at the full-grid step of fine step s'),
    (M, 'EAO.C05C.readout_coarse_embedded_from_grid',
     'from the grid up (top-level grid, cuts of whole coarse steps, cg = Grid.coarsen): no hypothesis on the grids is left; for x within the portfolio bounds the three columns show the '
     'physical level / charge / discharge of the expanded schedule, which lives on ref.restrict s e'),
]

THEOREMS = THEOREMS_C05_COARSE
