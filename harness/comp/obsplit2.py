"""pkg-obsplit2 - C14: order books in a split optimisation WITHOUT a certificate (proof package, asset level).

No new executable definition of the model is evaluated by the driver: `EAO.ObSplit2.obHyps` is the conjunction of
`splitHyps` (C14Builders), `ordersInsideAll` (C14Orders) and `ordersLiveAll`; the interval problems of the theorems are
`intervalProblem` of `EAO.Model.SplitBuild`.  The correspondence of the order-book set-up in the split loop is the one of
`harness/comp/obsplit.py` (driver op of `EAO/Driver/ObSplit.lean`).  This module only carries the theorem list.

Remaining gap (TARGET in `EAO/Properties/C14Orders2.lean`): `Problem.dropInert` of an ASSEMBLED interval problem equals the
assembly of the asset problems without their inert variables - that is what links the interval problems of the theorems
(`intervalProblem as skip I`) to the literal `setupSplitOB` output and hence to `splitWitnessModInert`.
"""

M = 'EAO.Properties.C14Orders2'

THEOREMS_C14_ORDERS2 = [
    (M, 'EAO.C14O2.split_witness_of_interval_banded',
     'general theorem, generalising split_witness_of_banded: asset problems whose variables each belong to ONE INTERVAL (every variable mapped, all mapping rows of a variable in the same '
     'step lists, one boolean flag per variable - booleans allowed), no row across a cut, step lists a partition: the unsplit problem IS the block sum of the interval problems up to the '
     'explicit matching splitPerm (cost, bounds, rows as sets, boolean index sets) - the witness of C14 is true'),
    (M, 'EAO.C14O2.banded_is_interval_banded', 'a banded asset problem (one step per variable, no booleans) is interval-banded for any step lists'),
    (M, 'EAO.C14O2.builders_interval_banded', 'whatever one of the five contract / transport builders returns is interval-banded (through builders_banded)'),
    (M, 'EAO.C14O2.orderbook_interval_banded',
     'the order book (full execution or not) whose orders each cover a step of the grid and do not reach across a cut is interval-banded and has no row across a cut'),
    (M, 'EAO.C14O2.split_witness_orderbooks_builders',
     'for EVERY portfolio of the five builders plus order books under the decidable hypotheses obHyps (splitHyps, every order inside one interval and covering a step) the unsplit problem '
     'is, up to splitPerm, the block sum of the interval problems of its asset problems: witness true, no certificate'),
    (M, 'EAO.C14O2.split_equals_unsplit_orderbooks_builders',
     'hence, with no witness hypothesis: interval solutions feasible and optimal for the interval problems (integrality of full-execution orders included), concatenated and transported '
     'along splitPerm, are a feasible and OPTIMAL point of the unsplit problem, and the unsplit optimum is the sum of the interval optima'),
    (M, 'EAO.C14O2.assembly_without_inert',
     'dropping the inert variables of an ASSEMBLED problem (Problem.dropInert) EQUALS assembling the asset problems without their unmapped variables (livePart), for asset problems whose '
     'unmapped variables are inert (InertOK): the live variables of the assembly are the mapped variables of the assets; equality of cost, bounds, rows in order, mapping, nodal record'),
    (M, 'EAO.C14O2.orderbook_interval_live',
     'the order book built on the grid of an interval has only inert unmapped orders, and without them it IS the restriction of the unsplit order book (orders not across the cut)'),
    (M, 'EAO.C14O2.builder_interval_live', 'a restricted interval-banded asset problem (what a builder returns in an interval) has no unmapped variable: it is its own live part'),
    (M, 'EAO.C14O2.split_witness_orderbooks_literal',
     'for the LITERAL output ps of setupSplitOB (every order a variable of every interval) of every portfolio of the five builders plus order books under obHyps and booksDfOk (one discount '
     'factor per step for every book): splitWitnessModInert U ps (splitPermLive U Is) = true - no certificate'),
    (M, 'EAO.C14O2.split_setup_orderbooks_succeeds', 'under the same hypotheses the split set-up succeeds whenever the unsplit problem has a variable, and its output satisfies the witness modulo inert variables'),
    (M, 'EAO.C14O2.split_equals_unsplit_orderbooks_literal',
     'hence, with NO witness hypothesis (LP): optima of the literal interval problems (inert order variables included), stripped of the inert entries, concatenated, transported along '
     'splitPermLive and extended by the lower bounds, are a feasible and OPTIMAL point of the unsplit problem; the unsplit optimum is the sum of the interval optima'),
    (M, 'EAO.C14O2.split_equals_unsplit_orderbooks_literal_bool', 'the same with the integrality conditions of full-execution orders on both sides'),
]
