"""Correspondence of the builders WITH an own, coarser asset frequency (`SimpleContract(freq=…)`, `Transport(freq=…)`)
with the Lean model `EAO.Model.CoarseBuild`, and the oracle of C13 for these builders on the real code alone.

Model side (driver ops `coarse_contract`, `coarse_transport`, handler `EAO.Driver.handleCoarseBuild`): the model gets the
FULL grid (`ref`: points, indices, dt, Dt and the asset's discount factors, all as the real `Timegrid` computed them), the
asset's coarse restricted grid as the real `Timegrid.set_restricted_grid(start, end, freq)` made it on a FRESH grid object
(`coarse`: grid + `I_minor_in_major`), the cuts `pd.date_range(start, end, freq)` and the lengths of both frequencies,
the price data and the asset's parameters.  It answers with the asset problem (c, l, u, mapping extended to the minor grid, in
order) or the error class, says whether its own coarsening of `ref` along the cuts gives the coarse grid it was handed
(`coarsen`) and whether the builder run from the cuts (`build…G`) gives the same answer (`from_cuts`), and - with
`fine: true` - returns the FINE problem the theorems of `EAO/Properties/C13Builders.lean` compare the coarse one with.

A case is a plain JSON value:
  {kind: 'coarse_contract' | 'coarse_transport', grid: {start, end, freq, unit, tz}, prices: {key: [floats]},
   spec: {type, name, nodes, args (incl. freq, start, end, wacc)}, exact: bool, features: [...]}

Oracle (real code only, `oracle`): the coarse problem the real code builds against the problem the real code builds for
the same asset WITHOUT freq on the window made of the coarse steps, with the price series replaced by its plain mean per
coarse step: same form (one / two variables per step), bounds of a fine step = bounds of its coarse step times
dt_fine/dt_coarse, and for random coarse points z: same value and the same dispatch at every node and FINE step for the
expanded point x_t = z_i * dt_t/dt_i.  Where the hypotheses of the theorem fail the violation carries the kind of the
recorded finding (`coarse_wacc` F-13h, `coarse_varying_limits` F-13i, `coarse_varying_extra_costs`: finding #1 of this package - extra costs varying inside a coarse step are
sampled at its first fine step, not averaged).
"""
import copy
import os
import random
import subprocess
import json
import traceback
from fractions import Fraction

import numpy as np
import pandas as pd

import eaopack as eao
from .. import scen, pf
from ..impl import problem_json, Quiet, err_class
from ..lean import fs, LEAN_DIR
from .common import grid_json, param_json, prices_json, instant
from . import contract as ct

KINDS = {'coarse_contract': 'SimpleContract', 'coarse_transport': 'Transport'}

M = 'EAO.Properties.C13Builders'
THEOREMS_C13_BUILDERS = [
    (M, 'EAO.C13B.coarse_equiv_contract', 'SimpleContract with freq on a well-formed coarse grid, equal discount factors and constant capacities / extra costs inside every coarse step: whenever the coarse problem is built the fine problem (same asset without freq on the minor steps, price series averaged per coarse step) is built too, and both have the same form (1 or 2 variable blocks); every coarse point z expands (fine step t of coarse step i gets z_i*dt_t/dt_i) to a point with the same rate inside every coarse step that is feasible iff z is, costs the same and gives the same dispatch at every asset, node and FINE step; every fine point with equal rates is such an expansion'),
    (M, 'EAO.C13B.coarse_equiv_transport', 'the same for Transport with freq (two mapping rows per variable, factors -1 and efficiency); the fine problem is shown to exist whenever the coarse one is built'),
    (M, 'EAO.C13B.coarse_equiv_contract_grid', 'from the grid up: top-level reference grid, cuts of whole coarse steps [s,e), scalar capacities and extra costs: the fine problem lives on ref.restrict s e and the only hypothesis about the data is equal discounting inside the coarse steps'),
    (M, 'EAO.C13B.coarsen_wellFormed', 'what Grid.coarsen makes of a top-level grid (indices 0..T-1, positive step lengths, increasing points) along non-decreasing cuts satisfies everything the builders use: per-step lists of equal length, distinct indices, every coarse step as long as its (existing, positive) minor steps together'),
    (M, 'EAO.C13B.equalDiscount_of_const', 'the discount factor of a coarse step is the reference factor at one of its minor steps, so equal factors inside every coarse step of the reference grid (e.g. wacc 0) give the hypothesis EqualDiscount'),
    (M, 'EAO.C13B.constInside_scalar', 'scalar min_cap, max_cap and extra_costs are constant inside every coarse step (hypothesis ConstInside)'),
    (M, 'EAO.C13B.minorGrid_eq_restrict', 'whole coarse steps: when first cut = window start and last cut = window end, the minor steps of the coarse grid with the reference data ARE the fine restricted grid of the window'),
    (M, 'EAO.C13B.builder_is_core', 'buildSimpleContract (freq=None model) is the constructor check, the sampled price vector and then simpleCore: the tail the coarse builder and the fine comparison problem share'),
    (M, 'EAO.C13B.transport_builder_is_core', 'the same for buildTransport and transportCore'),
    (M, 'EAO.C13B.coarse_weights_sum_one_builder', 'in the mapping a coarse SimpleContract returns, the factors of all rows of one variable (one per minor step) add up to 1'),
    (M, 'EAO.C13B.coarse_weights_sum_transport', 'for a coarse Transport they add up to -1 + efficiency (both nodes)'),
    (M, 'EAO.C13B.coarse_rate_constant', 'every mapping row of a coarse SimpleContract sits on a minor step of its coarse step i with factor dt_fine/dt_coarse: dispatch at the fine step = x*dt_fine/dt_coarse, rate = x/dt_coarse at every minor step'),
    (M, 'EAO.C13B.coarse_rate_constant_transport', 'the same for a coarse Transport with the node factor -1 or efficiency'),
    (M, 'EAO.C13B.Ex.unequal_discount_witness', 'machine-checked instance of finding F-13h: discount factors 1, 1/2 inside a coarse step, coarse point (2,0) costs 2, its expansion costs 3/2 in the fine problem; EqualDiscount fails'),
    (M, 'EAO.C13B.Ex.varying_limits_witness', 'machine-checked instance of finding F-13i: capacity series 3,1,3,1: coarse limit 6, the expansion of z=(6,0) puts 3 on a fine step whose limit is 1; ConstInside fails'),
]

ERR_MAP = ct.ERR_MAP

# fine frequency -> coarser (or equally long, differently spelled) asset frequencies; the first entries are power-of-two multiples
COARSE = {
    'h': ['2h', '4h', '8h', '60min', '3h', '6h', 'd', '5h', '12h'],
    '15min': ['30min', 'h', '2h', '45min'],
    '30min': ['h', '2h', '4h', '90min', '60min'],
    '2h': ['4h', '8h', '6h', 'd'],
    '4h': ['8h', '16h', '12h', 'd'],
    'd': ['2d', '4d', '3d', '7d', '48h'],
}
POW2 = {'h': ['2h', '4h', '8h', '60min'], '15min': ['30min', 'h', '2h'], '30min': ['h', '2h', '4h', '60min'],
        '2h': ['4h', '8h'], '4h': ['8h', '16h'], 'd': ['2d', '4d', '48h']}
FINER = {'h': ['30min', '15min'], '2h': ['h', '30min'], '4h': ['h', '2h'], 'd': ['h', '12h'], '30min': ['15min'], '15min': ['5min']}

D, iso = ct.D, ct.iso


def td(freq):
    """length of a frequency exactly as the implementation computes it"""
    try:
        return pd.Timedelta(1, freq)
    except Exception:
        return pd.Timedelta(freq)


# ------------------------------------------------------------------------------------------ generator
def coarse_points(g, win, freq, wacc=0.0):
    """naive points of the coarse restricted grid as eaopack will compute it (for sizing arrays); None when it cannot"""
    try:
        tg = scen.make_grid(g)
        tg.set_wacc(wacc)
        tg.set_restricted_grid(None if win[0] is None else win[0].to_pydatetime(), None if win[1] is None else win[1].to_pydatetime(), freq)
        return [pd.Timestamp(p).tz_localize(None) for p in tg.restricted.timepoints]
    except Exception:
        return None


WINDOWS = ['none', 'none', 'whole', 'whole', 'whole_tail', 'lead', 'lead_whole', 'beyond_end', 'inside', 'straddle_start',
           'straddle_end', 'superset', 'only_start', 'only_end', 'off_grid', 'before', 'after', 'empty', 'reversed']


def gen_window(rnd, gpts, how, tz, cstep):
    """window placements that matter for a coarse frequency, on top of those of the contract generator:
    whole = starts on a grid point and is a whole number of coarse steps; whole_tail = the same plus a remainder;
    lead = starts part of a coarse step before the horizon; lead_whole = a whole number of coarse steps before it;
    beyond_end = ends after the horizon"""
    n = len(gpts) - 1
    step = gpts[1] - gpts[0]
    for _ in range(30):
        if how == 'whole':
            i = rnd.randint(0, n - 1)
            k = rnd.randint(1, max(1, int((gpts[-1] - gpts[i]) / cstep)))
            r = (gpts[i], gpts[i] + k * cstep)
        elif how == 'whole_tail':
            i = rnd.randint(0, n - 1)
            k = rnd.randint(1, max(1, int((gpts[-1] - gpts[i]) / cstep)))
            r = (gpts[i], gpts[i] + k * cstep + rnd.randint(1, 3) * step)
        elif how == 'lead':
            r = (gpts[0] - rnd.randint(1, 3) * step, rnd.choice([None, gpts[rnd.randint(1, n)]]))
        elif how == 'lead_whole':
            r = (gpts[0] - rnd.randint(1, 2) * cstep, rnd.choice([None, gpts[rnd.randint(1, n)], gpts[-1] + cstep]))
        elif how == 'beyond_end':
            r = (rnd.choice([None, gpts[rnd.randint(0, n - 1)]]), gpts[-1] + rnd.randint(1, 5) * step)
        else:
            return ct.place(rnd, gpts, how, tz)
        if all(x is None or ct.localizable(x, tz) for x in r):
            return r
    return (None, None)


def gen_case(rnd, malformed=False):
    exact = rnd.random() < 0.5
    kind = rnd.choice(['coarse_contract', 'coarse_contract', 'coarse_transport'])
    small = rnd.random() < 0.12          # short horizons: often no or one coarse step
    while True:
        g = ct.gen_grid(rnd, tmax=6 if small else rnd.choice([12, 20, 32]), exact=exact)
        if g['freq'] in COARSE and (small or len(ct.grid_points(g)) - 1 >= 4):
            break
    tz = g['tz']
    gpts = ct.grid_points(g)
    T = len(gpts) - 1
    cands = POW2[g['freq']] if exact else COARSE[g['freq']]
    fit = [f for f in cands if 2 * td(f) <= gpts[-1] - gpts[0]]
    freq = rnd.choice(fit if (fit and rnd.random() < 0.9) else cands)
    cstep = td(freq)
    how = rnd.choice(WINDOWS)
    win = gen_window(rnd, gpts, how, tz, cstep)
    args = {'freq': freq}
    if win[0] is not None:
        args['start'] = D(win[0])
    if win[1] is not None:
        args['end'] = D(win[1])
    args['wacc'] = 0.0 if (exact or rnd.random() < 0.5) else rnd.choice([0.05, 0.1, 0.5])
    bad = None
    if malformed:
        bad = rnd.choice(['minmax_scalar', 'minmax_vec', 'nan_gap', 'price_len', 'price_missing', 'cap_key_short', 'cap_key_missing',
                          'array_len', 'overlap', 'freq_finer', 'freq_finer', 'tr_nodes', 'tr_eff', 'tr_minmax', 'tr_mixed',
                          'tr_cost_missing', 'tr_cost_len'])
    if bad == 'freq_finer':
        args['freq'] = freq = rnd.choice(FINER[g['freq']])
    rp = coarse_points(g, win, freq, args['wacc'])
    rpts = rp if rp is not None else []
    Tc = len(rpts)
    feats = ['kind:' + kind, 'window:' + how, 'exact' if exact else 'tolerant', 'freq:%s/%s' % (g['freq'], freq),
             'tz' if tz else 'naive', 'wacc0' if args['wacc'] == 0 else 'wacc', 'Tc%d' % min(Tc, 3)]
    prices = {}
    name = rnd.choice(['a', 'contract 1', '1', 'tr'])
    if kind == 'coarse_contract':
        if bad and bad.startswith('tr_'):
            bad = 'minmax_vec'
        sign = rnd.choice(['both', 'both', 'buy', 'sell', 'zero', 'touch'])
        forms = ct.CAP_FORMS
        fmin, fmax = rnd.choice(forms), rnd.choice(forms)
        if len(gpts) <= 2:
            fmin = fmin if not fmin.startswith('dict') else 'scalar'
            fmax = fmax if not fmax.startswith('dict') else 'scalar'
        if Tc <= 1 or rp is None:   # numpy broadcasts a k-array against a one-step grid the other way round
            fmin = 'scalar' if fmin.startswith('array') else fmin
            fmax = 'scalar' if fmax.startswith('array') else fmax
        rng = {'both': ((-10, -0.125), (0.125, 10)), 'buy': ((-10, -1), (-1, 0)), 'sell': ((0, 1), (1, 10)),
               'zero': ((0, 0), (0, 0)), 'touch': ((-5, 0), (0, 5))}[sign]
        args['min_cap'] = ct.gen_param(rnd, exact, fmin, rpts, gpts, prices, rng[0][0], rng[0][1], tz)
        args['max_cap'] = ct.gen_param(rnd, exact, fmax, rpts, gpts, prices, rng[1][0], rng[1][1], tz)
        spread = rnd.choice(['zero', 'zero', 'scalar', 'scalar', 'dict_end', 'dict_noend', 'key', 'array', 'neg', 'dict_gap'])
        if len(gpts) <= 2 and spread.startswith('dict'):
            spread = 'scalar'
        if (Tc <= 1 or rp is None) and spread == 'array':
            spread = 'scalar'
        if spread == 'zero':
            args['extra_costs'] = rnd.choice([0.0, 0])
        elif spread == 'neg':
            args['extra_costs'] = float(ct.val(rnd, exact, -2, -0.125))
        elif spread == 'dict_gap':
            args['extra_costs'] = ct.gen_param(rnd, exact, rnd.choice(['dict_end', 'dict_noend']), rpts, gpts, prices, 0, 3, tz, gaps=True)
        else:
            args['extra_costs'] = ct.gen_param(rnd, exact, spread, rpts, gpts, prices, 0, 3, tz)
        if rnd.random() < 0.9:
            prices['p'] = ct.gen_series(rnd, exact, T, -5, 60)
            args['price'] = 'p'
        feats += ['sign:' + sign, 'min:' + fmin, 'max:' + fmax, 'spread:' + spread, 'price' if 'price' in args else 'noprice']
        nodes = ['n1']
        if bad == 'minmax_scalar':
            args['min_cap'], args['max_cap'] = 2.0, 1.0
        elif bad == 'minmax_vec' and Tc > 1:
            a = ct.gen_series(rnd, exact, Tc, 0, 3)
            i = rnd.randrange(Tc)
            args['max_cap'] = {'$arr': a}
            args['min_cap'] = {'$arr': [x - 1 for x in a[:i]] + [a[i] + 1] + [x - 1 for x in a[i + 1:]]}
        elif bad == 'nan_gap' and len(gpts) > 2:
            which = rnd.choice(['min_cap', 'max_cap'])
            args[which] = ct.gen_param(rnd, exact, rnd.choice(['dict_end', 'dict_noend']), rpts, gpts, prices, 0, 0, tz, gaps=True)
        elif bad == 'price_len':
            prices['p'] = ct.gen_series(rnd, exact, T + rnd.choice([-1, 1, 2]), 0, 5)
            args['price'] = 'p'
        elif bad == 'price_missing':
            args['price'] = 'nokey'
        elif bad == 'cap_key_short':
            prices['short'] = ct.gen_series(rnd, exact, max(0, T - rnd.choice([1, 2, 5])), 0, 5)
            args['max_cap'] = 'short'
        elif bad == 'cap_key_missing':
            args[rnd.choice(['max_cap', 'min_cap', 'extra_costs'])] = 'nokey'
        elif bad == 'array_len' and Tc > 1:
            args[rnd.choice(['max_cap', 'min_cap', 'extra_costs'])] = {'$arr': ct.gen_series(rnd, exact, Tc + rnd.choice([1, 2, 3]), 0, 5)}
        elif bad == 'overlap' and len(gpts) > 2:
            args[rnd.choice(['max_cap', 'extra_costs'])] = {'start': [D(gpts[0]), D(gpts[1])], 'end': [D(gpts[2]), D(gpts[-1])], 'values': [1.0, 2.0]}
    else:
        direction = rnd.choice(['pos', 'pos', 'neg', 'mixed_free', 'zero'])
        lohi = {'pos': ((0, 2), (2, 10)), 'neg': ((-10, -2), (-2, 0)), 'mixed_free': ((-5, -0.125), (0.125, 5)), 'zero': ((0, 0), (0, 0))}[direction]
        args['min_cap'] = float(ct.val(rnd, exact, *lohi[0]))
        args['max_cap'] = float(ct.val(rnd, exact, *lohi[1]))
        if rnd.random() < 0.3:
            args['min_cap'] = int(args['min_cap'])
            args['max_cap'] = max(int(args['max_cap']), args['min_cap'])
        args['efficiency'] = rnd.choice([1.0, 0.5, 0.25, 1.5] if exact else [1.0, 0.9, 0.95, 0.5, 1.1])
        if direction != 'mixed_free':
            costs = rnd.choice(['none', 'const', 'series', 'series', 'both'])
            if costs in ('const', 'both'):
                args['costs_const'] = float(ct.val(rnd, exact, -1, 4))
            if costs in ('series', 'both'):
                prices['tc'] = ct.gen_series(rnd, exact, T, 0, 5)
                args['costs_time_series'] = 'tc'
        else:
            costs = rnd.choice(['none', 'zero_series'])
            if costs == 'zero_series':
                prices['tc'] = [0.0] * T
                args['costs_time_series'] = 'tc'
        feats += ['dir:' + direction, 'costs:' + costs, 'eff:%s' % args['efficiency']]
        nodes = rnd.choice([['n1', 'n2'], ['n1', 'n2'], ['n2', 'n1'], ['n1', 'n1']])
        if bad and not (bad.startswith('tr_') or bad == 'freq_finer'):
            bad = rnd.choice(['tr_nodes', 'tr_eff', 'tr_minmax', 'tr_mixed', 'tr_cost_missing', 'tr_cost_len'])
        if bad == 'tr_nodes':
            nodes = rnd.choice([['n1'], ['n1', 'n2', 'n3']])
        elif bad == 'tr_eff':
            args['efficiency'] = rnd.choice([0.0, -1.0])
        elif bad == 'tr_minmax':
            args['min_cap'], args['max_cap'] = 3.0, 1.0
        elif bad == 'tr_mixed':
            args['min_cap'], args['max_cap'] = -1.0, 2.0
            args['costs_const'] = 1.0
            args.pop('costs_time_series', None)
        elif bad == 'tr_cost_missing':
            args['costs_time_series'] = 'nokey'
        elif bad == 'tr_cost_len':
            prices['tc'] = ct.gen_series(rnd, exact, T + rnd.choice([1, 2]), 0, 5)
            args['costs_time_series'] = 'tc'
    if bad:
        feats.append('bad:' + bad)
    spec = {'type': KINDS[kind], 'name': name, 'nodes': nodes, 'args': args}
    return {'kind': kind, 'grid': g, 'prices': prices, 'spec': spec, 'features': feats, 'exact': exact}


# ------------------------------------------------------------------------------------------ implementation side
def coarse_json(r, tz):
    return {'grid': grid_json(r, tz), 'minor': [[int(i) for i in I] for I in r.I_minor_in_major]}


def cuts_of(tg, start, end, freq):
    """`pd.date_range(start, end, freq, tz)` exactly as `Timegrid.__init__` calls it for a restricted grid"""
    s = tg.start if start is None else pd.Timestamp(start)
    e = tg.end if end is None else pd.Timestamp(end)
    if s.tzinfo is None:
        s = pd.Timestamp(s, tz=tg.tz)
    if e.tzinfo is None:
        e = pd.Timestamp(e, tz=tg.tz)
    pts = pd.date_range(start=s, end=e, freq=freq, tz=tg.tz)
    return [int(p.value // 10 ** 9) for p in pts]


def run_impl(case):
    """{'problem': …} | {'error': class}; plus the full grid, the coarse grid made on a fresh grid object, the cuts"""
    out = {}
    g = case['grid']
    tz = g.get('tz')
    a = scen.dec(copy.deepcopy(case['spec']['args']))
    try:
        tg0 = scen.make_grid(g)
        tg0.set_wacc(a.get('wacc', 0))
        out['ref'] = grid_json(tg0, tz)
    except Exception as e:
        out['grid_error'] = err_class(e)
        return out
    try:
        out['freqA'] = int(td(a['freq']).total_seconds())
        out['freqP'] = int(td(g['freq']).total_seconds())
        out['cuts'] = cuts_of(tg0, a.get('start'), a.get('end'), a['freq'])
    except Exception as e:
        out['unmodelled'] = 'frequency: %s' % type(e).__name__
        return out
    try:
        tg0.set_restricted_grid(a.get('start'), a.get('end'), a['freq'])
        if hasattr(tg0.restricted, 'I_minor_in_major'):
            out['coarse'] = coarse_json(tg0.restricted, tz)
        else:
            out['unmodelled'] = 'same frequency string: the freq=None path'
            return out
    except Exception as e:
        out['coarse_error'] = err_class(e)
    try:
        with Quiet():
            tg, nodes, prices = ct.build_objects(case)
            asset = scen.build_asset(case['spec'], nodes)
            op = asset.setup_optim_problem(prices, tg)
            used = coarse_json(asset.timegrid.restricted, tz)
            usedref = grid_json(asset.timegrid, tz)
        if used != out.get('coarse') or usedref != out['ref']:
            out['grid_mismatch'] = True
        out['problem'] = problem_json(op, name=asset.name, nodes=[n.name for n in asset.nodes])
    except Exception as e:
        out['error'] = err_class(e)
        out['error_text'] = '%s: %s' % (type(e).__name__, str(e)[:200])
    return out


def request(case, impl_result=None, fine=True):
    r = impl_result if impl_result is not None else run_impl(case)
    g = case['grid']
    tz = g.get('tz')
    spec = case['spec']
    a = scen.dec(copy.deepcopy(spec['args']))
    for k in ('extra_costs', 'min_cap', 'max_cap'):
        if k in a:
            a[k] = ct.with_implicit_end(a[k])
    req = {'op': case['kind'], 'ref': r['ref'], 'prices': prices_json(case['prices']), 'cuts': r['cuts'],
           'freqA': r['freqA'], 'freqP': r['freqP']}
    if 'coarse' in r:
        req['coarse'] = r['coarse']
        req['fine'] = bool(fine)
    if case['kind'] == 'coarse_contract':
        p = {'name': spec['name'], 'nodes': spec['nodes'], 'price': a.get('price'),
             'extra_costs': param_json(a.get('extra_costs', 0.), tz),
             'min_cap': param_json(a.get('min_cap', 0.), tz), 'max_cap': param_json(a.get('max_cap', 0.), tz)}
    else:
        p = {'name': spec['name'], 'nodes': spec['nodes'], 'costs_const': fs(a.get('costs_const', 0.)),
             'costs_key': a.get('costs_time_series'), 'min_cap': fs(a.get('min_cap', 0.)), 'max_cap': fs(a.get('max_cap', 0.)),
             'efficiency': fs(a.get('efficiency', 1.))}
    req['params'] = p
    return req


def _pow2(n):
    return n > 0 and (n & (n - 1)) == 0


def is_exact(case, req):
    """every intermediate value of the implementation is exactly representable: dyadic data, no discounting, coarse steps
    of a power-of-two number of fine steps whose lengths are power-of-two fractions of the coarse step"""
    if not case.get('exact') or 'coarse' not in req:
        return False
    for k in ('prices', 'params'):
        if not all(ct._small(s) for s in ct._rats(req.get(k, []))):
            return False
    cg = req['coarse']
    if any(Fraction(s) != 1 for s in req['ref']['df']) or any(Fraction(s) != 1 for s in cg['grid']['df']):
        return False
    dtf = [Fraction(s) for s in req['ref']['dt']]
    if not all(ct._small(s) for s in req['ref']['dt']) or not all(ct._small(s) for s in cg['grid']['dt']):
        return False
    for cell, d in zip(cg['minor'], cg['grid']['dt']):
        if not _pow2(len(cell)):
            return False
        for t in cell:
            w = dtf[t] / Fraction(d)
            if not (_pow2(w.numerator) and _pow2(w.denominator)):
                return False
    return True


def compare(case, impl_result, model_result, req=None):
    """list of disagreement strings"""
    out = []
    if 'grid_error' in impl_result or 'unmodelled' in impl_result:
        return out
    if impl_result.get('grid_mismatch'):
        out.append('grids used by the asset differ from those of a fresh Timegrid (set_wacc, set_restricted_grid)')
    if 'err' in model_result:
        return ['driver rejected the request: %s' % model_result['err']]
    m = model_result['ok']
    if 'coarse' in impl_result:
        same = m.get('coarsen') == 'same'
        if m.get('coarsen') == 'differs' and not case.get('exact'):
            # sums of non-dyadic floats (coarse dt = sum of fine dt): equal up to rounding
            a, b = m['coarse_model'], impl_result['coarse']
            same = (a['minor'] == b['minor'] and a['grid']['pts'] == b['grid']['pts'] and a['grid']['idx'] == b['grid']['idx']
                    and all(pf.cmp_vec(k, a['grid'][k], b['grid'][k], 1e-12) is None for k in ('dt', 'Dt', 'df')))
            if not same:
                out.append('coarse grid: model %s vs impl %s' % (json.dumps(a)[:300], json.dumps(b)[:300]))
        elif not same:
            out.append('coarse grid: the model\'s coarsening of the full grid along the cuts is %r' % m.get('coarsen'))
        if m.get('from_cuts') != 'same' and m.get('coarsen') == 'same':
            out.append('builder from the cuts vs builder on the given coarse grid: %r' % m.get('from_cuts'))
    if 'error' in impl_result or 'error' in m:
        ie = impl_result.get('error')
        me = m.get('error')
        if ie is None or me is None or ERR_MAP.get(me) != ie:
            out.append('error class: model %r (expects impl %r) vs impl %r %s' % (me, ERR_MAP.get(me), ie, impl_result.get('error_text', '')))
        return out
    req = req or request(case, impl_result)
    tol = 0 if is_exact(case, req) else 1e-9
    mp, ip = m['problem'], impl_result['problem']
    if mp['name'] != ip['name'] or mp['nodes'] != ip['nodes']:
        out.append('name/nodes: %r %r (model) vs %r %r (impl)' % (mp['name'], mp['nodes'], ip['name'], ip['nodes']))
    for v in ('c', 'l', 'u'):
        d = pf.cmp_vec(v, mp[v], ip[v], tol)
        if d:
            out.append(d)
    d = pf.cmp_rows('rows', mp['rows'], ip['rows'], tol, ordered=True)
    if d:
        out.append(d)
    d = ct.cmp_mapping_ordered(mp['mapping'], ip['mapping'], tol)
    if d:
        out.append(d)
    return ['[%s] %s' % ('exact' if tol == 0 else 'tol', x) for x in out]


# ------------------------------------------------------------------------------------------ oracle (real code only)
def fine_case(case, impl_result):
    """the same asset WITHOUT freq on the window made of the coarse steps, price series replaced by its plain mean per coarse
    step; None (with a reason) when that window cannot be expressed"""
    cg = impl_result['coarse']
    cells = cg['minor']
    flat = [t for c in cells for t in c]
    if not flat:
        return None, 'empty'
    if flat != list(range(flat[0], flat[-1] + 1)):
        return None, 'not-contiguous'
    g = case['grid']
    tz = g.get('tz')
    gpts = ct.grid_points(g)
    s, e = gpts[flat[0]], gpts[flat[-1] + 1]
    if not (ct.localizable(s, tz) and ct.localizable(e, tz)):
        return None, 'not-localizable'
    if tz is not None and (instant(s, tz) != impl_result['ref']['pts'][flat[0]]):
        return None, 'ambiguous-local-time'
    if tz is not None and flat[-1] + 1 < len(impl_result['ref']['pts']) and instant(e, tz) != impl_result['ref']['pts'][flat[-1] + 1]:
        return None, 'ambiguous-local-time'
    fc = copy.deepcopy(case)
    args = fc['spec']['args']
    args.pop('freq')
    args['start'], args['end'] = D(s), D(e)
    key = args.get('price') if case['kind'] == 'coarse_contract' else args.get('costs_time_series')
    if key is not None:
        arr = np.asarray(case['prices'][key], dtype=float).copy()
        for c in cells:
            arr[c] = arr[c].mean()
        fc['prices']['mean_' + key] = [float(v) for v in arr]
        args['price' if case['kind'] == 'coarse_contract' else 'costs_time_series'] = 'mean_' + key
    fc['kind'] = 'simple_contract' if case['kind'] == 'coarse_contract' else 'transport'
    return fc, None


def _const_inside(vec, cells, first):
    """is the fine vector (over the steps first, first+1, …) constant inside every coarse step? (NaN equals NaN)"""
    for c in cells:
        v0 = vec[c[0] - first]
        for t in c[1:]:
            v = vec[t - first]
            if not (v == v0 or (v != v and v0 != v0)):
                return False
    return True


def _disp(mapping, x, tol_zero=False):
    """dispatch per (node, step) from a mapping: sum of factor * x[var]"""
    d = {}
    for r in mapping:
        if r['kind'] != 'd' or r['node'] is None:
            continue
        k = (r['node'], r['step'])
        d[k] = d.get(k, Fraction(0)) + Fraction(r['factor']) * x[r['var']]
    return d


def oracle(case, impl_result):
    """list of violation dicts {oracle, detail, facts} (see `oracle_ex`)"""
    return oracle_ex(case, impl_result)[0]


def oracle_ex(case, impl_result, rnd=None):
    """violations of the statement `coarse problem = fine problem with averaged prices + same rate inside a coarse step` on the
    real code.  Returns (violations, features)."""
    rnd = rnd or random.Random(12345)
    if 'problem' not in impl_result or 'coarse' not in impl_result:
        return [], ['oracle:no-problem']
    fc, why = fine_case(case, impl_result)
    if fc is None:
        return [], ['oracle:unjudged-' + why]
    cg = impl_result['coarse']
    cells = cg['minor']
    flat = [t for c in cells for t in c]
    first = flat[0]
    Tc, Tf = len(cells), len(flat)
    owner = [i for i, c in enumerate(cells) for _ in c]
    dtf = [Fraction(impl_result['ref']['dt'][t]) for t in flat]
    dtc = [Fraction(s) for s in cg['grid']['dt']]
    w = [dtf[k] / dtc[owner[k]] for k in range(Tf)]
    # the real fine problem
    try:
        with Quiet():
            tg, nodes, prices = ct.build_objects(fc)
            fasset = scen.build_asset(fc['spec'], nodes)
            fop = fasset.setup_optim_problem(prices, tg)
            fI = [int(i) for i in fasset.timegrid.restricted.I]
            fdf = [float(v) for v in fasset.timegrid.restricted.discount_factors]
            # hypotheses, evaluated on the inputs
            consts = caps_const = True
            if case['kind'] == 'coarse_contract':
                for k in ('min_cap', 'max_cap', 'extra_costs'):
                    v = fasset.make_vector(getattr(fasset, k), prices, default_value=0 if k == 'extra_costs' else None)
                    ok_k = _const_inside([float(z) for z in v], cells, first)
                    consts = consts and ok_k
                    if k != 'extra_costs':
                        caps_const = caps_const and ok_k
    except Exception as e:
        a_ = case['spec']['args']
        scalars = all(isinstance(a_.get(k, 0.), (int, float)) for k in ('min_cap', 'max_cap', 'extra_costs'))
        if scalars:
            # constant parameters: the fine problem exists whenever the coarse one does (`fine_builds`, `coarse_equiv_transport`)
            return [{'oracle': 'fine_builds', 'detail': 'the coarse problem is built but the same asset without freq on the coarse steps raises %s: %s' % (
                type(e).__name__, str(e)[:120]), 'facts': {'kind': None, 'asset_type': case['spec']['type']}}], ['oracle:fine-error-scalars']
        return [], ['oracle:fine-error-' + err_class(e)]
    if fI != flat:
        return [], ['oracle:unjudged-window']
    fp = problem_json(fop, name=fasset.name, nodes=[n.name for n in fasset.nodes])
    cp = impl_result['problem']
    df_ok = _const_inside(fdf, cells, first)
    kind = None if (df_ok and consts) else ('coarse_wacc' if not df_ok else ('coarse_varying_limits' if not caps_const else 'coarse_varying_extra_costs'))
    feats = ['oracle:judged', 'oracle:hyp-' + ('ok' if kind is None else kind)]
    facts = {'kind': kind, 'asset_type': case['spec']['type'], 'freq': case['spec']['args']['freq']}
    exact = kind is None and is_exact(case, request(case, impl_result))
    tol = Fraction(0) if exact else Fraction(1, 10 ** 9)
    viol = []

    def close(a, b):
        return a == b or abs(a - b) <= tol * max(1, abs(a), abs(b))

    def V(detail):
        viol.append({'oracle': 'coarse_equals_fine_same_rate', 'detail': detail, 'facts': dict(facts)})
    nC, nF = len(cp['c']), len(fp['c'])
    if Tc == 0 or nC % Tc != 0 or nF != (nC // Tc) * Tf:
        V('form: %d coarse variables on %d coarse steps, %d fine variables on %d fine steps' % (nC, Tc, nF, Tf))
        return viol, feats
    B = nC // Tc
    cc, cl, cu = ([Fraction(s) for s in cp[k]] for k in ('c', 'l', 'u'))
    fcst, fl, fu = ([Fraction(s) for s in fp[k]] for k in ('c', 'l', 'u'))
    for b in range(B):
        for k in range(Tf):
            j, i = b * Tf + k, b * Tc + owner[k]
            if not close(fl[j], cl[i] * w[k]) or not close(fu[j], cu[i] * w[k]):
                V('bounds of fine variable %d: [%s, %s], of its coarse variable %d times dt_fine/dt_coarse: [%s, %s]' % (
                    j, float(fl[j]), float(fu[j]), i, float(cl[i] * w[k]), float(cu[i] * w[k])))
                break
    # random coarse points, expanded
    for trial in range(3):
        z = []
        for i in range(nC):
            lo, hi = cl[i], cu[i]
            z.append(lo if lo >= hi else lo + (hi - lo) * Fraction(rnd.randint(0, 8), 8))
        x = [z[b * Tc + owner[k]] * w[k] for b in range(B) for k in range(Tf)]
        vc = -sum(a * b for a, b in zip(cc, z))
        vf = -sum(a * b for a, b in zip(fcst, x))
        if not close(vc, vf):
            V('value of a coarse point %s vs of its expansion in the fine problem %s' % (float(vc), float(vf)))
        dc, dfi = _disp(cp['mapping'], z), _disp(fp['mapping'], x)
        if set(dc) != set(dfi):
            V('steps with dispatch rows differ: %s' % sorted(set(dc) ^ set(dfi))[:6])
        else:
            for k_ in dc:
                if not close(dc[k_], dfi[k_]):
                    V('dispatch at %s: %s (coarse mapping) vs %s (fine)' % (k_, float(dc[k_]), float(dfi[k_])))
                    break
        if viol:
            break
    return viol, feats + (['oracle:exact'] if exact else [])


def compare_fine(case, impl_result, model_ok):
    """the fine problem of the theorems (driver field `fine`) against the real fine builder with averaged prices"""
    fc, why = fine_case(case, impl_result)
    if fc is None or 'fine' not in model_ok:
        return [], ['fine:unjudged']
    r = ct.run_impl(fc)
    if 'grid_error' in r:
        return [], ['fine:grid-error']
    flat = [t for c in impl_result['coarse']['minor'] for t in c]
    if r['grid']['idx'] != flat:
        return [], ['fine:unjudged-window']
    out = []
    mg = model_ok['fine_grid']
    for k in ('pts', 'idx', 'dt', 'df'):
        if mg[k] != r['grid'][k]:
            out.append('fine grid %s: minorGrid %s vs restricted grid of the fine asset %s' % (k, mg[k][:6], r['grid'][k][:6]))
    mf = model_ok['fine']
    if 'error' in mf or 'error' in r:
        if ERR_MAP.get(mf.get('error')) != r.get('error'):
            out.append('fine problem error class: model %r vs impl %r %s' % (mf.get('error'), r.get('error'), r.get('error_text', '')))
        return out, ['fine:error']
    tol = 0 if is_exact(case, request(case, impl_result)) else 1e-9
    mp, ip = mf['problem'], r['problem']
    for v in ('c', 'l', 'u'):
        d = pf.cmp_vec('fine ' + v, mp[v], ip[v], tol)
        if d:
            out.append(d)
    d = ct.cmp_mapping_ordered(mp['mapping'], ip['mapping'], tol)
    if d:
        out.append('fine ' + d)
    return out, ['fine:compared']


def run_case(case, drv, rnd=None):
    """one case -> record {features, disagreements, violations, impl}"""
    r = run_impl(case)
    rec = {'features': list(case.get('features', [])), 'disagreements': [], 'violations': [],
           'impl': 'error:' + r['error'] if 'error' in r else 'ok'}
    if 'grid_error' in r:
        rec['features'].append('grid-error:' + r['grid_error'])
        return rec
    if 'unmodelled' in r:
        rec['features'].append('unmodelled')
        return rec
    if r.get('error') in ('NonExistentTimeError', 'AmbiguousTimeError') or r.get('coarse_error') in ('NonExistentTimeError', 'AmbiguousTimeError'):
        rec['features'].append('pandas-tz-error')      # pandas refuses a wall-clock time of the input: not modelled
        return rec
    try:
        req = request(case, r)
    except Exception as e:
        if type(e).__name__ in ('NonExistentTimeError', 'AmbiguousTimeError'):
            rec['features'].append('pandas-tz-error')  # a date of the input (or an implicit end derived from it) is no valid wall-clock time
            return rec
        raise
    mres = drv.ask(req)
    rec['disagreements'] = compare(case, r, mres, req)
    rec['exact'] = is_exact(case, req) and 'problem' in r
    if 'problem' in r:
        rec['nvars'] = len(r['problem']['c'])
        rec['nmap'] = len(r['problem']['mapping'])
        if 'ok' in mres and 'coarse' in r:
            d, f = compare_fine(case, r, mres['ok'])
            rec['disagreements'] += d
            rec['features'] += f
        v, f = oracle_ex(case, r, rnd)
        rec['violations'] = v
        rec['features'] += f
    return rec


class ScratchDriver:
    """the model behind the line protocol, run by the Lean interpreter from a scratch `Main.lean` (development only)"""

    def __init__(self, main):
        self.p = subprocess.Popen(['lake', 'env', 'lean', '--run', main], cwd=LEAN_DIR, stdin=subprocess.PIPE,
                                  stdout=subprocess.PIPE, text=True, bufsize=1)

    def ask(self, req):
        self.p.stdin.write(json.dumps(req) + '\n')
        self.p.stdin.flush()
        line = self.p.stdout.readline()
        if not line:
            raise RuntimeError('driver died on request op=%s' % req.get('op'))
        return json.loads(line)

    def close(self):
        try:
            self.p.stdin.close()
            self.p.wait(timeout=5)
        except Exception:
            self.p.kill()


KNOWN_KINDS = {'coarse_wacc': 'F-13h', 'coarse_varying_limits': 'F-13i',
               'coarse_varying_extra_costs': 'pkg-coarsebuild finding #1 (same nature as F-13i, for extra_costs; candidate for known_findings.json)'}


def selftest(n, seed, drv, verbose=False):
    """n cases (every 5th malformed): correspondence of the coarse builders, of the fine comparison problem, and the oracle on
    the real code.  Returns counts, disagreements, violations (those of a known kind separately), features."""
    rnd = random.Random(seed)
    feats = {}
    dis, viol, known = [], [], []
    counts = {'cases': 0, 'impl_ok': 0, 'impl_error': 0, 'exact': 0, 'malformed': 0, 'harness_errors': 0, 'skipped': 0,
              'oracle_judged': 0, 'oracle_hyp_ok': 0, 'fine_compared': 0}
    for i in range(n):
        case = gen_case(random.Random(rnd.getrandbits(48)), malformed=(i % 5 == 4))
        try:
            rec = run_case(case, drv, random.Random(rnd.getrandbits(48)))
        except Exception as e:
            counts['harness_errors'] += 1
            dis.append({'case': case, 'detail': 'harness error %s: %s' % (type(e).__name__, traceback.format_exc()[-800:])})
            continue
        counts['cases'] += 1
        counts['malformed'] += int(i % 5 == 4)
        counts['impl_ok' if rec['impl'] == 'ok' else 'impl_error'] += 1
        counts['exact'] += int(bool(rec.get('exact')))
        fl = rec['features']
        counts['skipped'] += int(any(f in ('unmodelled', 'pandas-tz-error') or f.startswith('grid-error') for f in fl))
        counts['oracle_judged'] += int('oracle:judged' in fl)
        counts['oracle_hyp_ok'] += int('oracle:hyp-ok' in fl)
        counts['fine_compared'] += int('fine:compared' in fl)
        for f in fl + [rec['impl']]:
            feats[f] = feats.get(f, 0) + 1
        for d in rec['disagreements']:
            dis.append({'case': case, 'detail': d})
            if verbose:
                print('DISAGREE', i, d)
        for v in rec['violations']:
            v['case'] = case
            (known if v['facts'].get('kind') in KNOWN_KINDS else viol).append(v)
            if verbose and v['facts'].get('kind') not in KNOWN_KINDS:
                print('VIOLATION', i, v['detail'])
    return {'counts': counts, 'disagreements': dis, 'violations': viol, 'known_violations': known,
            'features': dict(sorted(feats.items()))}
